import TensorModel.Proofs.Ltoi
/-!
  C01 — coordinate addressing is exact and bounds-checked.
  Property theorems only; helper lemmas live in `TensorModel/Proofs/Ltoi.lean`.
  All statements quantify over every rank, every dimension vector, every stride vector.
-/
namespace TM.C01

/-- Exactness of `Ltoi` (utils.go) for any access pattern with one stride per axis: an in-box
    coordinate is mapped to Σ cᵢ·sᵢ. -/
theorem ltoi_exact (shape : Shape) (strides c : List Int)
    (hlen : strides.length = shape.length) (hc : inBox shape c = true) :
    ltoi shape strides c = .ok (dot c strides) := by
  sorry

/-- With the default row-major strides the offset is the row-major rank of the coordinate. -/
theorem ltoi_rowMajor (shape : Shape) (c : List Int) (hc : inBox shape c = true) :
    ltoi shape (calcStrides shape) c = .ok (rowRank shape c) := by
  sorry

/-- With column-major strides (one per axis) the offset is the column-major rank. -/
theorem ltoi_colMajor (shape : Shape) (c : List Int) (hc : inBox shape c = true) :
    ltoi shape (prefixProds 1 shape) c = .ok (colRank shape c) := by
  sorry

/-- The row-major rank of an in-box coordinate lies inside the backing. -/
theorem rowRank_bounds (shape : Shape) (c : List Int) (hc : inBox shape c = true) :
    0 ≤ rowRank shape c ∧ rowRank shape c < prod shape := by
  sorry

/-- Distinct in-box coordinates have distinct row-major ranks ("exactly that one element"). -/
theorem rowRank_inj (shape : Shape) (c c' : List Int) (hc : inBox shape c = true) (hc' : inBox shape c' = true)
    (h : rowRank shape c = rowRank shape c') : c = c' := by
  sorry

theorem colRank_bounds (shape : Shape) (c : List Int) (hc : inBox shape c = true) :
    0 ≤ colRank shape c ∧ colRank shape c < prod shape := by
  sorry

theorem colRank_inj (shape : Shape) (c c' : List Int) (hc : inBox shape c = true) (hc' : inBox shape c' = true)
    (h : colRank shape c = colRank shape c') : c = c' := by
  sorry

/-- Rejection: a coordinate of the right arity with a component negative or not smaller than its
    dimension is refused with an error value (never a panic, never an offset). -/
theorem ltoi_rejects (shape : Shape) (strides c : List Int)
    (hlen : strides.length = shape.length) (harity : c.length = shape.length)
    (hbad : inBox shape c = false) :
    ∃ tag, ltoi shape strides c = .error (.err tag) := by
  sorry

/-- `At` refuses a coordinate of the wrong arity with an error. -/
theorem at_wrong_arity (st : St) (t : Dense) (c : List Int) (h : c.length ≠ t.dims) :
    ∃ tag, t.at_ st c = .error (.err tag) := by
  sorry

/-- `At` / `SetAt` refuse every coordinate outside the box with an error; `SetAt` returns no new
    state in that case, i.e. nothing is written. -/
theorem at_rejects (st : St) (t : Dense) (c : List Int)
    (hlen : t.strides.length = t.shape.length) (hbad : inBox t.shape c = false) :
    (∃ tag, t.at_ st c = .error (.err tag)) ∧ (∀ v, ∃ tag, t.setAt st c v = .error (.err tag)) := by
  sorry

/-- `At` reads exactly the cell at offset Σ cᵢ·sᵢ of the tensor's storage window. -/
theorem at_reads (st : St) (t : Dense) (c : List Int)
    (hlen : t.strides.length = t.shape.length) (hc : inBox t.shape c = true) :
    t.at_ st c = st.get t.win (dot c t.strides) := by
  sorry

/-- cell `k` of buffer `b` of the heap -/
def cell (st : St) (b k : Nat) : Option Val := (st.heap[b]?).bind (·[k]?)

/-- `SetAt` writes the addressed cell … -/
theorem setAt_writes (st st' : St) (t : Dense) (c : List Int) (v : Val)
    (hlen : t.strides.length = t.shape.length) (hc : inBox t.shape c = true)
    (h : t.setAt st c v = .ok st') :
    t.at_ st' c = .ok v := by
  sorry

/-- … and nothing else: every other cell of every buffer is unchanged, and so is the mask heap. -/
theorem setAt_frame (st st' : St) (t : Dense) (c : List Int) (v : Val)
    (hlen : t.strides.length = t.shape.length) (hc : inBox t.shape c = true)
    (h : t.setAt st c v = .ok st') :
    st'.mheap = st.mheap ∧
    ∀ b k, (b ≠ t.win.buf ∨ (k : Int) ≠ t.win.off + dot c t.strides) → cell st' b k = cell st b k := by
  sorry

/-- Consequence for a row-major tensor over its whole backing: writing coordinate `c` leaves the
    value read at every other in-box coordinate unchanged. -/
theorem setAt_other_coords (st st' : St) (t : Dense) (c c' : List Int) (v : Val)
    (hs : t.strides = calcStrides t.shape)
    (hc : inBox t.shape c = true) (hc' : inBox t.shape c' = true) (hne : c' ≠ c)
    (h : t.setAt st c v = .ok st') :
    t.at_ st' c' = t.at_ st c' := by
  sorry

-- non-vacuity: a concrete tensor meets the hypotheses, and the defect the `fix:` commit repaired
-- (negative component accepted) is rejected by the model
example : inBox [2, 3] [1, 2] = true ∧ ([3, 1] : List Int).length = ([2, 3] : Shape).length := by decide
example : (match ltoi [2, 3] [3, 1] [1, -1] with | .error (.err _) => true | _ => false) = true := by decide
example : (match ltoi [2, 3] [3, 1] [1, 2] with | .ok 5 => true | _ => false) = true := by decide

end TM.C01
