package main

// Generator of property C15 (masks): predicates x element types x soft/hard x prior mask states,
// every mask over small tensors for the inspection functions, masked iteration, filling, masked
// operands of elementwise operations, masks through transposition / slicing / materialisation.

import (
	"strconv"
	"fmt"
	"strings"
)

var maskPreds = []string{"eq", "ne", "gt", "gte", "lt", "lte", "inside", "outside", "values"}
var maskLayouts = []string{"contig", "lazyT", "physT", "rowslice", "sliced", "stepped", "colmajor", "mat"}

func maskBitsOf(n int, f func(i int) bool) string {
	if n == 0 {
		return "-"
	}
	var sb strings.Builder
	for i := 0; i < n; i++ {
		if f(i) {
			sb.WriteByte('1')
		} else {
			sb.WriteByte('0')
		}
	}
	return sb.String()
}

// maskBits produces the mask literal of a prior-mask class for n cells.
func (g *gen) maskBits(n int, kind string) string {
	switch kind {
	case "none":
		return "-"
	case "zeros":
		return maskBitsOf(n, func(int) bool { return false })
	case "ones":
		return maskBitsOf(n, func(int) bool { return true })
	case "alt":
		return maskBitsOf(n, func(i int) bool { return i%2 == 0 })
	}
	return maskBitsOf(n, func(int) bool { return g.r.chance(2, 5) })
}

func maskBitsFromInt(n int, m int) string {
	return maskBitsOf(n, func(i int) bool { return (m>>uint(i))&1 == 1 })
}

// moperand builds a (masked) tensor of logical shape sh in the given layout class and returns its
// variable. The mask class applies to the freshly built backing tensor.
func (g *gen) moperand(steps *[]string, nv *int, dt string, sh []int, layout, mk string) int {
	add := func(s string) { *steps = append(*steps, s) }
	if size(sh) == 1 {
		layout = "contig"
	}
	if len(sh) < 2 && (layout == "lazyT" || layout == "physT" || layout == "colmajor") {
		layout = "contig"
	}
	isVec := len(sh) == 2 && (sh[0] == 1 || sh[1] == 1)
	if layout == "colmajor" && isVec {
		layout = "contig" // column-major vectors carry one stride (finding F24, property C16)
	}
	switch layout {
	case "lazyT", "physT":
		p := g.randPerm(len(sh))
		src := make([]int, len(sh))
		for i, a := range p {
			src[a] = sh[i]
		}
		add(fmt.Sprintf("mnew %s %s C %s", dt, ints(src), g.maskBits(size(src), mk)))
		v := *nv
		*nv++
		add(fmt.Sprintf("T $%d %s", v, ints(p)))
		if layout == "physT" {
			add(fmt.Sprintf("mtranspose $%d", v))
		}
		return v
	case "rowslice":
		if len(sh) == 0 {
			break
		}
		big := append([]int{}, sh...)
		big[0] = sh[0] + 2
		add(fmt.Sprintf("mnew %s %s C %s", dt, ints(big), g.maskBits(size(big), mk)))
		p := *nv
		*nv++
		add(fmt.Sprintf("slice $%d 1:%d", p, sh[0]+1))
		v := *nv
		*nv++
		return v
	case "sliced", "mat", "stepped":
		big := make([]int, len(sh))
		spec := make([]string, len(sh))
		for i, d := range sh {
			switch {
			case d == 1:
				big[i] = 1
				spec[i] = "n"
			case layout == "stepped":
				big[i] = 2 * d
				spec[i] = fmt.Sprintf("0:%d:2", 2*d)
			default:
				big[i] = d + 1
				spec[i] = fmt.Sprintf("1:%d", d+1)
			}
		}
		add(fmt.Sprintf("mnew %s %s C %s", dt, ints(big), g.maskBits(size(big), mk)))
		p := *nv
		*nv++
		add(fmt.Sprintf("slice $%d %s", p, strings.Join(spec, ",")))
		v := *nv
		*nv++
		if layout == "mat" {
			add(fmt.Sprintf("mmat $%d", v))
			v = *nv
			*nv++
		}
		return v
	case "colmajor":
		add(fmt.Sprintf("mnew %s %s Fraw %s", dt, ints(sh), g.maskBits(size(sh), mk)))
		v := *nv
		*nv++
		return v
	}
	add(fmt.Sprintf("mnew %s %s C %s", dt, ints(sh), g.maskBits(size(sh), mk)))
	v := *nv
	*nv++
	return v
}

// maskPredLits picks literals for a predicate over cells holding 1..n (value set 0).
func (g *gen) maskPredLits(op string, n int) string {
	mid := 1 + g.r.intn(n+1)
	switch op {
	case "inside", "outside":
		lo := 1 + g.r.intn(n)
		hi := lo + g.r.intn(n)
		return fmt.Sprintf("#k%d #k%d", lo, hi)
	case "values":
		if g.r.chance(1, 2) {
			return fmt.Sprintf("#k%d #k0", mid)
		}
		return fmt.Sprintf("#k%d #k%d #k%d", mid, g.r.intn(2), g.r.intn(3))
	}
	return fmt.Sprintf("#k%d", mid)
}

// emitMaskInspect emits the inspection programs for tensor $v built by prefix. A spec mismatch or a
// panic ends a program, so steps that lie in a known-defect region for this tensor class (risky)
// get a program of their own; the others share one.
func (g *gen) emitMaskInspect(prefix []string, v int, sh []int, risky bool, tail []string) {
	with := func(extra ...string) []string { return append(append([]string{}, prefix...), extra...) }
	batt := []string{
		fmt.Sprintf("mq count $%d", v), fmt.Sprintf("mq ncount $%d", v), fmt.Sprintf("mq any $%d", v), fmt.Sprintf("mq all $%d", v),
		fmt.Sprintf("miter $%d Y", v), fmt.Sprintf("miter $%d I", v), fmt.Sprintf("miter $%d rI", v), fmt.Sprintf("miter $%d rY", v),
		fmt.Sprintf("miter $%d V", v), fmt.Sprintf("miter $%d rV", v),
	}
	var runs []string
	for _, kd := range []string{"contig", "notedges", "clump", "edges", "notcontig", "clumpun"} {
		runs = append(runs, fmt.Sprintf("mruns %s $%d", kd, v))
	}
	if risky {
		g.emit(with(batt...)...)
		for _, r := range runs {
			g.emit(with(r)...)
		}
		if len(tail) > 0 {
			g.emit(with(tail...)...)
		}
	} else {
		all := append(append(batt, runs...), tail...)
		g.emit(with(all...)...)
	}
	// per-axis variants: one program each (the matrix case panics)
	for ax := 0; ax < len(sh); ax++ {
		for _, kind := range []string{"count", "ncount", "any", "all"} {
			if !g.thorough() && len(sh) >= 2 && !g.r.chance(1, 2) {
				continue
			}
			g.emit(with(fmt.Sprintf("mq %s $%d %d", kind, v, ax))...)
		}
	}
}

var maskPredShapes = [][]int{{5}, {2, 3}, {}, {3, 1}, {2, 2, 2}, {1, 4}, {3, 2}, {6}, {1}, {2, 1, 3}}

func genC15(g *gen) {
	th := g.thorough()
	rep := func(q, t int) int {
		if th {
			return t
		}
		return q
	}

	// --- A. predicates: op x element type x soft/hard x prior mask state (concrete route, value set 0)
	priors := []string{"none", "zeros", "rand", "ones"}
	k := 0
	for _, op := range maskPreds {
		for _, dt := range allDtypes {
			for _, mode := range []string{"soft", "hard"} {
				for _, pr := range priors {
					for r := 0; r < rep(1, 12); r++ {
						sh := maskPredShapes[k%len(maskPredShapes)]
						k++
						n := size(sh)
						steps := []string{fmt.Sprintf("mnew %s %s C %s", dt, ints(sh), g.maskBits(n, pr))}
						steps = append(steps, fmt.Sprintf("mpred %s $0 %s %s", op, mode, g.maskPredLits(op, n)), "mdump $0", "mq count $0", "miter $0 Y")
						// a second predicate in the other mode on the result
						op2 := g.r.pick(maskPreds[:8])
						mode2 := g.r.pick([]string{"soft", "hard", "hard", "dflt"})
						steps = append(steps, fmt.Sprintf("mpred %s $0 %s %s", op2, mode2, g.maskPredLits(op2, n)), "mdump $0", "mruns contig $0")
						g.emit(steps...)
					}
				}
			}
		}
	}
	// predicates over layouts: transposed, views (with and without gaps), column-major, unmasked views
	for _, op := range maskPreds {
		for _, lay := range maskLayouts {
			for _, pr := range priors {
				for r := 0; r < rep(2, 20); r++ {
					dt := g.r.pick([]string{"i16", "f64", "u8", "str", "i8", "f32", "i64"})
					if op == "values" {
						dt = g.r.pick([]string{"f32", "f64"})
					}
					sh := g.r.pickInts([][]int{{2, 3}, {3, 2}, {2, 2, 2}, {4}, {3, 1}, {1, 3}, {2, 2}, {2, 3, 2}})
					var steps []string
					nv := 0
					v := g.moperand(&steps, &nv, dt, sh, lay, pr)
					mode := g.r.pick([]string{"soft", "hard"})
					steps = append(steps, fmt.Sprintf("mpred %s $%d %s %s", op, v, mode, g.maskPredLits(op, size(sh)+3)))
					steps = append(steps, fmt.Sprintf("mdump $%d", v))
					if v != 0 {
						steps = append(steps, "mdump $0")
					}
					steps = append(steps, fmt.Sprintf("mq count $%d", v), fmt.Sprintf("miter $%d V", v))
					g.emit(steps...)
				}
			}
		}
	}
	// --- B. predicates under other value sets (term route: the program ends with the predicate)
	for _, op := range maskPreds {
		for _, dt := range ordDtypes {
			for _, mode := range []string{"soft", "hard"} {
				for r := 0; r < rep(1, 10); r++ {
					if op == "values" && dt != "f32" && dt != "f64" {
						continue
					}
					vs := 1 + 2*g.r.intn(2) // 1: special values, 3: ties and negatives
					sh := g.r.pickInts([][]int{{8}, {3, 3}, {2, 2, 2}, {}})
					n := size(sh)
					lit := func() string {
						if vs == 1 && g.r.chance(2, 3) {
							return fmt.Sprintf("#q%d", g.r.intn(16))
						}
						return fmt.Sprintf("#k%d", g.r.intn(4))
					}
					var lits string
					switch op {
					case "inside", "outside":
						lits = lit() + " " + lit()
					case "values":
						lits = lit() + " " + lit()
						if g.r.chance(1, 2) {
							lits += " " + lit()
						}
					default:
						lits = lit()
					}
					g.emit(fmt.Sprintf("vset=%d", vs), fmt.Sprintf("mnew %s %s C %s", dt, ints(sh), g.maskBits(n, g.r.pick(priors))),
						fmt.Sprintf("mpred %s $0 %s %s", op, mode, lits))
				}
			}
		}
	}

	// every predicate on float data that holds NaN, ±Inf and ±0 (value set 1 on 16 and more cells), bounds among the special
	// values: NaN satisfies none of the ordered predicates and is neither inside nor outside
	for _, dt := range []string{"f32", "f64"} {
		for _, op := range maskPreds {
			for _, mode := range []string{"soft", "hard"} {
				for _, lits := range [][2]string{{"#q2", "#q12"}, {"#q3", "#q4"}, {"#q0", "#q8"}, {"#q9", "#q2"}} {
					l := lits[0]
					if op == "inside" || op == "outside" || op == "values" {
						l = lits[0] + " " + lits[1]
					}
					g.emit("vset=1", fmt.Sprintf("mnew %s 16 C %s", dt, g.maskBits(16, "none")), fmt.Sprintf("mpred %s $0 %s %s", op, mode, l))
					g.emit("vset=1", fmt.Sprintf("mnew %s 4,4 C %s", dt, g.maskBits(16, "rand")), fmt.Sprintf("mpred %s $0 %s %s", op, mode, l))
				}
			}
		}
	}
	// by-values with the default and with explicit tolerances on data that holds neighbours of the reference value
	// (1 ± 2^-20 next to 1): the same mask for float32 and float64
	for _, dt := range []string{"f32", "f64"} {
		for _, mode := range []string{"soft", "hard"} {
			for _, lits := range []string{"#k1 #k0", "#k1 #k0 #k0", "#k1 #k1", "#k2 #k0", "#k1 #k1 #k0"} {
				g.emit("vset=4", fmt.Sprintf("mnew %s 16 C %s", dt, g.maskBits(16, "none")), fmt.Sprintf("mpred values $0 %s %s", mode, lits))
				g.emit("vset=4", fmt.Sprintf("mnew %s 2,8 C %s", dt, g.maskBits(16, "rand")), fmt.Sprintf("mpred values $0 %s %s", mode, lits))
			}
		}
	}

	// --- C. inspection: every mask over small tensors
	maxN := 8
	if th {
		maxN = 10
	}
	shapesOf := func(n int) [][]int {
		out := [][]int{{n}}
		if n == 1 {
			out = append(out, []int{}, []int{1, 1})
		}
		if n > 1 {
			out = append(out, []int{n, 1}, []int{1, n})
		}
		for a := 2; a < n; a++ {
			if n%a == 0 {
				out = append(out, []int{a, n / a})
			}
		}
		if n == 8 {
			out = append(out, []int{2, 2, 2}, []int{2, 1, 4})
		}
		if n == 4 {
			out = append(out, []int{2, 1, 2}, []int{1, 2, 2})
		}
		if n == 6 {
			out = append(out, []int{1, 2, 3}, []int{3, 1, 2})
		}
		return out
	}
	for n := 1; n <= maxN; n++ {
		for si, sh := range shapesOf(n) {
			total := 1 << uint(n)
			for m := 0; m < total; m++ {
				// quick tier: every mask on the vector shape, a seeded 1/8 sample on the others
				if !th && si > 0 && total > 16 && !g.r.chance(1, 8) {
					continue
				}
				if th && si > 0 && total > 256 && !g.r.chance(1, 3) {
					continue
				}
				dt := allDtypes[(m+n+si)%len(allDtypes)]
				prefix := []string{fmt.Sprintf("mnew %s %s C %s", dt, ints(sh), maskBitsFromInt(n, m))}
				tail := []string{fmt.Sprintf("filled $0 %s copy", g.r.pick([]string{"dflt", "#k7"})), "mdump $1", "mdump $0"}
				g.emitMaskInspect(prefix, 0, sh, false, tail)
			}
		}
	}
	// tensors without a mask
	for _, sh := range [][]int{{}, {1}, {5}, {2, 3}, {3, 1}, {1, 3}, {2, 2, 2}} {
		g.emitMaskInspect([]string{fmt.Sprintf("mnew %s %s C -", g.r.pick(allDtypes), ints(sh))}, 0, sh, true, []string{"filled $0 dflt copy", "mdump $1"})
	}
	// unmasked tensors and per-axis variants on rank-3 shapes, all four queries
	for _, sh := range [][]int{{2, 2, 2}, {2, 3, 2}, {3, 2, 2}, {2, 2, 3}, {1, 2, 3}, {2, 1, 2}, {2, 2, 1}, {2, 3}, {3, 3}, {4}, {}, {1, 1, 1}, {2, 2, 2, 2}} {
		for r := 0; r < rep(3, 40); r++ {
			pr := g.r.pick([]string{"rand", "rand", "none", "ones", "zeros"})
			steps := []string{fmt.Sprintf("mnew %s %s C %s", g.r.pick(allDtypes), ints(sh), g.maskBits(size(sh), pr))}
			for ax := -1; ax <= len(sh); ax++ {
				for _, kind := range []string{"count", "ncount", "any", "all"} {
					if (ax == -1 || ax == len(sh)) && kind != "count" {
						continue
					}
					if ax == -1 {
						continue // negative axis: separate programs (panics stop the program)
					}
					steps = append(steps, fmt.Sprintf("mq %s $0 %d", kind, ax))
				}
			}
			g.emit(steps...)
			g.emit(steps[0], "mq any $0 -1")
		}
	}

	// --- D. inspection through layouts
	for _, lay := range maskLayouts {
		for _, sh := range [][]int{{2, 3}, {3, 2}, {2, 2, 2}, {5}, {4, 1}, {1, 4}, {2, 3, 2}, {3, 3}, {}, {2, 2}} {
			for r := 0; r < rep(3, 40); r++ {
				var steps []string
				nv := 0
				dt := g.r.pick(allDtypes)
				mk := g.r.pick([]string{"rand", "rand", "rand", "none", "ones"})
				v := g.moperand(&steps, &nv, dt, sh, lay, mk)
				steps = append(steps, fmt.Sprintf("mdump $%d", v))
				risky := !(lay == "contig" || lay == "rowslice") || mk == "none"
				g.emitMaskInspect(steps, v, sh, risky, nil)
			}
		}
	}

	// --- E. filling
	for _, dt := range allDtypes {
		for _, sh := range [][]int{{}, {4}, {1, 4}, {4, 1}, {2, 3}, {2, 2, 2}, {1}, {1, 1}} {
			for _, how := range []string{"copy", "inplace"} {
				for r := 0; r < rep(1, 6); r++ {
					lay := "contig"
					if r > 0 || g.r.chance(1, 3) {
						lay = g.r.pick(maskLayouts)
					}
					var steps []string
					nv := 0
					v := g.moperand(&steps, &nv, dt, sh, lay, g.r.pick([]string{"rand", "rand", "ones", "none", "zeros"}))
					lit := g.r.pick([]string{"dflt", "#k7", "#k0"})
					steps = append(steps, fmt.Sprintf("filled $%d %s %s", v, lit, how))
					res := nv
					steps = append(steps, fmt.Sprintf("mdump $%d", res), fmt.Sprintf("mdump $%d", v))
					if v != 0 {
						steps = append(steps, "mdump $0")
					}
					g.emit(steps...)
				}
			}
		}
	}

	// --- F. masked iteration scripts
	scripts := []string{"V", "I", "Y", "rV", "rI", "rY", "vivi", "yvyi", "vvrVfI", "Vxv", "iIrvV", "nvnindc", "rYfY", "VV", "II"}
	for _, lay := range maskLayouts {
		for r := 0; r < rep(12, 200); r++ {
			sh := g.r.pickInts([][]int{{}, {1}, {5}, {2, 3}, {3, 1}, {1, 3}, {2, 2, 2}, {3, 2}, {1, 1, 3}, {2, 1, 2}})
			var steps []string
			nv := 0
			v := g.moperand(&steps, &nv, g.r.pick(widthDtypes), sh, lay, g.r.pick([]string{"rand", "rand", "rand", "none", "ones", "zeros"}))
			for i := 0; i < 3; i++ {
				steps = append(steps, fmt.Sprintf("miter $%d %s", v, g.r.pick(scripts)))
			}
			g.emit(steps...)
		}
	}

	// --- G. the mask stays attached: chains of T / UT / transpose / slice / mmat / clone with mdump after every step
	for r := 0; r < rep(400, 8000); r++ {
		sh := g.r.pickInts([][]int{{2, 3}, {3, 2}, {2, 2, 2}, {2, 3, 2}, {4}, {3, 1}, {1, 3}, {3, 3}, {2, 1, 3}})
		dt := g.r.pick(widthDtypes)
		ord := "C"
		if len(sh) >= 2 && sh[0] > 1 && sh[1] > 1 && g.r.chance(1, 6) {
			ord = "Fraw"
		}
		steps := []string{fmt.Sprintf("mnew %s %s %s %s", dt, ints(sh), ord, g.maskBits(size(sh), g.r.pick([]string{"rand", "rand", "rand", "ones", "none"}))), "mdump $0"}
		nv := 1
		cur := 0
		curShape := append([]int{}, sh...)
		known := true
		pending := false
		for d := 0; d < 1+g.r.intn(4); d++ {
			choice := g.r.intn(7)
			if pending && choice <= 1 {
				// a second T materialises the pending transpose through the core model's `Dense.transpose`,
				// which misnames the string element type and keeps the mask tail of views (both reported as
				// needed core changes); masked tensors take this family's `mtranspose` instead
				choice = 2
			}
			switch choice {
			case 0, 1:
				pending = true
				if known && len(curShape) >= 2 {
					p := g.randPerm(len(curShape))
					steps = append(steps, fmt.Sprintf("T $%d %s", cur, ints(p)))
					ns := make([]int, len(p))
					for i, a := range p {
						ns[i] = curShape[a]
					}
					curShape = ns
				} else {
					steps = append(steps, fmt.Sprintf("T $%d -", cur))
					known = false
				}
			case 2:
				pending = false
				steps = append(steps, fmt.Sprintf("mtranspose $%d", cur))
			case 3:
				pending = false
				steps = append(steps, fmt.Sprintf("UT $%d", cur))
				known = false
			case 4:
				pending = false
				if known {
					steps = append(steps, fmt.Sprintf("slice $%d %s", cur, g.randSliceList(curShape)))
					cur = nv
					nv++
					known = false
				} else {
					steps = append(steps, fmt.Sprintf("slice $%d 0", cur))
					cur = nv
					nv++
				}
			case 5:
				pending = false
				steps = append(steps, fmt.Sprintf("mmat $%d", cur))
				cur = nv
				nv++
			case 6:
				steps = append(steps, fmt.Sprintf("clone $%d", cur))
				cur = nv
				nv++
			}
			steps = append(steps, fmt.Sprintf("mdump $%d", cur))
		}
		steps = append(steps, fmt.Sprintf("miter $%d Y", cur), fmt.Sprintf("mq count $%d", cur), "mdump $0")
		g.emit(steps...)
	}

	// --- G2. the copying transpositions keep the mask with the elements: SafeT, the package functions tensor.T and
	// tensor.Transpose, safe axis rolling, on masked tensors of every element width; the copy is inspected and the
	// source's mask is unchanged
	for _, dt := range widthDtypes {
		for _, c := range []struct{ sh, p, roll string }{{"2,3", "1,0", "1 0"}, {"3,2", "1,0", "1 0"}, {"2,2,2", "2,0,1", "2 0"}, {"2,3,2", "0,2,1", "2 1"}, {"1,3", "1,0", "1 0"}} {
			n := 1
			for _, d := range strings.Split(c.sh, ",") {
				k, _ := strconv.Atoi(d)
				n *= k
			}
			for _, op := range []string{"safeT $0 " + c.p, "safeT $0 -", "apiT $0 " + c.p, "apiT $0 -", "apiTranspose $0 " + c.p, "roll $0 " + c.roll + " 1"} {
				g.emit(fmt.Sprintf("mnew %s %s C %s", dt, c.sh, g.maskBits(n, "rand")), op, "mdump $1", "mq count $1", "miter $1 Y", "mdump $0")
			}
		}
	}

	// --- G3. … and with the pool in between: a masked tensor handed back to the pool, then the copying transpositions of
	// another masked tensor (the recycled header must not carry anything over, nor drop the new mask)
	for _, dt := range []string{"f64", "i16", "u8"} {
		for _, first := range []string{"2,3", "3,3", "6"} {
			nf := 6
			if first == "3,3" {
				nf = 9
			}
			for _, op := range []string{"safeT $1 -", "apiT $1 1,0", "apiTranspose $1 1,0", "roll $1 1 0 1", "clone $1"} {
				g.emit("pool on", fmt.Sprintf("mnew %s %s C %s", dt, first, g.maskBits(nf, "ones")), fmt.Sprintf("mnew %s 2,3 C %s", dt, g.maskBits(6, "rand")),
					"ret $0", op, "mdump $2", "mq count $2", "mdump $1", fmt.Sprintf("mnew %s 2,3 C %s", dt, g.maskBits(6, "none")), "ret $2", "clone $3", "mdump $4")
			}
		}
	}

	// --- H. masked operands of elementwise operations (C06/C08 matrix, masked part)
	binOps := []string{"add", "sub", "mul", "gt", "eq", "lt"}
	modes := []string{"safe", "unsafe", "reuse", "incr", "reuse=a"}
	opLayouts := []string{"contig", "lazyT", "rowslice", "sliced", "stepped", "mat", "physT"}
	for _, op := range binOps {
		for _, mode := range modes {
			for _, kind := range []string{"TT", "TS", "ST"} {
				for r := 0; r < rep(6, 120); r++ {
					isCmp := op == "gt" || op == "eq" || op == "lt"
					if isCmp && mode == "incr" {
						continue
					}
					dt := g.r.pick([]string{"f64", "i32", "u8", "f32", "i16", "i64"})
					sh := g.r.pickInts([][]int{{2, 3}, {4}, {3, 2}, {2, 2, 2}, {3, 1}, {1, 3}, {}, {2, 3, 2}})
					var steps []string
					steps = append(steps, "vset=2")
					nv := 0
					mk := func() string { return g.r.pick([]string{"rand", "rand", "rand", "none", "ones"}) }
					var A, B string
					var operands []int
					switch kind {
					case "TT":
						a := g.moperand(&steps, &nv, dt, sh, g.r.pick(opLayouts), mk())
						b := g.moperand(&steps, &nv, dt, sh, g.r.pick(opLayouts), mk())
						A, B = fmt.Sprintf("$%d", a), fmt.Sprintf("$%d", b)
						operands = []int{a, b}
					case "TS":
						a := g.moperand(&steps, &nv, dt, sh, g.r.pick(opLayouts), mk())
						A, B = fmt.Sprintf("$%d", a), fmt.Sprintf("#k%d", 2+g.r.intn(3))
						operands = []int{a}
					case "ST":
						b := g.moperand(&steps, &nv, dt, sh, g.r.pick(opLayouts), mk())
						A, B = fmt.Sprintf("#k%d", 2+g.r.intn(3)), fmt.Sprintf("$%d", b)
						operands = []int{b}
					}
					opts := ""
					written := -1
					valid := append([]int{}, operands...)
					switch mode {
					case "unsafe":
						opts = " unsafe"
						written = operands[0]
					case "reuse", "incr":
						d := g.moperand(&steps, &nv, dt, sh, g.r.pick([]string{"contig", "contig", "rowslice", "lazyT"}), g.r.pick([]string{"none", "none", "rand"}))
						valid = append(valid, d)
						written = d
						opts = fmt.Sprintf(" %s=$%d", mode, d)
						if isCmp {
							opts += " same"
						}
					case "reuse=a":
						opts = fmt.Sprintf(" reuse=$%d", operands[0])
						written = operands[0]
						if isCmp {
							opts += " same"
						}
					}
					steps = append(steps, fmt.Sprintf("bin %s %s %s %s%s", op, g.r.pick([]string{"fn", "meth"}), A, B, opts))
					res := nv
					nv++
					vl := ""
					for _, o := range valid {
						vl += fmt.Sprintf(" $%d", o)
					}
					steps = append(steps, fmt.Sprintf("mdump $%d%s", res, vl))
					for _, o := range operands {
						if o == written {
							steps = append(steps, fmt.Sprintf("mdump $%d%s", o, vl))
						} else {
							steps = append(steps, fmt.Sprintf("mdump $%d", o))
						}
					}
					g.emit(steps...)
				}
			}
		}
	}
	for _, op := range []string{"neg", "square", "abs", "sqrt", "apply"} {
		for _, mode := range []string{"safe", "unsafe", "reuse", "incr"} {
			for r := 0; r < rep(8, 150); r++ {
				if op == "apply" && (mode == "reuse" || mode == "incr") {
					continue // Apply with a destination maps over the destination's own data (F34, property C12)
				}
				dt := g.r.pick([]string{"f64", "i32", "f32", "i16"})
				if op == "sqrt" {
					dt = g.r.pick([]string{"f64", "f32"})
				}
				sh := g.r.pickInts([][]int{{2, 3}, {4}, {3, 2}, {2, 2, 2}, {3, 1}, {}})
				steps := []string{"vset=2"}
				nv := 0
				a := g.moperand(&steps, &nv, dt, sh, g.r.pick(opLayouts), g.r.pick([]string{"rand", "rand", "ones", "none"}))
				valid := []int{a}
				opts := ""
				written := -1
				switch mode {
				case "unsafe":
					opts = " unsafe"
					written = a
				case "reuse", "incr":
					d := g.moperand(&steps, &nv, dt, sh, g.r.pick([]string{"contig", "rowslice"}), g.r.pick([]string{"none", "rand"}))
					valid = append(valid, d)
					written = d
					opts = fmt.Sprintf(" %s=$%d", mode, d)
				}
				if op == "apply" {
					steps = append(steps, fmt.Sprintf("mapply $%d%s", a, opts))
				} else {
					steps = append(steps, fmt.Sprintf("un %s $%d%s", op, a, opts))
				}
				res := nv
				vl := ""
				for _, o := range valid {
					vl += fmt.Sprintf(" $%d", o)
				}
				steps = append(steps, fmt.Sprintf("mdump $%d%s", res, vl))
				if written == a {
					steps = append(steps, fmt.Sprintf("mdump $%d%s", a, vl))
				} else {
					steps = append(steps, fmt.Sprintf("mdump $%d", a))
				}
				g.emit(steps...)
			}
		}
	}

	// --- I. malformed / refusals
	for r := 0; r < rep(40, 400); r++ {
		dt := g.r.pick(allDtypes)
		switch r % 8 {
		case 0: // mask length differs from the data length
			g.emit(fmt.Sprintf("mnew %s 2,3 C %s", dt, g.maskBits(1+g.r.intn(9), "rand")), "mdump $0")
		case 1: // literal of another element type
			g.emit("mnew i16 4 C 0101", fmt.Sprintf("mpred %s $0 hard #k2:f64", g.r.pick(maskPreds[:6])))
		case 2: // by-values on non-float types
			g.emit(fmt.Sprintf("mnew %s 4 C 0101", dt), "mpred values $0 soft #k2 #k0", "mdump $0")
		case 3: // predicate on a view of an unmasked tensor (own mask; with gaps: panic)
			g.emit(fmt.Sprintf("mnew %s 3,3 C -", g.r.pick(ordDtypes)), fmt.Sprintf("slice $0 %s", g.r.pick([]string{"0:2,0:2", "1:3", "n,1", "0:3:2"})),
				fmt.Sprintf("mpred %s $1 %s #k4", g.r.pick(maskPreds[:6]), g.r.pick([]string{"soft", "hard"})), "mdump $1", "mdump $0")
		case 4: // axis out of range
			g.emit(fmt.Sprintf("mnew %s 2,2,2 C %s", dt, g.maskBits(8, "rand")), "mq count $0 3", "mq all $0 7", "mq ncount $0 -2")
		case 5: // default hardness
			g.emit(fmt.Sprintf("mnew %s 5 C %s", g.r.pick(ordDtypes), g.maskBits(5, "rand")), "mpred gt $0 dflt #k3", "mdump $0", "soften $0", "mpred lt $0 dflt #k3", "mdump $0", "harden $0", "mpred eq $0 dflt #k3", "mdump $0")
		case 6: // shallow clones share the mask
			g.emit(fmt.Sprintf("mnew %s 2,3 C %s", g.r.pick(ordDtypes), g.maskBits(6, "rand")), "shallow $0", "mpred gte $1 soft #k3", "mdump $0", "mdump $1")
		case 7: // operands of different shapes in mdump / masked scalar
			g.emit("vset=2", fmt.Sprintf("mnew f64 - C %s", g.maskBits(1, "rand")), "mnew f64 2,2 C 0110", "bin add fn $1 $0", "mdump $2 $1", "mdump $0")
		}
	}
}

func (r *rng) pickInts(ss [][]int) []int { return ss[r.intn(len(ss))] }

func init() {
	generators["C15"] = func(g *gen) {
		genC15(g)
		// family MaskOps: setters, WithMask, reductions of masked tensors (gen_maskops.go)
		if f, ok := generators["C15ops"]; ok {
			for _, line := range captureGen(g, f) {
				if j := strings.Index(line, " ; "); j >= 0 {
					g.n++
					fmt.Fprintf(g.w, "%s%d%s\n", g.pfx, g.n, line[j:])
				}
			}
		}
	}
}
