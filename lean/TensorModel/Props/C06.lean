import TensorModel.Proofs.Kernels
import TensorModel.Proofs.MinMax
import TensorModel.Proofs.CoreEq
import TensorModel.Proofs.IterPaths
import TensorModel.Proofs.MinMaxIter
import TensorModel.Props.C13
/-!
  C06 — elementwise arithmetic is coordinate-wise, in operand order, layout-blind.
  Property theorems only; helper lemmas live in `TensorModel/Proofs/Kernels.lean`.

  Vocabulary (defined in `Proofs/Kernels.lean`):
  * `cell st b k : Option Val` — cell `k` of heap buffer `b` (`none` = no such buffer / too short);
  * `InBuf st b off n` — `∃ ba, st.heap[b]? = some ba ∧ off + n ≤ ba.size`;
  * `InRange l n` — every offset of the iterator stream `l` lies in `[0, n)`.
  All statements hold for every length / every offset list and for arbitrary scalar functions `f`, `g`.
-/
set_option linter.unusedSimpArgs false
namespace TM.C06
open TM

/-! ## 1. contiguous kernels: totality, values in operand order, frame -/

/-- `a[i] = f a[i] b[i]`; nothing else changes (mask heap included). -/
theorem kVV_sem (st : St) (a b : Win) (f : BinF) (hne : a.buf ≠ b.buf) (hcap : a.len ≤ b.cap)
    (hA : InBuf st a.buf a.off a.len) (hB : InBuf st b.buf b.off a.len) :
    ∃ st', kVV st a b f = .ok st' ∧ st'.mheap = st.mheap ∧
      (∀ i, i < a.len → ∃ x y, cell st a.buf (a.off + i) = some x ∧ cell st b.buf (b.off + i) = some y ∧
        cell st' a.buf (a.off + i) = some (f x y)) ∧
      (∀ b' k, (b' ≠ a.buf ∨ k < a.off ∨ a.off + a.len ≤ k) → cell st' b' k = cell st b' k) := by
  obtain ⟨st', h, w⟩ := kVV_spec st a b f hne hcap hA.has hB.has
  exact ⟨st', h, w.sem2 hA.has hB.has⟩

/-- scalar-vector: `b[i] = f a0 b[i]` — the scalar is the LEFT argument. -/
theorem kSV_sem (st : St) (a0 : Val) (b : Win) (f : BinF) (hB : InBuf st b.buf b.off b.len) :
    ∃ st', kSV st a0 b f = .ok st' ∧ st'.mheap = st.mheap ∧
      (∀ i, i < b.len → ∃ y, cell st b.buf (b.off + i) = some y ∧ cell st' b.buf (b.off + i) = some (f a0 y)) ∧
      (∀ b' k, (b' ≠ b.buf ∨ k < b.off ∨ b.off + b.len ≤ k) → cell st' b' k = cell st b' k) := by
  obtain ⟨st', h, w⟩ := kSV_spec st a0 b f hB.has
  exact ⟨st', h, Writes.sem1 (F := fun y => f a0 y) w hB.has⟩

/-- vector-scalar: `a[i] = f a[i] b0` — the scalar is the RIGHT argument. -/
theorem kVS_sem (st : St) (a : Win) (b0 : Val) (f : BinF) (hA : InBuf st a.buf a.off a.len) :
    ∃ st', kVS st a b0 f = .ok st' ∧ st'.mheap = st.mheap ∧
      (∀ i, i < a.len → ∃ x, cell st a.buf (a.off + i) = some x ∧ cell st' a.buf (a.off + i) = some (f x b0)) ∧
      (∀ b' k, (b' ≠ a.buf ∨ k < a.off ∨ a.off + a.len ≤ k) → cell st' b' k = cell st b' k) := by
  obtain ⟨st', h, w⟩ := kVS_spec st a b0 f hA.has
  exact ⟨st', h, Writes.sem1 (F := fun x => f x b0) w hA.has⟩

/-- receiver kernel: `recv[i] = f a[i] b[i]`; the receiver lives in a third buffer, so the operands
    are unchanged (frame: every cell outside the receiver window keeps its value). -/
theorem kRecvVV_sem (st : St) (a b recv : Win) (f : BinF) (hna : a.buf ≠ recv.buf) (hnb : b.buf ≠ recv.buf)
    (hca : recv.len ≤ a.cap) (hcb : recv.len ≤ b.cap)
    (hA : InBuf st a.buf a.off recv.len) (hB : InBuf st b.buf b.off recv.len)
    (hR : InBuf st recv.buf recv.off recv.len) :
    ∃ st', kRecvVV st a b recv f = .ok st' ∧ st'.mheap = st.mheap ∧
      (∀ i, i < recv.len → ∃ x y, cell st a.buf (a.off + i) = some x ∧ cell st b.buf (b.off + i) = some y ∧
        cell st' recv.buf (recv.off + i) = some (f x y)) ∧
      (∀ b' k, (b' ≠ recv.buf ∨ k < recv.off ∨ recv.off + recv.len ≤ k) → cell st' b' k = cell st b' k) := by
  obtain ⟨st', h, w⟩ := kRecvVV_spec st a b recv f hna hnb hca hcb hA.has hB.has hR.has
  exact ⟨st', h, w.sem2 hA.has hB.has⟩

/-- `recv[i] = f a0 b[i]` (scalar LEFT). -/
theorem kRecvSV_sem (st : St) (a0 : Val) (b recv : Win) (f : BinF) (hnb : b.buf ≠ recv.buf)
    (hlen : recv.len ≤ b.len) (hB : InBuf st b.buf b.off recv.len) (hR : InBuf st recv.buf recv.off recv.len) :
    ∃ st', kRecvSV st a0 b recv f = .ok st' ∧ st'.mheap = st.mheap ∧
      (∀ i, i < recv.len → ∃ y, cell st b.buf (b.off + i) = some y ∧
        cell st' recv.buf (recv.off + i) = some (f a0 y)) ∧
      (∀ b' k, (b' ≠ recv.buf ∨ k < recv.off ∨ recv.off + recv.len ≤ k) → cell st' b' k = cell st b' k) := by
  obtain ⟨st', h, w⟩ := kRecvSV_spec st a0 b recv f hnb hlen hB.has hR.has
  exact ⟨st', h, Writes.sem1 (F := fun y => f a0 y) w hB.has⟩

/-- `recv[i] = f a[i] b0` (scalar RIGHT). -/
theorem kRecvVS_sem (st : St) (a : Win) (b0 : Val) (recv : Win) (f : BinF) (hna : a.buf ≠ recv.buf)
    (hlen : recv.len ≤ a.len) (hA : InBuf st a.buf a.off recv.len) (hR : InBuf st recv.buf recv.off recv.len) :
    ∃ st', kRecvVS st a b0 recv f = .ok st' ∧ st'.mheap = st.mheap ∧
      (∀ i, i < recv.len → ∃ x, cell st a.buf (a.off + i) = some x ∧
        cell st' recv.buf (recv.off + i) = some (f x b0)) ∧
      (∀ b' k, (b' ≠ recv.buf ∨ k < recv.off ∨ recv.off + recv.len ≤ k) → cell st' b' k = cell st b' k) := by
  obtain ⟨st', h, w⟩ := kRecvVS_spec st a b0 recv f hna hlen hA.has hR.has
  exact ⟨st', h, Writes.sem1 (F := fun x => f x b0) w hA.has⟩

/-- `incr[i] = acc incr[i] (f a[i] b[i])`; only the `incr` window is written. -/
theorem kIncrVV_sem (st : St) (a b incr : Win) (f acc : BinF) (hna : a.buf ≠ incr.buf) (hnb : b.buf ≠ incr.buf)
    (hcb : a.len ≤ b.cap) (hci : a.len ≤ incr.cap)
    (hA : InBuf st a.buf a.off a.len) (hB : InBuf st b.buf b.off a.len) (hI : InBuf st incr.buf incr.off a.len) :
    ∃ st', kIncrVV st a b incr f acc = .ok st' ∧ st'.mheap = st.mheap ∧
      (∀ i, i < a.len → ∃ r x y, cell st incr.buf (incr.off + i) = some r ∧ cell st a.buf (a.off + i) = some x ∧
        cell st b.buf (b.off + i) = some y ∧ cell st' incr.buf (incr.off + i) = some (acc r (f x y))) ∧
      (∀ b' k, (b' ≠ incr.buf ∨ k < incr.off ∨ incr.off + a.len ≤ k) → cell st' b' k = cell st b' k) := by
  obtain ⟨st', h, w⟩ := kIncrVV_spec st a b incr f acc hna hnb hcb hci hA.has hB.has hI.has
  exact ⟨st', h, Writes.sem3 (F := fun r x y => acc r (f x y)) w hI.has hA.has hB.has⟩

/-- `incr[i] = acc incr[i] (f a0 b[i])` (scalar LEFT). -/
theorem kIncrSV_sem (st : St) (a0 : Val) (b incr : Win) (f acc : BinF) (hnb : b.buf ≠ incr.buf)
    (hlen : incr.len ≤ b.len) (hB : InBuf st b.buf b.off incr.len) (hI : InBuf st incr.buf incr.off incr.len) :
    ∃ st', kIncrSV st a0 b incr f acc = .ok st' ∧ st'.mheap = st.mheap ∧
      (∀ i, i < incr.len → ∃ r y, cell st incr.buf (incr.off + i) = some r ∧ cell st b.buf (b.off + i) = some y ∧
        cell st' incr.buf (incr.off + i) = some (acc r (f a0 y))) ∧
      (∀ b' k, (b' ≠ incr.buf ∨ k < incr.off ∨ incr.off + incr.len ≤ k) → cell st' b' k = cell st b' k) := by
  obtain ⟨st', h, w⟩ := kIncrSV_spec st a0 b incr f acc hnb hlen hB.has hI.has
  exact ⟨st', h, Writes.sem2 (F := fun r y => acc r (f a0 y)) w hI.has hB.has⟩

/-- `incr[i] = acc incr[i] (f a[i] b0)` (scalar RIGHT). -/
theorem kIncrVS_sem (st : St) (a : Win) (b0 : Val) (incr : Win) (f acc : BinF) (hna : a.buf ≠ incr.buf)
    (hlen : incr.len ≤ a.len) (hA : InBuf st a.buf a.off incr.len) (hI : InBuf st incr.buf incr.off incr.len) :
    ∃ st', kIncrVS st a b0 incr f acc = .ok st' ∧ st'.mheap = st.mheap ∧
      (∀ i, i < incr.len → ∃ r x, cell st incr.buf (incr.off + i) = some r ∧ cell st a.buf (a.off + i) = some x ∧
        cell st' incr.buf (incr.off + i) = some (acc r (f x b0))) ∧
      (∀ b' k, (b' ≠ incr.buf ∨ k < incr.off ∨ incr.off + incr.len ≤ k) → cell st' b' k = cell st b' k) := by
  obtain ⟨st', h, w⟩ := kIncrVS_spec st a b0 incr f acc hna hlen hA.has hI.has
  exact ⟨st', h, Writes.sem2 (F := fun r x => acc r (f x b0)) w hI.has hA.has⟩

/-- unary kernel: `a[i] = g a[i]`. -/
theorem kUn_sem (st : St) (a : Win) (g : UnF) (hA : InBuf st a.buf a.off a.len) :
    ∃ st', kUn st a g = .ok st' ∧ st'.mheap = st.mheap ∧
      (∀ i, i < a.len → ∃ x, cell st a.buf (a.off + i) = some x ∧ cell st' a.buf (a.off + i) = some (g x)) ∧
      (∀ b' k, (b' ≠ a.buf ∨ k < a.off ∨ a.off + a.len ≤ k) → cell st' b' k = cell st b' k) := by
  obtain ⟨st', h, w⟩ := kUn_spec st a g hA.has
  exact ⟨st', h, w.sem1 hA.has⟩

/-! ## 2. iterator kernels -/

/-- Two-iterator kernel with validity flags. Position `k` of the lock-step walk (`k` below both stream
    lengths) combines `a[ia[k]]` with `b[ib[k]]` and stores the result at `a[ia[k]]` when both flags are
    set; when either flag is clear the position is skipped (its cell is unchanged); every cell that no
    active position addresses is unchanged. -/
theorem kIterVV_sem (st : St) (a b : Win) (f : BinF) (ia ib : ItS) (hne : a.buf ≠ b.buf)
    (hra : InRange ia a.len) (hrb : InRange ib b.len) (hnd : (ia.map (·.1)).Nodup)
    (hA : InBuf st a.buf a.off a.len) (hB : InBuf st b.buf b.off b.len) :
    ∃ st', kIterVV st a b f ia ib = .ok st' ∧ st'.mheap = st.mheap ∧
      (∀ (k : Nat) i vi j vj, ia[k]? = some (i, vi) → ib[k]? = some (j, vj) →
        (vi = true ∧ vj = true →
          ∃ x y, cell st a.buf (a.off + i.toNat) = some x ∧ cell st b.buf (b.off + j.toNat) = some y ∧
            cell st' a.buf (a.off + i.toNat) = some (f x y)) ∧
        (¬(vi = true ∧ vj = true) → cell st' a.buf (a.off + i.toNat) = cell st a.buf (a.off + i.toNat))) ∧
      (∀ b' k', (b' ≠ a.buf ∨ ∀ (k : Nat) i vi j vj, ia[k]? = some (i, vi) → ib[k]? = some (j, vj) →
          vi = true → vj = true → k' ≠ a.off + i.toNat) → cell st' b' k' = cell st b' k') := by
  obtain ⟨st', h, hm, _, hv, hfr⟩ := kIterVV_spec st a b f ia ib hne hra hrb hnd hA.has hB.has
  refine ⟨st', h, hm, ?_, hfr⟩
  intro k i vi j vj h1 h2
  have hi := hra _ (List.mem_of_getElem? h1)
  have hj := hrb _ (List.mem_of_getElem? h2)
  constructor
  · intro hact
    exact ⟨_, _, cell_some_cellD (hA.has.at hi.1 hi.2), cell_some_cellD (hB.has.at hj.1 hj.2),
      hv k i vi j vj h1 h2 hact.1 hact.2⟩
  · intro hoff
    apply hfr
    refine Or.inr ?_
    intro k2 i2 vi2 j2 vj2 g1 g2 a1 a2 he
    have hk := nodup_pos_unique hnd hra h1 g1 a.off he
    subst hk
    rw [h1] at g1; rw [h2] at g2
    cases g1; cases g2
    exact hoff ⟨a1, a2⟩

/-- Validity-all-true streams (unmasked tensors): for every `k < min oa.length ob.length` the cell at
    offset `oa[k]` becomes `f (old a[oa[k]]) (old b[ob[k]])`; all other cells are unchanged. -/
theorem kIterVV_alltrue (st : St) (a b : Win) (f : BinF) (oa ob : List Int) (hne : a.buf ≠ b.buf)
    (hra : ∀ i ∈ oa, 0 ≤ i ∧ i < (a.len : Int)) (hrb : ∀ j ∈ ob, 0 ≤ j ∧ j < (b.len : Int)) (hnd : oa.Nodup)
    (hA : InBuf st a.buf a.off a.len) (hB : InBuf st b.buf b.off b.len) :
    ∃ st', kIterVV st a b f (oa.map (·, true)) (ob.map (·, true)) = .ok st' ∧ st'.mheap = st.mheap ∧
      (∀ (k : Nat) i j, oa[k]? = some i → ob[k]? = some j →
        ∃ x y, cell st a.buf (a.off + i.toNat) = some x ∧ cell st b.buf (b.off + j.toNat) = some y ∧
          cell st' a.buf (a.off + i.toNat) = some (f x y)) ∧
      (∀ b' k', (b' ≠ a.buf ∨ ∀ (k : Nat) i j, oa[k]? = some i → ob[k]? = some j → k' ≠ a.off + i.toNat) →
        cell st' b' k' = cell st b' k') := by
  obtain ⟨st', h, hm, hv, hfr⟩ := kIterVV_sem st a b f _ _ hne (inRange_map_true hra) (inRange_map_true hrb)
    (by rw [map_true_fst]; exact hnd) hA hB
  refine ⟨st', h, hm, ?_, ?_⟩
  · intro k i j h1 h2
    exact (hv k i true j true (getElem?_map_true h1) (getElem?_map_true h2)).1 ⟨rfl, rfl⟩
  · intro b' k' hbk
    apply hfr
    rcases hbk with hb | hk
    · exact Or.inl hb
    · exact Or.inr (fun k i vi j vj h1 h2 _ _ => hk k i j (of_getElem?_map_true h1) (of_getElem?_map_true h2))

/-- scalar-LEFT iterator kernel: `b[i] = f a0 b[i]` at the valid offsets, skipped where the flag is clear. -/
theorem kIterSV_sem (st : St) (a0 : Val) (b : Win) (f : BinF) (ib : ItS)
    (hr : InRange ib b.len) (hnd : (ib.map (·.1)).Nodup) (hB : InBuf st b.buf b.off b.len) :
    ∃ st', kIterSV st a0 b f ib = .ok st' ∧ st'.mheap = st.mheap ∧
      (∀ i, (i, true) ∈ ib → ∃ y, cell st b.buf (b.off + i.toNat) = some y ∧
        cell st' b.buf (b.off + i.toNat) = some (f a0 y)) ∧
      (∀ i, (i, false) ∈ ib → cell st' b.buf (b.off + i.toNat) = cell st b.buf (b.off + i.toNat)) ∧
      (∀ b' k', (b' ≠ b.buf ∨ ∀ i, (i, true) ∈ ib → k' ≠ b.off + i.toNat) → cell st' b' k' = cell st b' k') := by
  obtain ⟨st', h, hm, _, hv, hfr⟩ := kIterSV_spec st a0 b f ib hr hnd hB.has
  refine ⟨st', h, hm, ?_, ?_, hfr⟩
  · intro i hi
    have := hr _ hi
    exact ⟨_, cell_some_cellD (hB.has.at this.1 this.2), hv i hi⟩
  · intro i hi
    apply hfr
    refine Or.inr (fun i' hi' he => ?_)
    have := nodup_fst_flag hnd hi hi'
    have h1 := hr _ hi
    have h2 := hr _ hi'
    simp only at h1 h2
    omega

/-- scalar-RIGHT iterator kernel: `a[i] = f a[i] b0`. -/
theorem kIterVS_sem (st : St) (a : Win) (b0 : Val) (f : BinF) (ia : ItS)
    (hr : InRange ia a.len) (hnd : (ia.map (·.1)).Nodup) (hA : InBuf st a.buf a.off a.len) :
    ∃ st', kIterVS st a b0 f ia = .ok st' ∧ st'.mheap = st.mheap ∧
      (∀ i, (i, true) ∈ ia → ∃ x, cell st a.buf (a.off + i.toNat) = some x ∧
        cell st' a.buf (a.off + i.toNat) = some (f x b0)) ∧
      (∀ i, (i, false) ∈ ia → cell st' a.buf (a.off + i.toNat) = cell st a.buf (a.off + i.toNat)) ∧
      (∀ b' k', (b' ≠ a.buf ∨ ∀ i, (i, true) ∈ ia → k' ≠ a.off + i.toNat) → cell st' b' k' = cell st b' k') := by
  obtain ⟨st', h, hm, _, hv, hfr⟩ := kIterVS_spec st a b0 f ia hr hnd hA.has
  refine ⟨st', h, hm, ?_, ?_, hfr⟩
  · intro i hi
    have := hr _ hi
    exact ⟨_, cell_some_cellD (hA.has.at this.1 this.2), hv i hi⟩
  · intro i hi
    apply hfr
    refine Or.inr (fun i' hi' he => ?_)
    have := nodup_fst_flag hnd hi hi'
    have h1 := hr _ hi
    have h2 := hr _ hi'
    simp only at h1 h2
    omega

/-- Three-iterator kernel (destination `d` in a buffer different from both operand buffers):
    `d[ik[k]] = g d[ik[k]] (f a[ia[k]] b[ib[k]])` where all three flags are set; operands unchanged. -/
theorem kIter3VV_sem (st : St) (a b d : Win) (f g : BinF) (ia ib ik : ItS)
    (hna : a.buf ≠ d.buf) (hnb : b.buf ≠ d.buf)
    (hra : InRange ia a.len) (hrb : InRange ib b.len) (hrk : InRange ik d.len) (hnd : (ik.map (·.1)).Nodup)
    (hA : InBuf st a.buf a.off a.len) (hB : InBuf st b.buf b.off b.len) (hD : InBuf st d.buf d.off d.len) :
    ∃ st', kIter3VV st a b d f g ia ib ik = .ok st' ∧ st'.mheap = st.mheap ∧
      (∀ (k : Nat) i vi j vj m vm, ia[k]? = some (i, vi) → ib[k]? = some (j, vj) → ik[k]? = some (m, vm) →
        (vi = true ∧ vj = true ∧ vm = true →
          ∃ r x y, cell st d.buf (d.off + m.toNat) = some r ∧ cell st a.buf (a.off + i.toNat) = some x ∧
            cell st b.buf (b.off + j.toNat) = some y ∧ cell st' d.buf (d.off + m.toNat) = some (g r (f x y))) ∧
        (¬(vi = true ∧ vj = true ∧ vm = true) →
          cell st' d.buf (d.off + m.toNat) = cell st d.buf (d.off + m.toNat))) ∧
      (∀ b' k', (b' ≠ d.buf ∨ ∀ (k : Nat) i vi j vj m vm, ia[k]? = some (i, vi) → ib[k]? = some (j, vj) →
          ik[k]? = some (m, vm) → vi = true → vj = true → vm = true → k' ≠ d.off + m.toNat) →
        cell st' b' k' = cell st b' k') := by
  obtain ⟨st', h, hm, _, hv, hfr⟩ := kIter3VV_spec st a b d f g ia ib ik hna hnb hra hrb hrk hnd
    hA.has hB.has hD.has
  refine ⟨st', h, hm, ?_, hfr⟩
  intro k i vi j vj m vm h1 h2 h3
  have hi := hra _ (List.mem_of_getElem? h1)
  have hj := hrb _ (List.mem_of_getElem? h2)
  have hk := hrk _ (List.mem_of_getElem? h3)
  constructor
  · intro hact
    exact ⟨_, _, _, cell_some_cellD (hD.has.at hk.1 hk.2), cell_some_cellD (hA.has.at hi.1 hi.2),
      cell_some_cellD (hB.has.at hj.1 hj.2), hv k i vi j vj m vm h1 h2 h3 hact.1 hact.2.1 hact.2.2⟩
  · intro hoff
    apply hfr
    refine Or.inr ?_
    intro k2 i2 vi2 j2 vj2 m2 vm2 g1 g2 g3 a1 a2 a3 he
    have hkk := nodup_pos_unique hnd hrk h3 g3 d.off he
    subst hkk
    rw [h1] at g1; rw [h2] at g2; rw [h3] at g3
    cases g1; cases g2; cases g3
    exact hoff ⟨a1, a2, a3⟩

/-- unary iterator kernel: `a[i] = g a[i]` at the valid offsets. -/
theorem kUnIter_sem (st : St) (a : Win) (g : UnF) (ia : ItS)
    (hr : InRange ia a.len) (hnd : (ia.map (·.1)).Nodup) (hA : InBuf st a.buf a.off a.len) :
    ∃ st', kUnIter st a g ia = .ok st' ∧ st'.mheap = st.mheap ∧
      (∀ i, (i, true) ∈ ia → ∃ x, cell st a.buf (a.off + i.toNat) = some x ∧
        cell st' a.buf (a.off + i.toNat) = some (g x)) ∧
      (∀ i, (i, false) ∈ ia → cell st' a.buf (a.off + i.toNat) = cell st a.buf (a.off + i.toNat)) ∧
      (∀ b' k', (b' ≠ a.buf ∨ ∀ i, (i, true) ∈ ia → k' ≠ a.off + i.toNat) → cell st' b' k' = cell st b' k') := by
  obtain ⟨st', h, hm, _, hv, hfr⟩ := kUnIter_spec st a g ia hr hnd hA.has
  refine ⟨st', h, hm, ?_, ?_, hfr⟩
  · intro i hi
    have := hr _ hi
    exact ⟨_, cell_some_cellD (hA.has.at this.1 this.2), hv i hi⟩
  · intro i hi
    apply hfr
    refine Or.inr (fun i' hi' he => ?_)
    have := nodup_fst_flag hnd hi hi'
    have h1 := hr _ hi
    have h2 := hr _ hi'
    simp only at h1 h2
    omega

/-! ## 3. dispatch on raw length == 1 -/

/-- `E.Op` chooses SV / VS / VV by `len == 1`, exactly. -/
theorem eOp_dispatch (st : St) (a b : Win) (f fv : BinF) :
    eOp st a b f fv =
      if a.len = 1 ∧ b.len ≠ 1 then (do kSV st (← st.rd a 1 0) b f)
      else if a.len ≠ 1 ∧ b.len = 1 then (do kVS st a (← st.rd b 1 0) f)
      else kVV st a b fv := by
  by_cases ha : a.len = 1 <;> by_cases hb : b.len = 1
  · simp only [ha, hb, ne_eq, not_true_eq_false, and_false, false_and, if_false]
    exact eOp_VV st a b f fv (by simp [ha, hb])
  · simp only [ha, hb, ne_eq, not_false_eq_true, and_self, if_true]
    exact eOp_SV st a b f fv ha hb
  · simp only [ha, hb, ne_eq, not_false_eq_true, not_true_eq_false, and_self, and_false, if_false, if_true,
      false_and]
    exact eOp_VS st a b f fv ha hb
  · simp only [ha, hb, ne_eq, not_false_eq_true, and_true, and_false, false_and, if_false]
    exact eOp_VV st a b f fv (by simp [ha, hb])

/-- first operand of length one, second not: the scalar is the LEFT argument of `f`. -/
theorem eOp_scalar_left (st : St) (a b : Win) (f fv : BinF) (a0 : Val) (h : a.len = 1 ∧ b.len ≠ 1)
    (h0 : cell st a.buf a.off = some a0) : eOp st a b f fv = kSV st a0 b f :=
  TM.eOp_scalar_left st a b f fv a0 h.1 h.2 h0

/-- second operand of length one, first not: the scalar is the RIGHT argument of `f`. -/
theorem eOp_scalar_right (st : St) (a b : Win) (f fv : BinF) (b0 : Val) (h : b.len = 1 ∧ a.len ≠ 1)
    (h0 : cell st b.buf b.off = some b0) : eOp st a b f fv = kVS st a b0 f :=
  TM.eOp_scalar_right st a b f fv b0 h.2 h.1 h0

/-- `E.OpIter`: both scalars → the contiguous VV kernel; one scalar → SV / VS iterator kernel. -/
theorem eOpIter_dispatch (st : St) (a b : Win) (f fv : BinF) (ia ib : ItS) :
    eOpIter st a b f ia ib fv =
      if a.len = 1 ∧ b.len = 1 then kVV st a b fv
      else if a.len = 1 then (do kIterSV st (← st.rd a 1 0) b f ib)
      else if b.len = 1 then (do kIterVS st a (← st.rd b 1 0) f ia)
      else kIterVV st a b f ia ib := by
  by_cases ha : a.len = 1 <;> by_cases hb : b.len = 1
  · simp only [ha, hb, and_self, if_true]
    exact eOpIter_SS st a b f fv ia ib ha hb
  · simp only [ha, hb, and_false, if_false, if_true]
    exact eOpIter_SV st a b f fv ia ib ha hb
  · simp only [ha, hb, false_and, if_false, if_true]
    exact eOpIter_VS st a b f fv ia ib ha hb
  · simp only [ha, hb, and_self, if_false]
    exact eOpIter_VV st a b f fv ia ib ha hb

theorem eOpIter_scalar_left (st : St) (a b : Win) (f fv : BinF) (ia ib : ItS) (a0 : Val)
    (h : a.len = 1 ∧ b.len ≠ 1) (h0 : cell st a.buf a.off = some a0) :
    eOpIter st a b f ia ib fv = kIterSV st a0 b f ib :=
  TM.eOpIter_scalar_left st a b f fv ia ib a0 h.1 h.2 h0

theorem eOpIter_scalar_right (st : St) (a b : Win) (f fv : BinF) (ia ib : ItS) (b0 : Val)
    (h : b.len = 1 ∧ a.len ≠ 1) (h0 : cell st b.buf b.off = some b0) :
    eOpIter st a b f ia ib fv = kIterVS st a b0 f ia :=
  TM.eOpIter_scalar_right st a b f fv ia ib b0 h.2 h.1 h0

/-- `E.Cmp` (bool receiver): refusal, then SV / VS receiver kernels, else the VV loop `kCmpVV`. -/
theorem eCmp_dispatch (st : St) (a b r : Win) (f : BinF) :
    eCmp st a b r f =
      if ((a.len = 1 ∧ b.len ≠ 1) ∨ (b.len = 1 ∧ a.len ≠ 1)) ∧ r.len = 1 then throwErr "retVal is a scalar"
      else if a.len = 1 ∧ b.len ≠ 1 then (do kRecvSV st (← st.rd a 1 0) b r f)
      else if a.len ≠ 1 ∧ b.len = 1 then (do kRecvVS st a (← st.rd b 1 0) r f)
      else kCmpVV st a b r f := by
  by_cases ha : a.len = 1 <;> by_cases hb : b.len = 1
  · simp only [ha, hb, ne_eq, not_true_eq_false, and_false, or_self, false_and, if_false]
    exact eCmp_VV st a b r f (by simp [ha, hb])
  · by_cases hr : r.len = 1
    · simp only [ha, hb, hr, ne_eq, not_false_eq_true, and_self, true_or, if_true]
      exact eCmp_refuses st a b r f (Or.inl ⟨ha, hb⟩) hr
    · simp only [ha, hb, hr, ne_eq, not_false_eq_true, and_self, and_false, if_false, if_true]
      exact eCmp_SV st a b r f ha hb hr
  · by_cases hr : r.len = 1
    · simp only [ha, hb, hr, ne_eq, not_false_eq_true, and_self, or_true, if_true]
      exact eCmp_refuses st a b r f (Or.inr ⟨hb, ha⟩) hr
    · simp only [ha, hb, hr, ne_eq, not_false_eq_true, not_true_eq_false, and_self, and_false, false_and,
        if_false, if_true]
      exact eCmp_VS st a b r f ha hb hr
  · simp only [ha, hb, ne_eq, not_false_eq_true, and_true, and_false, false_and, or_self, if_false]
    exact eCmp_VV st a b r f (by simp [ha, hb])

/-- `E.Cmp` refuses a length-one receiver when exactly one operand is a scalar. -/
theorem eCmp_refuses (st : St) (a b r : Win) (f : BinF)
    (h : (a.len = 1 ∧ b.len ≠ 1) ∨ (b.len = 1 ∧ a.len ≠ 1)) (hr : r.len = 1) :
    eCmp st a b r f = .error (.err "retVal is a scalar") :=
  TM.eCmp_refuses st a b r f h hr

/-- `E.OpIncr`: all four branches. The scalar-scalar branch computes `fv a0 b0` aside (in a temporary of the Go code)
    and adds it to every cell of `incr`; the operands are not written (finding F32, repaired). -/
theorem eOpIncr_dispatch (st : St) (a b incr : Win) (f fv : BinF) :
    eOpIncr st a b incr f fv =
      if ((a.len = 1 ∧ b.len ≠ 1) ∨ (b.len = 1 ∧ a.len ≠ 1)) ∧ incr.len = 1 then
        .error (.err "Cannot increment on scalar increment")
      else if a.len = 1 ∧ b.len = 1 then (do
        let a0 ← st.rd a 1 0
        let b0 ← st.rd b 1 0
        if incr.len ≠ 1 then kVS st incr (fv a0 b0) accAdd
        else do st.wr incr 1 0 (accAdd (← st.rd incr 1 0) (fv a0 b0)))
      else if a.len = 1 then (do kIncrSV st (← st.rd a 1 0) b incr f accAdd)
      else if b.len = 1 then (do kIncrVS st a (← st.rd b 1 0) incr f accAdd)
      else kIncrVV st a b incr fv accAdd := by
  by_cases ha : a.len = 1 <;> by_cases hb : b.len = 1
  · simp only [ha, hb, and_self, if_true, ne_eq, not_true_eq_false, and_false, or_self, false_and, if_false]
    exact eOpIncr_SS st a b incr f fv ha hb
  · by_cases hi : incr.len = 1
    · simp only [ha, hb, hi, ne_eq, not_false_eq_true, and_self, not_true_eq_false, and_false, or_false, if_true]
      exact eOpIncr_refuses st a b incr f fv (Or.inl ⟨ha, hb⟩) hi
    · simp only [ha, hb, hi, and_false, if_false, if_true]
      exact eOpIncr_SV st a b incr f fv ha hb hi
  · by_cases hi : incr.len = 1
    · simp only [ha, hb, hi, ne_eq, not_false_eq_true, and_self, not_true_eq_false, and_false, false_or, if_true]
      exact eOpIncr_refuses st a b incr f fv (Or.inr ⟨hb, ha⟩) hi
    · simp only [ha, hb, hi, and_false, false_and, if_false, if_true]
      exact eOpIncr_VS st a b incr f fv ha hb hi
  · simp only [ha, hb, and_self, if_false, false_and, or_self]
    exact eOpIncr_VV st a b incr f fv ha hb

/-- **`WithIncr` with two length-one operands** (finding F32, repaired — unguarded: no aliasing hypothesis, the operands
    may share their cell with each other or with the increment): `E.OpIncr` adds `fv a0 b0` to every cell of `incr`
    and changes no cell outside the window of `incr` — in particular it does not write its operands. -/
theorem eOpIncr_scalars (st : St) (a b incr : Win) (f fv : BinF)
    (ha : a.len = 1) (hb : b.len = 1)
    (hA : InBuf st a.buf a.off 1) (hB : InBuf st b.buf b.off 1) (hI : InBuf st incr.buf incr.off incr.len) :
    ∃ st' a0 b0, cell st a.buf a.off = some a0 ∧ cell st b.buf b.off = some b0 ∧
      eOpIncr st a b incr f fv = .ok st' ∧ st'.mheap = st.mheap ∧
      (∀ i, i < incr.len → ∃ r, cell st incr.buf (incr.off + i) = some r ∧
        cell st' incr.buf (incr.off + i) = some (.app2 "add" r (fv a0 b0))) ∧
      (∀ b' k, (b' ≠ incr.buf ∨ k < incr.off ∨ incr.off + incr.len ≤ k) → cell st' b' k = cell st b' k) := by
  obtain ⟨st', h, w⟩ := eOpIncr_SS_spec st a b incr f fv ha hb hA.has hB.has hI.has
  refine ⟨st', _, _, cell_some_cellD (by simpa using hA.has 0 (by omega)),
    cell_some_cellD (by simpa using hB.has 0 (by omega)), h, w.mheap, ?_, w.frame⟩
  intro i hi
  exact ⟨_, cell_some_cellD (hI.has i hi), w.val i hi⟩

/-- the operands keep their elements when they lie outside the increment's window -/
theorem eOpIncr_scalars_operands_kept (st : St) (a b incr : Win) (f fv : BinF)
    (ha : a.len = 1) (hb : b.len = 1) (hia : incr.buf ≠ a.buf) (hib : incr.buf ≠ b.buf)
    (hA : InBuf st a.buf a.off 1) (hB : InBuf st b.buf b.off 1) (hI : InBuf st incr.buf incr.off incr.len) :
    ∃ st', eOpIncr st a b incr f fv = .ok st' ∧ cell st' a.buf a.off = cell st a.buf a.off ∧
      cell st' b.buf b.off = cell st b.buf b.off := by
  obtain ⟨st', _, _, _, _, h, _, _, hfr⟩ := eOpIncr_scalars st a b incr f fv ha hb hA hB hI
  exact ⟨st', h, hfr _ _ (Or.inl hia.symm), hfr _ _ (Or.inl hib.symm)⟩

/-! ## 4. the engine method on the raw path (safe mode, no options) -/

/-- equal shapes are `Shape.Eq` (which in addition identifies a vanilla vector with a row/column vector) -/
theorem shapeEq_refl (s : Shape) : shapeEq s s = true := shapeEq_self s

/-- `StdEng.<Op>(a, b)` on two contiguous tensors of equal shape (`Shape.Eq`; `shapeEq_refl`) and type: a fresh clone of `a`
    (same access pattern, new buffer) holding `a[i] op b[i]` in storage order — so, the layouts being
    equal, coordinate-wise; every pre-existing buffer and the mask heap are untouched. -/
theorem engArithVV_safe_raw (st : St) (op : String) (a b : Dense)
    (hsh : shapeEq a.shape b.shape = true) (hdt : a.dt = b.dt) (hnum : a.dt ∈ numberTypes) (hk : a.dt ∈ kernelTypes op)
    (hia : a.requiresIterator = false) (hib : b.requiresIterator = false) (hord : sameOrd a b = true)
    (hm : a.mask = none) (hlen : a.win.len = b.win.len) (hcap : a.win.len ≤ b.win.cap)
    (hA : InBuf st a.win.buf a.win.off a.win.len) (hB : InBuf st b.win.buf b.win.off a.win.len) :
    ∃ out c, engArithVV st op numberTypes a b {} = .ok out ∧ out.ret = .fresh c ∧ out.reuse = none ∧
      c.ap = { a.ap with fin := true } ∧ c.dt = a.dt ∧
      c.win = ⟨st.heap.size, 0, a.win.len, a.win.len⟩ ∧
      out.st.mheap = st.mheap ∧
      (∀ i, i < a.win.len → ∃ x y, cell st a.win.buf (a.win.off + i) = some x ∧
        cell st b.win.buf (b.win.off + i) = some y ∧
        cell out.st c.win.buf i = some (vecFn op a.dt x y)) ∧
      (∀ b' k, b' < st.heap.size → cell out.st b' k = cell st b' k) := by
  have hc : BinOK numberTypes a b := ⟨by simpa using hnum, hdt, hsh⟩
  obtain ⟨st', h, hm', hv, hfr⟩ := engArithVV_safe_raw' st op numberTypes a b hc (by simpa using hk) hia hib hord
    hm hlen hcap hA hB
  refine ⟨_, _, h, rfl, rfl, rfl, rfl, rfl, hm', ?_, hfr⟩
  intro i hi
  exact ⟨_, _, cell_some_cellD (hA.has i hi), cell_some_cellD (hB.has i hi), hv i hi⟩

/-- Refusal: a non-number type, different element types or different shapes give an `error` value —
    never a panic, and no state is produced. -/
theorem engArithVV_refuses (st : St) (op : String) (a b : Dense) (o : Opts)
    (h : a.dt ∉ numberTypes ∨ a.dt ≠ b.dt ∨ ¬ shapeEq a.shape b.shape = true) :
    ∃ tag, engArithVV st op numberTypes a b o = .error (.err tag) := by
  apply engArithVV_refuses'
  rcases h with h | h | h
  · exact Or.inl (by simpa using h)
  · exact Or.inr (Or.inl h)
  · exact Or.inr (Or.inr (by simpa using h))

/-! ## 4b. tensor and scalar, at engine level (`StdEng.<Op>Scalar`) -/

/-- **Tensor on the left, scalar on the right, raw path, safe mode**: a fresh clone of the tensor whose cell `i` is
    `op t[i] s`; the tensor, the scalar and every pre-existing buffer are untouched. -/
theorem engArithScalar_safe_raw_left (st : St) (op : String) (t : Dense) (sc : ScalarArg)
    (hnum : t.dt ∈ numberTypes) (hk : t.dt ∈ kernelTypes op) (hdt : t.dt = sc.dt) (hsrc : sc.src = none)
    (hit : t.requiresIterator = false) (hs1 : sc.win.len = 1) (ht1 : t.win.len ≠ 1) (hmt : t.mask = none)
    (hT : InBuf st t.win.buf t.win.off t.win.len) (hS : InBuf st sc.win.buf sc.win.off 1) :
    ∃ out c s, engArithScalar st op numberTypes t sc true {} = .ok out ∧ out.ret = .fresh c ∧
      c.ap = { t.ap with fin := true } ∧ c.win = ⟨st.heap.size, 0, t.win.len, t.win.len⟩ ∧
      cell st sc.win.buf sc.win.off = some s ∧ out.st.mheap = st.mheap ∧
      (∀ i, i < t.win.len → ∃ x, cell st t.win.buf (t.win.off + i) = some x ∧
        cell out.st c.win.buf i = some (.app2 op x s)) ∧
      (∀ b' k, b' < st.heap.size → cell out.st b' k = cell st b' k) := by
  obtain ⟨st', h, hm, hv, hfr⟩ := engArithScalar_safe_raw_left' st op numberTypes t sc (by simpa using hnum)
    (by simpa using hk) hdt hsrc hit hs1 ht1 hmt hT hS
  refine ⟨_, _, _, h, rfl, rfl, rfl, cell_some_cellD (by simpa using hS.has 0 (by omega)), hm, ?_, hfr⟩
  intro i hi
  exact ⟨_, cell_some_cellD (hT.has i hi), hv i hi⟩

/-- **Scalar on the left, tensor on the right, raw path, safe mode**: a fresh clone whose cell `i` is the vector kernel's
    function of `s` and `t[i]` **in that order** (`Sub(s, t)[i] = s - t[i]`): the clone is filled with the scalar and
    the vector-vector kernel runs on it with the tensor as second operand. (`vecFn op` is `op` itself except for float
    division, which goes through `vecf64.Div` - recorded finding F30.) -/
theorem engArithScalar_safe_raw_right (st : St) (op : String) (t : Dense) (sc : ScalarArg)
    (hnum : t.dt ∈ numberTypes) (hk : t.dt ∈ kernelTypes op) (hdt : t.dt = sc.dt) (hsrc : sc.src = none)
    (hit : t.requiresIterator = false) (hmt : t.mask = none) (hcap : t.win.len ≤ t.win.cap)
    (hT : InBuf st t.win.buf t.win.off t.win.len) (hS : InBuf st sc.win.buf sc.win.off 1) :
    ∃ out c s, engArithScalar st op numberTypes t sc false {} = .ok out ∧ out.ret = .fresh c ∧
      c.ap = { t.ap with fin := true } ∧ c.win = ⟨st.heap.size, 0, t.win.len, t.win.len⟩ ∧
      cell st sc.win.buf sc.win.off = some s ∧ out.st.mheap = st.mheap ∧
      (∀ i, i < t.win.len → ∃ x, cell st t.win.buf (t.win.off + i) = some x ∧
        cell out.st c.win.buf i = some (vecFn op t.dt s x)) ∧
      (∀ b' k, b' < st.heap.size → cell out.st b' k = cell st b' k) := by
  obtain ⟨st', h, hm, hv, hfr⟩ := engArithScalar_safe_raw_right' st op numberTypes t sc (by simpa using hnum)
    (by simpa using hk) hdt hsrc hit hmt hcap hT hS
  refine ⟨_, _, _, h, rfl, rfl, rfl, cell_some_cellD (by simpa using hS.has 0 (by omega)), hm, ?_, hfr⟩
  intro i hi
  exact ⟨_, cell_some_cellD (hT.has i hi), hv i hi⟩

/-- **Layout-blind and in operand order: a tensor that needs an iterator and a scalar on either side, safe mode.** The
    result is a clone of the tensor in which every logical element - every cell the tensor's iterator addresses - is
    `op t s` when the tensor is the left operand and `op s t` when the scalar is; the gaps of a view keep their value;
    the tensor, the scalar and every other pre-existing buffer are untouched. -/
theorem engArithScalar_safe_iter (st : St) (op : String) (t : Dense) (sc : ScalarArg) (left : Bool)
    (hnum : t.dt ∈ numberTypes) (hk : t.dt ∈ kernelTypes op) (hdt : t.dt = sc.dt) (hsrc : sc.src = none)
    (hit : t.requiresIterator = true) (hnsc : isScalar t.shape = false) (hs1 : sc.win.len = 1) (hmt : t.mask = none)
    (hot : ∀ j ∈ t.offsets, 0 ≤ j ∧ j < (t.win.len : Int)) (hnd : t.offsets.Nodup)
    (hT : InBuf st t.win.buf t.win.off t.win.len) (hS : InBuf st sc.win.buf sc.win.off 1) :
    ∃ out c s, engArithScalar st op numberTypes t sc left {} = .ok out ∧ out.ret = .fresh c ∧
      c.ap = { t.ap with fin := true } ∧ c.win = ⟨st.heap.size, 0, t.win.len, t.win.len⟩ ∧ c.offsets = t.offsets ∧
      cell st sc.win.buf sc.win.off = some s ∧ out.st.mheap = st.mheap ∧
      (∀ i ∈ t.offsets, ∃ x, cell st t.win.buf (t.win.off + i.toNat) = some x ∧
        cell out.st c.win.buf i.toNat = some (if left then .app2 op x s else .app2 op s x)) ∧
      (∀ m, m < t.win.len → (∀ i ∈ t.offsets, m ≠ i.toNat) →
        cell out.st c.win.buf m = cell st t.win.buf (t.win.off + m)) ∧
      (∀ b' k, b' < st.heap.size → cell out.st b' k = cell st b' k) := by
  obtain ⟨st', h, hm, hv, hrest, hfr⟩ := engArithScalar_safe_iter' st op numberTypes t sc left (by simpa using hnum)
    (by simpa using hk) hdt hsrc hit hnsc hs1 hmt hot hnd hT hS
  refine ⟨_, _, _, h, rfl, rfl, rfl, rfl, cell_some_cellD (by simpa using hS.has 0 (by omega)), hm, ?_, ?_, hfr⟩
  · intro i hi
    have h1 := hot i hi
    exact ⟨_, cell_some_cellD (hT.has.at h1.1 h1.2), hv i hi⟩
  · intro m hm1 hne
    show cell st' st.heap.size m = _
    rw [hrest m hm1 hne, cell_some_cellD (hT.has m hm1)]

/-! ## 5. iterator path and the link with C05 -/

/-- Safe mode when `a` needs an iterator (view, pending transpose, …): the result is a clone of `a`'s
    storage, updated at `a.offsets[k]` with `a[a.offsets[k]] op b[b.offsets[k]]`, `k` running over the
    common length of the two iterators; cells of the clone that the iterator does not visit keep `a`'s
    value; pre-existing buffers are untouched. -/
theorem engArithVV_safe_iter (st : St) (op : String) (a b : Dense)
    (hsh : shapeEq a.shape b.shape = true) (hdt : a.dt = b.dt) (hnum : a.dt ∈ numberTypes) (hk : a.dt ∈ kernelTypes op)
    (hia : a.requiresIterator = true) (hma : a.mask = none) (hmb : b.mask = none) (hlb : b.win.len ≠ 1)
    (hoa : ∀ i ∈ a.offsets, 0 ≤ i ∧ i < (a.win.len : Int)) (hob : ∀ j ∈ b.offsets, 0 ≤ j ∧ j < (b.win.len : Int))
    (hnd : a.offsets.Nodup)
    (hA : InBuf st a.win.buf a.win.off a.win.len) (hB : InBuf st b.win.buf b.win.off b.win.len) :
    ∃ out c, engArithVV st op numberTypes a b {} = .ok out ∧ out.ret = .fresh c ∧
      c.ap = { a.ap with fin := true } ∧ c.win = ⟨st.heap.size, 0, a.win.len, a.win.len⟩ ∧
      out.st.mheap = st.mheap ∧
      (∀ (k : Nat) i j, a.offsets[k]? = some i → b.offsets[k]? = some j →
        ∃ x y, cell st a.win.buf (a.win.off + i.toNat) = some x ∧ cell st b.win.buf (b.win.off + j.toNat) = some y ∧
          cell out.st c.win.buf i.toNat = some (.app2 op x y)) ∧
      (∀ m, m < a.win.len → (∀ (k : Nat) i j, a.offsets[k]? = some i → b.offsets[k]? = some j → m ≠ i.toNat) →
        cell out.st c.win.buf m = cell st a.win.buf (a.win.off + m)) ∧
      (∀ b' k, b' < st.heap.size → cell out.st b' k = cell st b' k) := by
  have hc : BinOK numberTypes a b := ⟨by simpa using hnum, hdt, hsh⟩
  obtain ⟨st', h, hm', hv, hrest, hfr⟩ := engArithVV_safe_iter' st op numberTypes a b hc (by simpa using hk) hia
    hma hmb hlb hoa hob hnd hA hB
  refine ⟨_, _, h, rfl, rfl, rfl, hm', ?_, ?_, hfr⟩
  · intro k i j hi hj
    have h1 := hoa i (List.mem_of_getElem? hi)
    have h2 := hob j (List.mem_of_getElem? hj)
    exact ⟨_, _, cell_some_cellD (hA.has.at h1.1 h1.2), cell_some_cellD (hB.has.at h2.1 h2.2), hv k i j hi hj⟩
  · intro m hm hne
    show cell st' st.heap.size m = _
    rw [hrest m hm hne, cell_some_cellD (hA.has m hm)]

/-- The iterator of a well-formed access pattern yields the row-major logical offsets
    (`TM.C05.ndNext_run`, `single_run`, `scalar_run` combined). -/
theorem offsets_are_rowmajor (ap : AP) (hl : ap.strides.length = ap.shape.length) (hp : ∀ d ∈ ap.shape, 0 < d) :
    FlatIt.offsets ap = (allCoords ap.shape).map (fun c => dot c ap.strides) :=
  offsets_rowmajor ap hl hp

/-- **C06 ∘ C05: coordinate-wise and layout-blind.** Driving the two-iterator kernel with the
    iterators of two well-formed access patterns of the same shape (any strides: transposed, sliced,
    column-major, …) combines, for every logical coordinate `c`, the element of `a` at `c` with the
    element of `b` at `c`, in operand order, and stores it in `a`'s cell for `c`; no other cell changes. -/
theorem kIterVV_coordinatewise (st : St) (a b : Win) (f : BinF) (pa pb : AP) (hsh : pa.shape = pb.shape)
    (hla : pa.strides.length = pa.shape.length) (hlb : pb.strides.length = pb.shape.length)
    (hp : ∀ d ∈ pa.shape, 0 < d) (hne : a.buf ≠ b.buf)
    (hoa : ∀ i ∈ FlatIt.offsets pa, 0 ≤ i ∧ i < (a.len : Int))
    (hob : ∀ j ∈ FlatIt.offsets pb, 0 ≤ j ∧ j < (b.len : Int))
    (hnd : (FlatIt.offsets pa).Nodup)
    (hA : InBuf st a.buf a.off a.len) (hB : InBuf st b.buf b.off b.len) :
    ∃ st', kIterVV st a b f ((FlatIt.offsets pa).map (·, true)) ((FlatIt.offsets pb).map (·, true)) = .ok st' ∧
      st'.mheap = st.mheap ∧
      (∀ c ∈ allCoords pa.shape, ∃ x y,
        cell st a.buf (a.off + (dot c pa.strides).toNat) = some x ∧
        cell st b.buf (b.off + (dot c pb.strides).toNat) = some y ∧
        cell st' a.buf (a.off + (dot c pa.strides).toNat) = some (f x y)) ∧
      (∀ b' k', (b' ≠ a.buf ∨ ∀ c ∈ allCoords pa.shape, k' ≠ a.off + (dot c pa.strides).toNat) →
        cell st' b' k' = cell st b' k') := by
  obtain ⟨st', h, hm, hv, hfr⟩ := kIterVV_coordwise' st a b f pa pb hsh hla hlb hp hne hoa hob hnd hA.has hB.has
  refine ⟨st', h, hm, ?_, hfr⟩
  intro c hc
  have ea := offsets_rowmajor pa hla hp
  have eb := offsets_rowmajor pb hlb (hsh ▸ hp)
  have h1 := hoa (dot c pa.strides) (by rw [ea]; exact List.mem_map.mpr ⟨c, hc, rfl⟩)
  have h2 := hob (dot c pb.strides) (by rw [eb, ← hsh]; exact List.mem_map.mpr ⟨c, hc, rfl⟩)
  exact ⟨_, _, cell_some_cellD (hA.has.at h1.1 h1.2), cell_some_cellD (hB.has.at h2.1 h2.2), hv c hc⟩

/-- **Coordinate-wise and layout-blind, end to end** (safe mode, the first operand needs an iterator): for well-formed
    operands of one shape (C13: each pattern covers its window and addresses distinct cells - any strides: transposed,
    sliced, stepped, column-major) the result is a clone of `a` in which, **for every coordinate `c`**, the cell
    addressed at `c` holds `op` of `a`'s and `b`'s elements at `c`, in operand order. -/
theorem engArithVV_safe_iter_coordinatewise (st : St) (op : String) (a b : Dense)
    (hshape : b.ap.shape = a.ap.shape) (hdt : a.dt = b.dt) (hnum : a.dt ∈ numberTypes) (hk : a.dt ∈ kernelTypes op)
    (hia : a.requiresIterator = true) (hma : a.mask = none) (hmb : b.mask = none) (hlb : b.win.len ≠ 1)
    (hca : C13.Covers a.ap (a.win.len : Int)) (hinja : InjectivePat a.ap.shape a.ap.strides)
    (hcb : C13.Covers b.ap (b.win.len : Int)) (hinjb : InjectivePat b.ap.shape b.ap.strides)
    (hA : InBuf st a.win.buf a.win.off a.win.len) (hB : InBuf st b.win.buf b.win.off b.win.len) :
    ∃ out c, engArithVV st op numberTypes a b {} = .ok out ∧ out.ret = .fresh c ∧ c.ap = { a.ap with fin := true } ∧
      (∀ co ∈ allCoords a.ap.shape, ∃ x y,
        cell st a.win.buf (a.win.off + (dot co a.ap.strides).toNat) = some x ∧
        cell st b.win.buf (b.win.off + (dot co b.ap.strides).toNat) = some y ∧
        cell out.st c.win.buf (dot co a.ap.strides).toNat = some (.app2 op x y)) ∧
      (∀ b' k, b' < st.heap.size → cell out.st b' k = cell st b' k) := by
  obtain ⟨hoa, hnd⟩ := C13.wf_offsets a a.win.len hca hinja
  obtain ⟨hob, _⟩ := C13.wf_offsets b b.win.len hcb hinjb
  have hsh : shapeEq a.shape b.shape = true := by
    have : b.shape = a.shape := hshape
    rw [this]; exact shapeEq_self _
  obtain ⟨out, c, h, hret, hap, _, _, hv, _, hfr⟩ := engArithVV_safe_iter st op a b hsh hdt hnum hk hia hma hmb hlb hoa hob hnd hA hB
  refine ⟨out, c, h, hret, hap, ?_, hfr⟩
  have hp := hca.2.2.1
  have eoa : a.offsets = (allCoords a.ap.shape).map (fun c => dot c a.ap.strides) := by
    unfold Dense.offsets; exact offsets_rowmajor a.ap hca.1 hp
  have eob : b.offsets = (allCoords a.ap.shape).map (fun c => dot c b.ap.strides) := by
    unfold Dense.offsets
    rw [offsets_rowmajor b.ap hcb.1 hcb.2.2.1, hshape]
  intro co hco
  obtain ⟨k, hk', hkc⟩ := List.getElem_of_mem hco
  have ga : a.offsets[k]? = some (dot co a.ap.strides) := by
    rw [eoa, List.getElem?_map, List.getElem?_eq_getElem hk', hkc]; rfl
  have gb : b.offsets[k]? = some (dot co b.ap.strides) := by
    rw [eob, List.getElem?_map, List.getElem?_eq_getElem hk', hkc]; rfl
  exact hv k _ _ ga gb

/-! ## 6. elementwise minimum / maximum (`MinBetween`, `MaxBetween`) -/

/-- **Safe mode**, raw path: a fresh tensor of the operand's element type, shape **and data order** (the default
    strides of that order — finding F36, repaired: the operands being stored in that same order, cell `i` of the result
    and cell `i` of the operands hold the same coordinate) whose cell `i` is `op a[i] b[i]` (`op` = `minb` / `maxb`);
    operands, every pre-existing buffer and the mask heap are untouched. No hypothesis on the operands' data order. -/
theorem engMMVV_safe (st : St) (op : String) (a b : Dense)
    (hsh : shapeEq a.shape b.shape = true) (hdt : a.dt = b.dt) (hord : a.dt ∈ ordTypes)
    (hia : a.requiresIterator = false) (hib : b.requiresIterator = false) (hso : sameOrd a b = true)
    (hlen : a.win.len = b.win.len) (hcap : a.win.len ≤ b.win.cap) (hsz : a.win.len = denseLen a.shape)
    (hA : InBuf st a.win.buf a.win.off a.win.len) (hB : InBuf st b.win.buf b.win.off a.win.len) :
    ∃ out r, engMMVV st op a b {} = .ok out ∧ out.ret = .fresh r ∧ out.reuse = none ∧
      r.dt = a.dt ∧ r.ap.shape = a.shape ∧ r.ap.strides = Dense.defaultStrides a.ap.o.col a.shape ∧
      r.ap.o.col = a.ap.o.col ∧
      r.win = ⟨st.heap.size, 0, denseLen a.shape, denseLen a.shape⟩ ∧
      out.st.mheap = st.mheap ∧
      (∀ i, i < a.win.len → ∃ x y, cell st a.win.buf (a.win.off + i) = some x ∧
        cell st b.win.buf (b.win.off + i) = some y ∧ cell out.st r.win.buf i = some (.app2 op x y)) ∧
      (∀ b' k, b' < st.heap.size → cell out.st b' k = cell st b' k) := by
  obtain ⟨st', h, hm, hv, hfr⟩ := engMMVV_safe' st op a b ⟨by simpa using hord, hdt, hsh⟩ hia hib hso
    hlen hcap hsz hA hB
  refine ⟨_, _, h, rfl, rfl, rfl, rfl, rfl, rfl, rfl, hm, ?_, hfr⟩
  intro i hi
  exact ⟨_, _, cell_some_cellD (hA.has i hi), cell_some_cellD (hB.has i hi), hv i hi⟩

/-- **Safe mode on the iterator path** (an operand is a view with gaps / carries a pending transpose, or the data orders
    differ): the fresh tensor `r` of the operand's type, shape and data order holds, at the `k`-th position of its own
    iterator, `op x y` of the operands' elements at position `k` of theirs - by coordinate, whatever the layouts;
    operands and every pre-existing buffer are untouched. -/
theorem engMMVV_safe_iter (st : St) (op : String) (a b : Dense)
    (hsh : shapeEq a.shape b.shape = true) (hdt : a.dt = b.dt) (hord : a.dt ∈ ordTypes)
    (hu : (a.requiresIterator || b.requiresIterator || !sameOrd a b) = true)
    (hma : a.mask = none) (hmb : b.mask = none) (hlb : b.win.len ≠ 1) (hl1 : denseLen a.shape ≠ 1)
    (hca : a.win.len ≤ a.win.cap)
    (hor : ∀ i ∈ (freshOf st a.dt a.shape a.ap.o.col).offsets, 0 ≤ i ∧ i < (denseLen a.shape : Int))
    (hoa : ∀ i ∈ a.offsets, 0 ≤ i ∧ i < (a.win.len : Int)) (hob : ∀ j ∈ b.offsets, 0 ≤ j ∧ j < (b.win.len : Int))
    (hnd : (freshOf st a.dt a.shape a.ap.o.col).offsets.Nodup)
    (hA : InBuf st a.win.buf a.win.off a.win.len) (hB : InBuf st b.win.buf b.win.off b.win.len) :
    ∃ out r, engMMVV st op a b {} = .ok out ∧ out.ret = .fresh r ∧ out.reuse = none ∧
      r.dt = a.dt ∧ r.ap.shape = a.shape ∧ r.ap.strides = Dense.defaultStrides a.ap.o.col a.shape ∧
      r.ap.o.col = a.ap.o.col ∧ r.win = ⟨st.heap.size, 0, denseLen a.shape, denseLen a.shape⟩ ∧
      out.st.mheap = st.mheap ∧
      (∀ (k : Nat) m i j, r.offsets[k]? = some m → a.offsets[k]? = some i → b.offsets[k]? = some j →
        ∃ x y, cell st a.win.buf (a.win.off + i.toNat) = some x ∧ cell st b.win.buf (b.win.off + j.toNat) = some y ∧
          cell out.st r.win.buf m.toNat = some (.app2 op x y)) ∧
      (∀ b' k, b' < st.heap.size → cell out.st b' k = cell st b' k) := by
  obtain ⟨st', h, hm, hv, hfr⟩ := engMMVV_safe_iter' st op a b ⟨by simpa using hord, hdt, hsh⟩ hu hma hmb hlb hl1 hca
    hor hoa hob hnd hA hB
  refine ⟨_, _, h, rfl, rfl, rfl, rfl, rfl, rfl, rfl, hm, ?_, hfr⟩
  intro k m i j hk hi hj
  have h1 := hoa i (List.mem_of_getElem? hi)
  have h2 := hob j (List.mem_of_getElem? hj)
  exact ⟨_, _, cell_some_cellD (hA.has.at h1.1 h1.2), cell_some_cellD (hB.has.at h2.1 h2.2), hv k m i j hk hi hj⟩

/-- **Scalar on the left of an operand that needs an iterator** (`MinBetween(s, t)`, `MaxBetween(s, t)`; finding F31,
    repaired: the result is walked with its own iterator, not with the operand's): the call returns a fresh tensor `r` of
    `t`'s element type, shape and data order which holds, at the `k`-th offset of its own iterator, `op t[j] s` for the
    `k`-th offset `j` of `t`'s iterator (the kernel's form `if s < t[j] { … }`); every pre-existing buffer is unchanged. -/
theorem engMMScalar_scalar_left_iter (st : St) (op : String) (t : Dense) (sc : ScalarArg)
    (hord : t.dt ∈ ordTypes) (hdt : t.dt = sc.dt) (hsrc : sc.src = none) (hit : t.requiresIterator = true) (hnsc : isScalar t.shape = false)
    (hs1 : sc.win.len = 1) (hmt : t.mask = none) (hl1 : denseLen t.shape ≠ 1) (hct : t.win.len ≤ t.win.cap)
    (hor : ∀ i ∈ (freshOf st t.dt t.shape t.ap.o.col).offsets, 0 ≤ i ∧ i < (denseLen t.shape : Int))
    (hot : ∀ j ∈ t.offsets, 0 ≤ j ∧ j < (t.win.len : Int))
    (hnd : (freshOf st t.dt t.shape t.ap.o.col).offsets.Nodup)
    (hT : InBuf st t.win.buf t.win.off t.win.len) (hS : InBuf st sc.win.buf sc.win.off 1) :
    ∃ out r s, engMMScalar st op t sc false {} = .ok out ∧ out.ret = .fresh r ∧ out.reuse = none ∧
      r.dt = t.dt ∧ r.ap.shape = t.shape ∧ r.ap.o.col = t.ap.o.col ∧ r.win.buf = st.heap.size ∧ r.win.off = 0 ∧
      cell st sc.win.buf sc.win.off = some s ∧ out.st.mheap = st.mheap ∧
      (∀ (k : Nat) m j, r.offsets[k]? = some m → t.offsets[k]? = some j →
        ∃ x, cell st t.win.buf (t.win.off + j.toNat) = some x ∧
          cell out.st r.win.buf m.toNat = some (.app2 op x s)) ∧
      (∀ b' k, b' < st.heap.size → cell out.st b' k = cell st b' k) := by
  obtain ⟨st', h, hm, hv, hfr⟩ := engMMScalar_iter_left' st op t sc (by simpa using hord) hdt hsrc hit hnsc hs1 hmt
    hl1 hct hor hot hnd hT hS
  refine ⟨_, _, _, h, rfl, rfl, rfl, rfl, rfl, rfl, rfl, cell_some_cellD (by simpa using hS.has 0 (by omega)), hm, ?_, hfr⟩
  intro k m j hk hj
  have hjr := hot j (List.mem_of_getElem? hj)
  exact ⟨_, cell_some_cellD (hT.has.at hjr.1 hjr.2), hv k m j hk hj⟩

/-! ## non-vacuity: every hypothesis set above is satisfied by a small concrete state -/
namespace Ex

def st : St := { heap := #[#[.src 0 0, .src 0 1, .src 0 2, .src 0 3], #[.src 1 0, .src 1 1, .src 1 2, .src 1 3],
                           #[.src 2 0, .src 2 1, .src 2 2, .src 2 3], #[.src 3 0], #[.src 4 0]] }
def wa : Win := ⟨0, 0, 4, 4⟩
def wb : Win := ⟨1, 0, 4, 4⟩
def wr : Win := ⟨2, 0, 4, 4⟩
def ws : Win := ⟨3, 0, 1, 1⟩
def ws' : Win := ⟨4, 0, 1, 1⟩
def f : BinF := fun x y => .app2 "f" x y
def g : UnF := fun x => .app1 "g" x
/-- contiguous 2×2 tensors -/
def ta : Dense := { ap := { shape := [2, 2], strides := [2, 1] }, win := wa, dt := "f64" }
def tb : Dense := { ap := { shape := [2, 2], strides := [2, 1] }, win := wb, dt := "f64" }
/-- a lazily transposed 2×2 tensor (needs an iterator) -/
def tT : Dense := { ap := { shape := [2, 2], strides := [1, 2] }, old := some { shape := [2, 2], strides := [2, 1] },
                    win := wa, dt := "f64" }
def ia : ItS := [(0, true), (2, false), (1, true), (3, true)]
def ib : ItS := [(0, true), (1, true), (2, true), (3, false)]

theorem inA : InBuf st 0 0 4 := ⟨_, rfl, by decide⟩
theorem inB : InBuf st 1 0 4 := ⟨_, rfl, by decide⟩
theorem inR : InBuf st 2 0 4 := ⟨_, rfl, by decide⟩
theorem inS : InBuf st 3 0 1 := ⟨_, rfl, by decide⟩
theorem inS' : InBuf st 4 0 1 := ⟨_, rfl, by decide⟩
theorem rA : InRange ia 4 := by unfold InRange ia; decide
theorem rB : InRange ib 4 := by unfold InRange ib; decide

example := kVV_sem st wa wb f (by decide) (by decide) inA inB
example := kSV_sem st (.lit "2") wb f inB
example := kVS_sem st wa (.lit "2") f inA
example := kRecvVV_sem st wa wb wr f (by decide) (by decide) (by decide) (by decide) inA inB inR
example := kRecvSV_sem st (.lit "2") wb wr f (by decide) (by decide) inB inR
example := kRecvVS_sem st wa (.lit "2") wr f (by decide) (by decide) inA inR
example := kIncrVV_sem st wa wb wr f accAdd (by decide) (by decide) (by decide) (by decide) inA inB inR
example := kIncrSV_sem st (.lit "2") wb wr f accAdd (by decide) (by decide) inB inR
example := kIncrVS_sem st wa (.lit "2") wr f accAdd (by decide) (by decide) inA inR
example := kUn_sem st wa g inA
example := kIterVV_sem st wa wb f ia ib (by decide) rA rB (by decide) inA inB
example := kIterVV_alltrue st wa wb f [0, 2, 1, 3] [0, 1, 2, 3] (by decide) (by decide) (by decide) (by decide) inA inB
example := kIterSV_sem st (.lit "2") wb f ib rB (by decide) inB
example := kIterVS_sem st wa (.lit "2") f ia rA (by decide) inA
example := kIter3VV_sem st wa wb wr f accAdd ia ib ib (by decide) (by decide) rA rB rB (by decide) inA inB inR
example := kUnIter_sem st wa g ia rA (by decide) inA
example := eOp_scalar_left st ws wb f f (.src 3 0) (by decide) rfl
example := eOp_scalar_right st wa ws f f (.src 3 0) (by decide) rfl
example := eOpIter_scalar_left st ws wb f f [] ib (.src 3 0) (by decide) rfl
example := eOpIter_scalar_right st wa ws f f ia [] (.src 3 0) (by decide) rfl
example := eCmp_refuses st ws wb ws' f (Or.inl (by decide)) rfl
example := eOpIncr_scalars st ws ws' wr f f rfl rfl inS inS' inR
example := eOpIncr_scalars_operands_kept st ws ws' wr f f rfl rfl (by decide) (by decide) inS inS' inR
/-- the increment may be the first operand itself: `a += a op b`, computed from the old `a` -/
example := eOpIncr_scalars st ws ws' ws f f rfl rfl inS inS' inS
example := engArithVV_safe_raw st "add" ta tb (by decide) rfl (by decide) (by decide) (by decide) (by decide)
  (by decide) rfl rfl (by decide) inA inB
/-- the window well-formedness hypothesis `hcap` (`len ≤ cap`) cannot be dropped: the kernel re-slices
    `b = b[:len(a)]`, which panics beyond the capacity -/
example : engArithVV st "add" numberTypes ta { tb with win := ⟨1, 0, 4, 3⟩ } {} =
    .error (.panic "slice bounds out of range") := rfl
example : ∃ tag, engArithVV st "add" numberTypes { ta with dt := "b" } tb {} = .error (.err tag) :=
  engArithVV_refuses st "add" _ tb {} (Or.inl (by decide))
example := engArithVV_safe_iter st "add" tT tb (by decide) rfl (by decide) (by decide) (by decide) rfl rfl
  (by decide) (by decide) (by decide) (by decide) inA inB
example := offsets_are_rowmajor { shape := [2, 2], strides := [1, 2] } rfl (by decide)
example := kIterVV_coordinatewise st wa wb f { shape := [2, 2], strides := [1, 2] } { shape := [2, 2], strides := [2, 1] }
  rfl rfl rfl (by decide) (by decide) (by decide) (by decide) (by decide) inA inB
/-- the iterators of the transposed and of the plain 2×2 tensor -/
example : (FlatIt.offsets tT.ap, FlatIt.offsets tb.ap) = ([0, 2, 1, 3], [0, 1, 2, 3]) := by decide
/-- a concrete run `Add(aᵀ, b)`: coordinate (0,1) is cell 2 of `aᵀ` and cell 1 of `b`; the clone
    (fresh buffer 5) holds their sum at cell 2 — coordinate-wise, not storage-wise -/
example : ∃ out, engArithVV st "add" numberTypes tT tb {} = .ok out ∧
    cell out.st 5 2 = some (.app2 "add" (.src 0 2) (.src 1 1)) := ⟨_, rfl, rfl⟩

-- elementwise minimum of two column-major operands: a column-major result, cell by cell
def tac : Dense := { ta with ap := { ta.ap with strides := calcStridesCol ta.ap.shape, o := { col := true } } }
def tbc : Dense := { tb with ap := { tb.ap with strides := calcStridesCol tb.ap.shape, o := { col := true } } }
example := engMMVV_safe st "minb" tac tbc (by decide) rfl (by decide) (by decide) (by decide) (by decide) rfl (by decide)
  (by decide) inA inB
example := engArithVV_safe_iter_coordinatewise st "add" tT tb rfl rfl (by decide) (by decide) (by decide) rfl rfl (by decide)
  ⟨rfl, by decide, by decide, by decide⟩ (by
    have h := C13.T_distinct [1, 0] [2, 2] [2, 1] (by decide) rfl (C13.default_distinct [2, 2])
    simpa [gatherI, tT] using h)
  ⟨rfl, by decide, by decide, by decide⟩ (C13.default_distinct [2, 2]) inA inB
example := engMMVV_safe_iter st "minb" tT tb (by decide) rfl (by decide) (by decide) rfl rfl (by decide) (by decide) (by decide)
  (by decide) (by decide) (by decide) (by decide) inA inB
example : ∃ out r, engMMVV st "minb" tac tbc {} = .ok out ∧ out.ret = .fresh r ∧ r.ap.o.col = true := ⟨_, _, rfl, rfl, rfl⟩
-- scalar on the left of a (1,3) view with a gap after every element (finding F31, repaired)
def st6 : St := { heap := #[#[.src 0 0, .src 0 1, .src 0 2, .src 0 3, .src 0 4, .src 0 5], #[.src 1 0]] }
def tv : Dense := { ap := { shape := [1, 3], strides := [6, 2], o := { nonContig := true } }, win := ⟨0, 0, 5, 6⟩,
                    dt := "i8", view := true }
def scv : ScalarArg := { win := ⟨1, 0, 1, 1⟩, dt := "i8" }
example := engMMScalar_scalar_left_iter st6 "minb" tv scv (by decide) rfl rfl (by decide) (by decide) rfl rfl
  (by decide) (by decide) (by decide) (by decide) (by decide) ⟨_, rfl, by decide⟩ ⟨_, rfl, by decide⟩
example : ∃ out, engMMScalar st6 "minb" tv scv false {} = .ok out ∧
    cell out.st 2 1 = some (.app2 "minb" (.src 0 2) (.src 1 0)) ∧
    cell out.st 2 2 = some (.app2 "minb" (.src 0 4) (.src 1 0)) := ⟨_, rfl, rfl, rfl⟩
-- tensor-scalar arithmetic at engine level: raw path (tensor left), and the view with gaps with the scalar on either side
example := engArithScalar_safe_raw_left st "sub" ta { win := ws, dt := "f64" } (by decide) (by decide) rfl rfl (by decide) rfl
  (by decide) rfl inA inS
example := engArithScalar_safe_raw_right st "sub" ta { win := ws, dt := "f64" } (by decide) (by decide) rfl rfl (by decide) rfl
  (by decide) inA inS
example := engArithScalar_safe_iter st6 "sub" tv scv true (by decide) (by decide) rfl rfl (by decide) (by decide) rfl rfl
  (by decide) (by decide) ⟨_, rfl, by decide⟩ ⟨_, rfl, by decide⟩
example := engArithScalar_safe_iter st6 "sub" tv scv false (by decide) (by decide) rfl rfl (by decide) (by decide) rfl rfl
  (by decide) (by decide) ⟨_, rfl, by decide⟩ ⟨_, rfl, by decide⟩
/-- the run: `Sub(3, view)` puts `sub 3 t` (scalar first) at the view's elements 0, 2, 4 of the clone and keeps the gap cell 1 -/
example : ∃ out, engArithScalar st6 "sub" numberTypes tv scv false {} = .ok out ∧
    cell out.st 2 0 = some (.app2 "sub" (.src 1 0) (.src 0 0)) ∧ cell out.st 2 1 = some (.src 0 1) ∧
    cell out.st 2 4 = some (.app2 "sub" (.src 1 0) (.src 0 4)) := ⟨_, rfl, rfl, rfl, rfl⟩
end Ex

/-! ## the source of the shape test of `binaryCheck` -/

/-- `shape.go:Shape.Eq` (translated from the source on this run) is the model's `shapeEq` — the test
    `binaryCheck` applies to the two operand shapes — for all shapes. -/
theorem Shape_Eq_source (s o : Shape) : Gen.Shape_Eq s o = .ok (shapeEq s o) := Gen.Shape_Eq_eq s o

/-- in particular, operands of different rank ≥ 3 or different extents are never "equal" -/
theorem Shape_Eq_source_strict (s o : Shape) (hs : isVector s = false) :
    Gen.Shape_Eq s o = .ok (if isScalar s && isScalar o then true else s == o) := by
  rw [Shape_Eq_source]
  unfold shapeEq
  simp [hs]

end TM.C06
