import TensorModel.Own
namespace TM.Own

theorem mem_remove {x s : Sid} {l : List Sid} : x ∈ remove s l ↔ x ∈ l ∧ x ≠ s := by
  simp [remove]

theorem mem_slicesOf {k : Nat} {s : Sid} : ∀ {r : List (Nat × Sid)}, s ∈ slicesOf k r ↔ (k, s) ∈ r
  | [] => by simp [slicesOf]
  | (k', s') :: r => by
      by_cases e : k' = k
      · subst e; simp [slicesOf, mem_slicesOf (r := r)]
      · have : ¬ k = k' := fun h => e h.symm
        simp [slicesOf, e, this, mem_slicesOf (r := r)]

theorem nodup_slicesOf {k : Nat} : ∀ {r : List (Nat × Sid)}, r.Nodup → (slicesOf k r).Nodup
  | [], _ => by simp [slicesOf]
  | (k', s') :: r, h => by
      rw [List.nodup_cons] at h
      by_cases e : k' = k
      · subst e
        simp only [slicesOf, if_true, List.nodup_cons]
        exact ⟨fun hm => h.1 (mem_slicesOf.1 hm), nodup_slicesOf h.2⟩
      · simp only [slicesOf, e, if_false]; exact nodup_slicesOf h.2

theorem referenced_false {st : State} {s : Sid} :
    referenced st s = false ↔ ∀ k, (k, s) ∉ st.refs := by
  simp only [referenced, List.any_eq_false, beq_iff_eq]
  constructor
  · intro h k hk; exact h (k, s) hk rfl
  · rintro h ⟨k, s'⟩ hp e; simp only at e; subst e; exact h k hp

theorem refdByOther_false {st : State} {k : Nat} {s : Sid} :
    refdByOther st k s = false ↔ ∀ k', (k', s) ∈ st.refs → k' = k := by
  simp only [refdByOther, List.any_eq_false]
  constructor
  · intro h k' hk
    have := h (k', s) hk
    simpa using this
  · rintro h ⟨k', s'⟩ hp
    by_cases e : s' = s
    · subst e; simp [h k' hp]
    · simp [e]

theorem firstFail_none : ∀ {cs : List (Bool × Reason)},
    firstFail cs = none ↔ cs.all (·.1) = true
  | [] => by simp [firstFail]
  | (ok, r) :: cs => by
      cases ok <;> simp [firstFail, firstFail_none (cs := cs)]

theorem violation_none_iff {st : State} {e : Event} :
    violation st e = none ↔ disciplined st e = true := firstFail_none

/-! ### what the discipline says, event by event -/

theorem disc_alloc {st : State} {s : Sid} : disciplined st (.alloc s) = true ↔
    s ∉ st.pooled ∧ s ∉ st.callerOwned ∧ s ∉ st.held ∧ ∀ k, (k, s) ∉ st.refs := by
  simp [disciplined, checks, referenced_false, and_assoc]

theorem disc_borrow {st : State} {s : Sid} : disciplined st (.borrow s) = true ↔ s ∈ st.pooled := by
  simp [disciplined, checks]

theorem disc_ret {st : State} {s : Sid} : disciplined st (.ret s) = true ↔
    s ∉ st.callerOwned ∧ s ∉ st.pooled ∧ ∀ k, (k, s) ∉ st.refs := by
  simp [disciplined, checks, referenced_false]

theorem disc_attach {st : State} {k : Nat} {s : Sid} : disciplined st (.attach k s) = true ↔
    s ∉ st.callerOwned ∧ s ∉ st.pooled ∧ ∀ k', (k', s) ∈ st.refs → k' = k := by
  simp [disciplined, checks, refdByOther_false]

theorem disc_detach {st : State} {k : Nat} {s : Sid} : disciplined st (.detach k s) = true ↔
    (k, s) ∈ st.refs := by
  simp [disciplined, checks]

theorem disc_callerPass {st : State} {s : Sid} : disciplined st (.callerPass s) = true ↔
    s ∉ st.pooled ∧ s ∉ st.held ∧ ∀ k, (k, s) ∉ st.refs := by
  simp [disciplined, checks, referenced_false, and_assoc]

theorem disc_write {st : State} {s : Sid} {dst : Option Nat} {v : Nat} :
    disciplined st (.write s dst v) = true ↔
    s ∉ st.pooled ∧ s ∉ st.callerOwned ∧ ∀ k, (k, s) ∈ st.refs → dst = some k := by
  simp only [disciplined, checks, List.all_cons, List.all_nil, Bool.and_true, Bool.and_eq_true,
    Bool.not_eq_true', List.contains_eq_mem, decide_eq_false_iff_not, List.all_eq_true,
    Bool.or_eq_true, bne_iff_ne, beq_iff_eq]
  refine and_congr Iff.rfl (and_congr Iff.rfl ⟨fun h k hk => ?_, ?_⟩)
  · rcases h (k, s) hk with h' | h'
    · exact absurd rfl h'
    · exact h'
  · rintro h ⟨k, s'⟩ hp
    by_cases e : s' = s
    · subst e; exact Or.inr (h k hp)
    · exact Or.inl e

theorem disc_callerWrite {st : State} {s : Sid} {v : Nat} :
    disciplined st (.callerWrite s v) = true ↔ s ∈ st.callerOwned := by
  simp [disciplined, checks]


/-! ### the invariant -/

theorem inv_init : Inv init := by
  constructor <;> simp [init]

theorem inv_alloc {st : State} {s : Sid} (hI : Inv st) (hd : disciplined st (.alloc s) = true) :
    Inv (step st (.alloc s)) := by
  obtain ⟨h1, h2, h3, h4⟩ := disc_alloc.1 hd
  refine { hI with poolHeld := ?_, callerHeld := ?_, heldRef := ?_ }
  · intro x hx; simp only [step, List.mem_cons, not_or]
    exact ⟨fun e => h1 (e ▸ hx), hI.poolHeld x hx⟩
  · intro x hx; simp only [step, List.mem_cons, not_or]
    exact ⟨fun e => h2 (e ▸ hx), hI.callerHeld x hx⟩
  · intro x hx k; simp only [step, List.mem_cons] at hx ⊢
    rcases hx with e | hx
    · subst e; exact h4 k
    · exact hI.heldRef x hx k

theorem inv_borrow {st : State} {s : Sid} (hI : Inv st) (hd : disciplined st (.borrow s) = true) :
    Inv (step st (.borrow s)) := by
  have hs := disc_borrow.1 hd
  have hsub : ∀ x, x ∈ st.pooled.erase s → x ∈ st.pooled := fun x => List.mem_of_mem_erase
  refine { hI with nodupPool := ?_, poolCaller := ?_, poolRef := ?_, poolHeld := ?_,
                   callerHeld := ?_, heldRef := ?_ }
  · exact hI.nodupPool.erase s
  · intro x hx; exact hI.poolCaller x (hsub x hx)
  · intro x hx; exact hI.poolRef x (hsub x hx)
  · intro x hx; simp only [step, List.mem_cons, not_or]
    simp only [step] at hx
    have := (hI.nodupPool.mem_erase_iff).1 hx
    exact ⟨this.1, hI.poolHeld x this.2⟩
  · intro x hx; simp only [step, List.mem_cons, not_or]
    exact ⟨fun e => hI.poolCaller s hs (e ▸ hx), hI.callerHeld x hx⟩
  · intro x hx k; simp only [step, List.mem_cons] at hx ⊢
    rcases hx with e | hx
    · subst e; exact hI.poolRef x hs k
    · exact hI.heldRef x hx k

theorem inv_ret {st : State} {s : Sid} (hI : Inv st) (hd : disciplined st (.ret s) = true) :
    Inv (step st (.ret s)) := by
  obtain ⟨h1, h2, h3⟩ := disc_ret.1 hd
  refine { hI with nodupPool := ?_, poolCaller := ?_, poolRef := ?_, poolHeld := ?_,
                   callerHeld := ?_, heldRef := ?_ }
  · exact List.nodup_cons.2 ⟨h2, hI.nodupPool⟩
  · intro x hx; simp only [step, List.mem_cons] at hx ⊢
    rcases hx with e | hx
    · subst e; exact h1
    · exact hI.poolCaller x hx
  · intro x hx k; simp only [step, List.mem_cons] at hx ⊢
    rcases hx with e | hx
    · subst e; exact h3 k
    · exact hI.poolRef x hx k
  · intro x hx; simp only [step, List.mem_cons, mem_remove, not_and, Classical.not_not] at hx ⊢
    rcases hx with e | hx
    · intro _; exact e
    · intro hh; exact absurd hh (hI.poolHeld x hx)
  · intro x hx; simp only [step, mem_remove, not_and, Classical.not_not] at hx ⊢
    intro hh; exact absurd hh (hI.callerHeld x hx)
  · intro x hx k; simp only [step, mem_remove] at hx ⊢
    exact hI.heldRef x hx.1 k

theorem mem_attach_refs {st : State} {k : Nat} {s : Sid} {p : Nat × Sid} :
    p ∈ (if (k, s) ∈ st.refs then st.refs else (k, s) :: st.refs) ↔ p = (k, s) ∨ p ∈ st.refs := by
  split
  · constructor
    · exact Or.inr
    · rintro (e | h)
      · subst e; assumption
      · exact h
  · simp

theorem inv_attach {st : State} {k : Nat} {s : Sid} (hI : Inv st)
    (hd : disciplined st (.attach k s) = true) : Inv (step st (.attach k s)) := by
  obtain ⟨h1, h2, h3⟩ := disc_attach.1 hd
  refine { hI with poolRef := ?_, poolHeld := ?_, callerRef := ?_, callerHeld := ?_,
                   unshared := ?_, heldRef := ?_, nodupRefs := ?_ }
  · intro x hx k'; simp only [step, mem_attach_refs, Prod.mk.injEq, not_or, not_and] at hx ⊢
    exact ⟨fun _ e => h2 (e ▸ hx), hI.poolRef x hx k'⟩
  · intro x hx; simp only [step, mem_remove, not_and, Classical.not_not] at hx ⊢
    intro hh; exact absurd hh (hI.poolHeld x hx)
  · intro x hx k'; simp only [step, mem_attach_refs, Prod.mk.injEq, not_or, not_and] at hx ⊢
    exact ⟨fun _ e => h1 (e ▸ hx), hI.callerRef x hx k'⟩
  · intro x hx; simp only [step, mem_remove, not_and, Classical.not_not] at hx ⊢
    intro hh; exact absurd hh (hI.callerHeld x hx)
  · intro a b x ha hb; simp only [step, mem_attach_refs, Prod.mk.injEq] at ha hb
    rcases ha with ⟨ea, ex⟩ | ha <;> rcases hb with ⟨eb, ex'⟩ | hb
    · rw [ea, eb]
    · subst ex; rw [ea]; exact (h3 b hb).symm
    · subst ex'; rw [eb]; exact h3 a ha
    · exact hI.unshared a b x ha hb
  · intro x hx k'; simp only [step, mem_remove, mem_attach_refs, Prod.mk.injEq, not_or, not_and] at hx ⊢
    exact ⟨fun _ e => hx.2 e, hI.heldRef x hx.1 k'⟩
  · simp only [step]
    split
    · exact hI.nodupRefs
    · rename_i hn; exact List.nodup_cons.2 ⟨hn, hI.nodupRefs⟩

theorem inv_detach {st : State} {k : Nat} {s : Sid} (hI : Inv st)
    (hd : disciplined st (.detach k s) = true) : Inv (step st (.detach k s)) := by
  have hks := disc_detach.1 hd
  have hsub : ∀ p, p ∈ st.refs.filter (· != (k, s)) → p ∈ st.refs := fun p hp => (List.mem_filter.1 hp).1
  refine { hI with poolRef := ?_, poolHeld := ?_, callerRef := ?_, callerHeld := ?_,
                   unshared := ?_, heldRef := ?_, nodupRefs := ?_ }
  · intro x hx k' hm; exact hI.poolRef x hx k' (hsub _ hm)
  · intro x hx; simp only [step, List.mem_cons, not_or]
    exact ⟨fun e => hI.poolRef x hx k (e ▸ hks), hI.poolHeld x hx⟩
  · intro x hx k' hm; exact hI.callerRef x hx k' (hsub _ hm)
  · intro x hx; simp only [step, List.mem_cons, not_or]
    exact ⟨fun e => hI.callerRef x hx k (e ▸ hks), hI.callerHeld x hx⟩
  · intro a b x ha hb; exact hI.unshared a b x (hsub _ ha) (hsub _ hb)
  · intro x hx k' hm
    simp only [step, List.mem_cons] at hx
    simp only [step, List.mem_filter, bne_iff_ne, ne_eq, Prod.mk.injEq, not_and] at hm
    rcases hx with e | hx
    · subst e
      have := hI.unshared k' k x hm.1 hks
      exact hm.2 this rfl
    · exact hI.heldRef x hx k' hm.1
  · exact List.Pairwise.filter _ hI.nodupRefs

theorem inv_callerPass {st : State} {s : Sid} (hI : Inv st)
    (hd : disciplined st (.callerPass s) = true) : Inv (step st (.callerPass s)) := by
  obtain ⟨h1, h2, h3⟩ := disc_callerPass.1 hd
  refine { hI with poolCaller := ?_, callerRef := ?_, callerHeld := ?_ }
  · intro x hx; simp only [step, List.mem_cons, not_or]
    exact ⟨fun e => h1 (e ▸ hx), hI.poolCaller x hx⟩
  · intro x hx k; simp only [step, List.mem_cons] at hx ⊢
    rcases hx with e | hx
    · subst e; exact h3 k
    · exact hI.callerRef x hx k
  · intro x hx; simp only [step, List.mem_cons] at hx ⊢
    rcases hx with e | hx
    · subst e; exact h2
    · exact hI.callerHeld x hx

theorem inv_kill {st : State} {k : Nat} (hI : Inv st) : Inv (step st (.kill k)) := by
  have hsub : ∀ p, p ∈ st.refs.filter (·.1 != k) → p ∈ st.refs := fun p hp => (List.mem_filter.1 hp).1
  refine { hI with nodupPool := ?_, poolCaller := ?_, poolRef := ?_, poolHeld := ?_, callerRef := ?_,
                   unshared := ?_, heldRef := ?_, nodupRefs := ?_ }
  · simp only [step]
    refine List.nodup_append.2 ⟨nodup_slicesOf hI.nodupRefs, hI.nodupPool, ?_⟩
    intro a ha b hb e
    subst e
    exact hI.poolRef a hb k (mem_slicesOf.1 ha)
  · intro x hx; simp only [step, List.mem_append, mem_slicesOf] at hx ⊢
    rcases hx with hx | hx
    · intro hc; exact hI.callerRef x hc k hx
    · exact hI.poolCaller x hx
  · intro x hx k' hm
    simp only [step, List.mem_append, mem_slicesOf] at hx
    simp only [step, List.mem_filter, bne_iff_ne, ne_eq] at hm
    rcases hx with hx | hx
    · exact hm.2 (hI.unshared k' k x hm.1 hx)
    · exact hI.poolRef x hx k' hm.1
  · intro x hx; simp only [step, List.mem_append, mem_slicesOf] at hx ⊢
    rcases hx with hx | hx
    · intro hh; exact hI.heldRef x hh k hx
    · exact hI.poolHeld x hx
  · intro x hx k' hm; exact hI.callerRef x hx k' (hsub _ hm)
  · intro a b x ha hb; exact hI.unshared a b x (hsub _ ha) (hsub _ hb)
  · intro x hx k' hm; exact hI.heldRef x hx k' (hsub _ hm)
  · exact List.Pairwise.filter _ hI.nodupRefs

theorem inv_step {st : State} {e : Event} (hI : Inv st) (hd : disciplined st e = true) :
    Inv (step st e) := by
  cases e with
  | alloc s => exact inv_alloc hI hd
  | borrow s => exact inv_borrow hI hd
  | ret s => exact inv_ret hI hd
  | attach k s => exact inv_attach hI hd
  | detach k s => exact inv_detach hI hd
  | callerPass s => exact inv_callerPass hI hd
  | kill k => exact inv_kill hI
  | write s dst v => exact { hI with }
  | callerWrite s v => exact { hI with }

theorem inv_runFrom : ∀ (h : List Event) (st : State), Inv st → Disciplined st h → Inv (runFrom st h)
  | [], _, hI, _ => hI
  | e :: h, st, hI, hd => inv_runFrom h (step st e) (inv_step hI hd.1) hd.2

theorem checkFrom_sound : ∀ (h : List Event) (st : State) (i : Nat),
    checkFrom st i h = none → Disciplined st h
  | [], _, _, _ => trivial
  | e :: h, st, i, hc => by
      simp only [checkFrom] at hc
      split at hc
      · cases hc
      · rename_i hv
        exact ⟨violation_none_iff.1 hv, checkFrom_sound h _ _ hc⟩

theorem checkFrom_complete : ∀ (h : List Event) (st : State) (i : Nat),
    Disciplined st h → checkFrom st i h = none
  | [], _, _, _ => rfl
  | e :: h, st, i, hd => by
      simp only [checkFrom, violation_none_iff.2 hd.1]
      exact checkFrom_complete h _ _ hd.2


/-! ### frame properties of disciplined events -/

/-- A disciplined event that is not *about* slice `s` of live tensor `k` (a write with destination
    `k`, `detach k s`, `ReturnTensor k`) neither changes the contents of `s` nor the fact that `k`
    refers to it. -/
theorem live_slice_stable {st : State} {e : Event} {k : Nat} {s : Sid} (hI : Inv st)
    (hd : disciplined st e = true) (hr : (k, s) ∈ st.refs) (ht : touches k s e = false) :
    (step st e).data s = st.data s ∧ (k, s) ∈ (step st e).refs := by
  cases e with
  | alloc s' => exact ⟨rfl, hr⟩
  | borrow s' => exact ⟨rfl, hr⟩
  | callerPass s' => exact ⟨rfl, hr⟩
  | attach k' s' => exact ⟨rfl, mem_attach_refs.2 (Or.inr hr)⟩
  | detach k' s' =>
    refine ⟨rfl, ?_⟩
    simp only [step, List.mem_filter, bne_iff_ne, ne_eq, Prod.mk.injEq, not_and]
    refine ⟨hr, fun ek es => ?_⟩
    simp [touches, ek, es] at ht
  | ret s' =>
    have h3 := (disc_ret.1 hd).2.2
    have hne : s ≠ s' := fun e => h3 k (e ▸ hr)
    exact ⟨by simp [step, setD, hne], hr⟩
  | kill k' =>
    have hk : k ≠ k' := by
      intro e; simp [touches, e] at ht
    refine ⟨?_, ?_⟩
    · have : s ∉ slicesOf k' st.refs := fun hm => hk (hI.unshared k k' s hr (mem_slicesOf.1 hm))
      simp [step, zeroAll, this]
    · simp only [step, List.mem_filter, bne_iff_ne, ne_eq]
      exact ⟨hr, hk⟩
  | write s' dst v =>
    refine ⟨?_, hr⟩
    have h3 := (disc_write.1 hd).2.2
    have hne : s ≠ s' := by
      intro e
      subst e
      have := h3 k hr
      subst this
      simp [touches] at ht
    simp [step, setD, hne]
  | callerWrite s' v =>
    have hs := disc_callerWrite.1 hd
    have hne : s ≠ s' := fun e => hI.callerRef s' hs k (e ▸ hr)
    exact ⟨by simp [step, setD, hne], hr⟩

/-- A disciplined event other than the caller's own write leaves a caller-owned slice alone. -/
theorem caller_slice_stable {st : State} {e : Event} {s : Sid} (hI : Inv st)
    (hd : disciplined st e = true) (hs : s ∈ st.callerOwned) (hc : isCallerWrite s e = false) :
    (step st e).data s = st.data s ∧ s ∈ (step st e).callerOwned := by
  cases e with
  | alloc s' => exact ⟨rfl, hs⟩
  | borrow s' => exact ⟨rfl, hs⟩
  | callerPass s' => exact ⟨rfl, List.mem_cons_of_mem _ hs⟩
  | attach k' s' => exact ⟨rfl, hs⟩
  | detach k' s' => exact ⟨rfl, hs⟩
  | ret s' =>
    have hne : s ≠ s' := fun e => (disc_ret.1 hd).1 (e ▸ hs)
    exact ⟨by simp [step, setD, hne], hs⟩
  | kill k' =>
    have : s ∉ slicesOf k' st.refs := fun hm => hI.callerRef s hs k' (mem_slicesOf.1 hm)
    exact ⟨by simp [step, zeroAll, this], hs⟩
  | write s' dst v =>
    have hne : s ≠ s' := fun e => (disc_write.1 hd).2.1 (e ▸ hs)
    exact ⟨by simp [step, setD, hne], hs⟩
  | callerWrite s' v =>
    have hne : s ≠ s' := by
      intro e; simp [isCallerWrite, e] at hc
    exact ⟨by simp [step, setD, hne], hs⟩

theorem live_slice_stable_run : ∀ (h : List Event) (st : State) (k : Nat) (s : Sid), Inv st →
    Disciplined st h → (k, s) ∈ st.refs → (∀ e ∈ h, touches k s e = false) →
    (runFrom st h).data s = st.data s ∧ (k, s) ∈ (runFrom st h).refs
  | [], _, _, _, _, _, hr, _ => ⟨rfl, hr⟩
  | e :: h, st, k, s, hI, hd, hr, ht => by
      obtain ⟨h1, h2⟩ := live_slice_stable hI hd.1 hr (ht e (List.mem_cons_self ..))
      obtain ⟨h3, h4⟩ := live_slice_stable_run h (step st e) k s (inv_step hI hd.1) hd.2 h2
        (fun e' he' => ht e' (List.mem_cons_of_mem _ he'))
      exact ⟨h3.trans h1, h4⟩

theorem caller_slice_stable_run : ∀ (h : List Event) (st : State) (s : Sid), Inv st →
    Disciplined st h → s ∈ st.callerOwned → (∀ e ∈ h, isCallerWrite s e = false) →
    (runFrom st h).data s = st.data s ∧ s ∈ (runFrom st h).callerOwned
  | [], _, _, _, _, hs, _ => ⟨rfl, hs⟩
  | e :: h, st, s, hI, hd, hs, hc => by
      obtain ⟨h1, h2⟩ := caller_slice_stable hI hd.1 hs (hc e (List.mem_cons_self ..))
      obtain ⟨h3, h4⟩ := caller_slice_stable_run h (step st e) s (inv_step hI hd.1) hd.2 h2
        (fun e' he' => hc e' (List.mem_cons_of_mem _ he'))
      exact ⟨h3.trans h1, h4⟩

theorem runFrom_append : ∀ (h g : List Event) (st : State),
    runFrom st (h ++ g) = runFrom (runFrom st h) g
  | [], _, _ => rfl
  | e :: h, g, st => by simp only [List.cons_append, runFrom]; exact runFrom_append h g _

end TM.Own
