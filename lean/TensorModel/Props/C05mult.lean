import TensorModel.Ext.MultIter
import TensorModel.Proofs.MultIter
/-!
  C05 (multi-iterator) — "a multi-iterator over equally shaped tensors yields for each tensor the offset its
  own flat iterator yields" (`Ext/MultIter.lean`, helper lemmas in `Proofs/MultIter.lean`).

  Setting of every theorem (`SameShape aps sh`): at least one operand; every operand has the shape `sh` and
  one stride per axis; every dimension of `sh` is positive. Any rank, any number of operands, any strides.

  * `lastIndex_eq_block` (no further guard): the iterator is built (no panic), every one of the first `∏ sh`
    calls of `Next` succeeds, and after `k+1` calls `LastIndex(j)` is the `k`-th row-major coordinate against
    the *filled stride block* of operand `j` (its own strides, zeros replaced by ones) — with and without
    block sharing;
  * `preOf_agree` / `NoZeroStride`: the filled block agrees with the operand's own strides on every axis that
    moves as soon as no moving axis has stride 0;
  * **`lastIndex_eq_flat`** (main theorem; only guard: `NoZeroStride`): after `k+1` calls `LastIndex(j)` is
    the `k`-th offset of the flat iterator of operand `j`, for every `j` and `k < ∏ sh`; the calls return the
    offsets of operand 0 (`next_returns_first`);
  * `zero_stride_guard_needed`: the one guard left is needed (the loop "fill 0s with 1s"; kernel-checked);
  * `exhaustion` / `done_agrees`: after `∏ sh` calls the iterator is done, `Done()` answers like the flat
    iterator of every operand after the same number of calls, further calls report the error and change nothing;
  * `reset_restarts` / `start_restarts`: `Reset` (`Start`) after any number `k ≤ ∏ sh` of calls restarts;
  * `forward_restarts`: so does `SetForward` — also on the exhausted iterator;
  * `reverse_eq_flat`: `SetReverse` after any number `k₀ ≤ ∏ sh` of calls (the fresh iterator, in the middle
    of a run, the exhausted iterator), then `k+1` calls: `LastIndex(j)` is the `k`-th element of the reversed
    sequence of the flat iterator of operand `j`;
  * `sharing_unobservable` (no guard): the iterator with block sharing and the iterator in which every
    operand has its own block return the same values, the same `LastIndex(j)` and the same `Done()`;
  * examples: a stepped row vector `(1,3)` next to a contiguous one, a direction switch on the exhausted
    iterator, a column-major `(1)` without strides (the regions of the repaired findings F100, F101, F102,
    now ordinary inputs).

  Assumption (stated, not proved): `hashIntArray` does not collide on the stride lists of one call — the
  model keys the blocks by the stride list itself.
-/
set_option linter.unusedSimpArgs false
namespace TM.C05mult
open TM TM.MultIter

/-- operands of one shape, one stride per axis, positive dimensions -/
structure SameShape (aps : List AP) (sh : Shape) : Prop where
  ne : aps ≠ []
  same : ∀ ap ∈ aps, ap.shape = sh ∧ ap.strides.length = sh.length
  pos : ∀ d ∈ sh, 0 < d

/-- number of elements -/
abbrev count (sh : Shape) : Nat := (totalSize sh).toNat

theorem getElem_mem' {α} (l : List α) (j : Nat) (hj : j < l.length) : l[j] ∈ l := List.getElem_mem hj

/-- **Structure of the run (no guard).** The iterator is built; each of the first `∏ sh` calls returns a
    value; after `k+1` calls `LastIndex(j)` is the `k`-th row-major coordinate against the filled stride block
    built for the strides of operand `j` (`fill (preOf sh strides_j)`: the operand's own strides, zeros → ones). -/
theorem lastIndex_eq_block (share : Bool) (aps : List AP) (sh : Shape) (h : SameShape aps sh) :
    ∃ it, MultIt.newWith share aps = .ok it ∧
      ∀ k, k < count sh →
        ((MultIt.nextN (k + 1) it).2.all (·.isSome) = true) ∧
        ∀ j (hj : j < aps.length),
          ((MultIt.nextN (k + 1) it).1).lastIndex j = dot (coordAt sh (k : Int)) (fill (preOf sh (aps[j]).strides)) := by
  obtain ⟨it, hb⟩ := built share aps sh h.ne h.same h.pos
  refine ⟨it, hb.new, ?_⟩
  intro k hk
  have hk' : k < (prod sh).toNat := hk
  have hN := nextN_lockstep it _ hb.lock (k + 1) (by omega)
  refine ⟨?_, ?_⟩
  · rw [hN]; simp
  · intro j hj
    obtain ⟨b, hw, hf⟩ := hb.serve j hj
    rw [hN]
    rw [stateAt_lastIndex it _ hb.lock k hk' j b _ hw hf]
    have hl : (blkOf sh (aps[j]).strides).pre.length = sh.length :=
      preOf_length sh _ (h.same _ (getElem_mem' aps j hj)).2
    exact (mkFit_runs sh _ hl h.pos).2 k hk'

/-- the `k`-th offset of the flat iterator of a well-formed operand -/
theorem flat_offset (ap : AP) (sh : Shape) (hs : ap.shape = sh) (hl : ap.strides.length = sh.length)
    (hp : ∀ d ∈ sh, 0 < d) (k : Nat) (hk : k < count sh) :
    (FlatIt.offsets ap)[k]? = some (dot (coordAt sh (k : Int)) ap.strides) := by
  subst hs
  rw [offsets_eq_coordAt ap hl hp]
  have hk' : k < (prod ap.shape).toNat := hk
  simp [hk']

/-- **Main theorem.** Operands of one shape `sh` (any rank, positive dimensions), every operand with one
    stride per axis (`SameShape`: a column-major vector, which carries fewer strides than axes — finding F24 —,
    is outside), any number of operands, with or without block sharing; only guard: no operand has stride 0 on
    an axis of extent ≠ 1 (`NoZeroStride`: `NewMultIterator` replaces the zeros of its stride blocks by ones).
    Then `NewMultIterator` succeeds and after `k+1` calls of `Next` (`k < ∏ sh`) `LastIndex(j)` **is the
    `k`-th offset the flat iterator of operand `j` yields** — for every `j` and `k`. -/
theorem lastIndex_eq_flat (share : Bool) (aps : List AP) (sh : Shape) (h : SameShape aps sh)
    (hz : ∀ ap ∈ aps, NoZeroStride sh ap.strides) :
    ∃ it, MultIt.newWith share aps = .ok it ∧
      ∀ k, k < count sh → ∀ j (hj : j < aps.length),
        (FlatIt.offsets aps[j])[k]? = some (((MultIt.nextN (k + 1) it).1).lastIndex j) := by
  obtain ⟨it, hnew, hrun⟩ := lastIndex_eq_block share aps sh h
  refine ⟨it, hnew, ?_⟩
  intro k hk j hj
  have hm := getElem_mem' aps j hj
  obtain ⟨hs, hl⟩ := h.same _ hm
  rw [flat_offset aps[j] sh hs hl h.pos k hk, (hrun k hk).2 j hj]
  congr 1
  exact (dot_coordAt_agree sh _ _ (preOf_agree sh _ hl (hz _ hm)) k).symm

/-- … and the value each call returns is `LastIndex(0)`: the offsets of the first operand, never the error. -/
theorem next_returns_first (share : Bool) (aps : List AP) (sh : Shape) (h : SameShape aps sh) :
    ∃ it, MultIt.newWith share aps = .ok it ∧
      ∀ k, k < count sh →
        (MultIt.nextN (k + 1) it).2 =
          (List.range (k + 1)).map (fun i => some (((MultIt.nextN (i + 1) it).1).lastIndex 0)) := by
  obtain ⟨it, hb⟩ := built share aps sh h.ne h.same h.pos
  refine ⟨it, hb.new, ?_⟩
  intro k hk
  have hk' : k < (prod sh).toNat := hk
  rw [nextN_lockstep it _ hb.lock (k + 1) (by omega)]
  apply List.map_congr_left
  intro i hi
  simp only [List.mem_range] at hi
  have hpos : 0 < aps.length := List.length_pos_iff.2 h.ne
  obtain ⟨b, hw, hf⟩ := hb.serve 0 hpos
  have hb0 : b = 0 := by
    have := hb.which0; rw [hw] at this; injection this
  subst hb0
  rw [nextN_lockstep it _ hb.lock (i + 1) (by omega)]
  rw [stateAt_lastIndex it _ hb.lock i (by omega) 0 0 _ hw hf, hb.fit0, lastOf_map it.fits _ 0 _ hf]
  congr 1
  exact (hb.lock.runs _ (List.mem_of_getElem? hf)).last i (by omega)

/-! ## exhaustion and `Done` -/

/-- **Exhaustion.** After exactly `∏ sh` calls the iterator is done; every further call reports the error
    and changes nothing; before that it is not done. (No guard.) -/
theorem exhaustion (share : Bool) (aps : List AP) (sh : Shape) (h : SameShape aps sh) :
    ∃ it, MultIt.newWith share aps = .ok it ∧
      (∀ k, k ≤ count sh → ((MultIt.nextN k it).1.isDone).2 = decide (k = count sh)) ∧
      ((MultIt.nextN (count sh) it).1).next = ((MultIt.nextN (count sh) it).1, none) := by
  obtain ⟨it, hb⟩ := built share aps sh h.ne h.same h.pos
  refine ⟨it, hb.new, ?_, ?_⟩
  · intro k hk
    rw [nextN_lockstep it _ hb.lock k hk, stateAt_isDone it _ hb.lock k hk]
    rfl
  · show ((MultIt.nextN (prod sh).toNat it).1).next = ((MultIt.nextN (prod sh).toNat it).1, none)
    rw [nextN_lockstep it _ hb.lock _ (Nat.le_refl _)]
    exact stateAt_end it _

/-- `Done()` of the flat iterator of a well-formed operand after `k ≤ ∏ shape` calls -/
theorem flat_done_at (ap : AP) (hl : ap.strides.length = ap.shape.length) (hp : ∀ d ∈ ap.shape, 0 < d)
    (k : Nat) (hk : k ≤ count ap.shape) :
    (FlatIt.run k (FlatIt.new ap)).2.done = decide (k = count ap.shape) := by
  have hk' : k ≤ (prod ap.shape).toNat := hk
  have hP := prod_pos ap.shape hp
  by_cases hs : ap.shape = []
  · have hn : count ap.shape = 1 := by simp [count, hs, totalSize, prod]
    rw [hn] at hk ⊢
    have : k = 0 ∨ k = 1 := by omega
    rcases this with rfl | rfl
    · simp [FlatIt.run, FlatIt.new]
    · simp [FlatIt.run, FlatIt.next, FlatIt.new, hs, isScalar]
  · by_cases hv : ap.isVectorLike = true
    · have hrun := run_seq_partial (vecSt ap) _ _ (vecSt_next ap hv hs) k 0 (by omega)
      rw [vecSt_zero ap hp hs] at hrun
      rw [hrun]
      show decide (prod ap.shape ≤ ((0 + k : Nat) : Int)) = decide (k = (prod ap.shape).toNat)
      by_cases hkn : k = (prod ap.shape).toNat
      · rw [decide_eq_true (by omega : prod ap.shape ≤ ((0 + k : Nat) : Int)), decide_eq_true hkn]
      · rw [decide_eq_false (by omega : ¬ prod ap.shape ≤ ((0 + k : Nat) : Int)), decide_eq_false hkn]
    · rw [nd_run_partial ap hl hp (by simpa using hv) k hk']
      rfl

/-- **`Done` agreement.** After `k ≤ ∏ sh` calls, `Done()` of the multi-iterator answers what `Done()` of the
    flat iterator of every operand answers after `k` calls of its own. (No guard.) -/
theorem done_agrees (share : Bool) (aps : List AP) (sh : Shape) (h : SameShape aps sh) :
    ∃ it, MultIt.newWith share aps = .ok it ∧
      ∀ k, k ≤ count sh → ∀ j (hj : j < aps.length),
        ((MultIt.nextN k it).1.isDone).2 = (FlatIt.run k (FlatIt.new aps[j])).2.done := by
  obtain ⟨it, hnew, hd, _⟩ := exhaustion share aps sh h
  refine ⟨it, hnew, ?_⟩
  intro k hk j hj
  obtain ⟨hs, hl⟩ := h.same _ (getElem_mem' aps j hj)
  rw [hd k hk, flat_done_at aps[j] (by rw [hs]; exact hl) (by rw [hs]; exact h.pos) k (by rw [hs]; exact hk), hs]

/-! ## Reset / Start / SetForward -/

/-- an iterator `r` that serves every operand with a restarted copy of the block iterator `it` serves it with
    behaves like the fresh `it`: `m+1` calls all succeed and leave in `LastIndex(j)` the `m`-th offset of the
    flat iterator of operand `j` -/
theorem restarted_runs (share : Bool) (aps : List AP) (sh : Shape) (h : SameShape aps sh)
    (hz : ∀ ap ∈ aps, NoZeroStride sh ap.strides) (it : MultIt) (hb : Built share aps sh it) (r : MultIt)
    (hlock : Lockstep r (prod sh).toNat) (hwhich : r.which = it.which)
    (hfit : ∀ (b : Nat) (f : FlatIt), it.fits[b]? = some f → ∃ g, r.fits[b]? = some g ∧ ∀ m, outF g m = outF f m) :
    ∀ m, m < count sh →
      ((MultIt.nextN (m + 1) r).2.all (·.isSome) = true) ∧
      ∀ j (hj : j < aps.length),
        (FlatIt.offsets aps[j])[m]? = some (((MultIt.nextN (m + 1) r).1).lastIndex j) := by
  intro m hm
  have hm' : m < (prod sh).toNat := hm
  have hN := nextN_lockstep r _ hlock (m + 1) (by omega)
  refine ⟨by rw [hN]; simp, ?_⟩
  intro j hj
  have hmem := getElem_mem' aps j hj
  obtain ⟨hs, hl⟩ := h.same _ hmem
  obtain ⟨b, hw, hf⟩ := hb.serve j hj
  obtain ⟨g, hg1, hg2⟩ := hfit b _ hf
  rw [hN, stateAt_lastIndex r _ hlock m hm' j b g (by rw [hwhich]; exact hw) hg1, hg2 m]
  have hpl : (blkOf sh (aps[j]).strides).pre.length = sh.length := preOf_length sh _ hl
  rw [(mkFit_runs sh _ hpl h.pos).2 m hm', flat_offset aps[j] sh hs hl h.pos m hm]
  congr 1
  exact (dot_coordAt_agree sh _ _ (preOf_agree sh _ hl (hz _ hmem)) m).symm

/-- **`Reset` restarts.** After any number `k ≤ ∏ sh` of calls, `Reset` succeeds and the iterator then
    behaves like a fresh one: `m+1` further calls all succeed and leave in `LastIndex(j)` the `m`-th offset
    of the flat iterator of operand `j` (guard `NoZeroStride` as in the main theorem). -/
theorem reset_restarts (share : Bool) (aps : List AP) (sh : Shape) (h : SameShape aps sh)
    (hz : ∀ ap ∈ aps, NoZeroStride sh ap.strides) :
    ∃ it, MultIt.newWith share aps = .ok it ∧
      ∀ k, k ≤ count sh → ∃ r, ((MultIt.nextN k it).1).reset = .ok r ∧
        ∀ m, m < count sh →
          ((MultIt.nextN (m + 1) r).2.all (·.isSome) = true) ∧
          ∀ j (hj : j < aps.length),
            (FlatIt.offsets aps[j])[m]? = some (((MultIt.nextN (m + 1) r).1).lastIndex j) := by
  obtain ⟨it, hb⟩ := built share aps sh h.ne h.same h.pos
  refine ⟨it, hb.new, ?_⟩
  intro k hk
  refine ⟨resetOf it k, ?_, ?_⟩
  · rw [nextN_lockstep it _ hb.lock k hk]
    exact stateAt_reset it _ hb.fresh k
  · exact restarted_runs share aps sh h hz it hb (resetOf it k) (resetOf_lockstep it _ hb.lock k) rfl
      (fun b f hf => resetOf_fit it _ hb.lock k b f hf)

/-- **`SetForward` restarts** like `Reset` — after any number `k ≤ ∏ sh` of calls, in particular on the
    exhausted iterator (`k = ∏ sh`; the method clears the iterator's own `done` flag). -/
theorem forward_restarts (share : Bool) (aps : List AP) (sh : Shape) (h : SameShape aps sh)
    (hz : ∀ ap ∈ aps, NoZeroStride sh ap.strides) :
    ∃ it, MultIt.newWith share aps = .ok it ∧
      ∀ k, k ≤ count sh → ∃ r, ((MultIt.nextN k it).1).setForward = .ok r ∧
        ∀ m, m < count sh →
          ((MultIt.nextN (m + 1) r).2.all (·.isSome) = true) ∧
          ∀ j (hj : j < aps.length),
            (FlatIt.offsets aps[j])[m]? = some (((MultIt.nextN (m + 1) r).1).lastIndex j) := by
  obtain ⟨it, hb⟩ := built share aps sh h.ne h.same h.pos
  refine ⟨it, hb.new, ?_⟩
  intro k hk
  refine ⟨fwdOf it (prod sh).toNat k, ?_, ?_⟩
  · rw [nextN_lockstep it _ hb.lock k hk]
    exact stateAt_setForward it _ hb.fresh k
  · exact restarted_runs share aps sh h hz it hb (fwdOf it (prod sh).toNat k) (fwdOf_lockstep it _ hb.lock k) rfl
      (fun b f hf => fwdOf_fit it _ hb.lock k b f hf)

/-- **`Start` restarts**: it is `Reset` followed by `Next`; after any `k ≤ ∏ sh` calls it returns a value and
    leaves in `LastIndex(j)` the first offset of the flat iterator of operand `j`. -/
theorem start_restarts (share : Bool) (aps : List AP) (sh : Shape) (h : SameShape aps sh)
    (hz : ∀ ap ∈ aps, NoZeroStride sh ap.strides) :
    ∃ it, MultIt.newWith share aps = .ok it ∧
      ∀ k, k ≤ count sh → ∃ it' i, ((MultIt.nextN k it).1).start = .ok (it', some i) ∧
        ∀ j (hj : j < aps.length), (FlatIt.offsets aps[j])[0]? = some (it'.lastIndex j) := by
  obtain ⟨it, hnew, hr⟩ := reset_restarts share aps sh h hz
  refine ⟨it, hnew, ?_⟩
  intro k hk
  obtain ⟨r, hreset, hrun⟩ := hr k hk
  have hpos : 0 < count sh := by
    have := prod_pos sh h.pos
    show 0 < (prod sh).toNat
    omega
  obtain ⟨hsome, hlast⟩ := hrun 0 hpos
  have e : MultIt.nextN 1 r = (r.next.1, [r.next.2]) := by
    simp [MultIt.nextN]
  rw [e] at hsome hlast
  cases hn : r.next with
  | mk it' o =>
    rw [hn] at hsome hlast
    cases o with
    | none => simp at hsome
    | some i =>
      refine ⟨it', i, ?_, hlast⟩
      simp [MultIt.start, hreset, bind, Except.bind, pure, Except.pure, hn]

/-! ## reversed -/

/-- **Reversed.** After any number `k₀ ≤ ∏ sh` of calls — on the fresh iterator (`k₀ = 0`), in the middle of
    a run, on the exhausted iterator (`k₀ = ∏ sh`) — `SetReverse` succeeds; then each of the next `∏ sh` calls
    returns a value and after `k+1` calls `LastIndex(j)` is the `k`-th offset of the *reversed* sequence of the
    flat iterator of operand `j` (guard `NoZeroStride` as in the main theorem). -/
theorem reverse_eq_flat (share : Bool) (aps : List AP) (sh : Shape) (h : SameShape aps sh)
    (hz : ∀ ap ∈ aps, NoZeroStride sh ap.strides) :
    ∃ it, MultIt.newWith share aps = .ok it ∧
      ∀ k₀, k₀ ≤ count sh → ∃ r, ((MultIt.nextN k₀ it).1).setReverse = .ok r ∧
        ∀ k, k < count sh →
          ((MultIt.nextN (k + 1) r).2.all (·.isSome) = true) ∧
          ∀ j (hj : j < aps.length),
            (FlatIt.offsets aps[j]).reverse[k]? = some (((MultIt.nextN (k + 1) r).1).lastIndex j) := by
  obtain ⟨it, hb⟩ := built share aps sh h.ne h.same h.pos
  have hrevs : ∀ f ∈ it.fits, f.setReverse = .ok (revFit f) ∧ Runs (revFit f) (prod sh).toNat := by
    intro f hf
    obtain ⟨b, rfl, hbl⟩ := hb.form f hf
    have := mkFit_rev_runs sh b hbl h.pos
    exact ⟨this.1, this.2.1⟩
  refine ⟨it, hb.new, ?_⟩
  intro k₀ hk₀
  let r := revOf it (prod sh).toNat k₀
  have hset : ((MultIt.nextN k₀ it).1).setReverse = .ok r := by
    rw [nextN_lockstep it _ hb.lock k₀ hk₀]
    exact stateAt_setReverse it _ (fun f hf => (hrevs f hf).1) k₀
  have hlock : Lockstep r (prod sh).toNat :=
    revOf_lockstep it _ hb.lock.pos hb.lock.ne (fun f hf => (hrevs f hf).2) k₀
  refine ⟨r, hset, ?_⟩
  intro k hk
  have hk' : k < (prod sh).toNat := hk
  have hN := nextN_lockstep r _ hlock (k + 1) (by omega)
  refine ⟨by rw [hN]; simp, ?_⟩
  intro j hj
  have hmem := getElem_mem' aps j hj
  obtain ⟨hs, hl⟩ := h.same _ hmem
  obtain ⟨b, hw, hf⟩ := hb.serve j hj
  obtain ⟨g, hg1, hg2⟩ := revOf_fit it _ hb.lock.pos (fun f hf => (hrevs f hf).2) k₀ b _ hf
  rw [hN, stateAt_lastIndex r _ hlock k hk' j b g (by simpa [r, revOf, stateAt] using hw) hg1, hg2 k]
  have hpl : (blkOf sh (aps[j]).strides).pre.length = sh.length := preOf_length sh _ hl
  rw [(mkFit_rev_runs sh _ hpl h.pos).2.2 k hk']
  have hlen : (FlatIt.offsets aps[j]).length = (prod sh).toNat := by
    rw [offsets_eq_coordAt aps[j] (by rw [hs]; exact hl) (by rw [hs]; exact h.pos), hs]; simp
  rw [List.getElem?_reverse (by rw [hlen]; exact hk'), hlen,
    flat_offset aps[j] sh hs hl h.pos ((prod sh).toNat - 1 - k) (by show _ < (prod sh).toNat; omega)]
  congr 1
  exact (dot_coordAt_agree sh _ _ (preOf_agree sh _ hl (hz _ hmem)) _).symm

/-! ## block sharing -/

/-- **Block sharing is unobservable** on equally shaped operands (no guard): the iterator with sharing and the iterator in which every operand has its own block are both built,
    their calls return the same values, and after every number `k ≤ ∏ sh` of calls they show the same
    `LastIndex(j)` for every operand and the same `Done()`. -/
theorem sharing_unobservable (aps : List AP) (sh : Shape) (h : SameShape aps sh) :
    ∃ it₁ it₂, MultIt.newWith true aps = .ok it₁ ∧ MultIt.newWith false aps = .ok it₂ ∧
      ∀ k, k ≤ count sh →
        (MultIt.nextN k it₁).2 = (MultIt.nextN k it₂).2 ∧
        ((MultIt.nextN k it₁).1.isDone).2 = ((MultIt.nextN k it₂).1.isDone).2 ∧
        ∀ j, j < aps.length → ((MultIt.nextN k it₁).1).lastIndex j = ((MultIt.nextN k it₂).1).lastIndex j := by
  obtain ⟨it₁, hb₁⟩ := built true aps sh h.ne h.same h.pos
  obtain ⟨it₂, hb₂⟩ := built false aps sh h.ne h.same h.pos
  refine ⟨it₁, it₂, hb₁.new, hb₂.new, ?_⟩
  intro k hk
  have hk' : k ≤ (prod sh).toNat := hk
  have hN₁ := nextN_lockstep it₁ _ hb₁.lock k hk'
  have hN₂ := nextN_lockstep it₂ _ hb₂.lock k hk'
  have hpos : 0 < aps.length := List.length_pos_iff.2 h.ne
  -- the iterator serving operand j is the same in both
  have hsame : ∀ j (hj : j < aps.length) (i : Nat), i < (prod sh).toNat →
      (stateAt it₁ (prod sh).toNat (i + 1)).lastIndex j = (stateAt it₂ (prod sh).toNat (i + 1)).lastIndex j := by
    intro j hj i hi
    obtain ⟨b₁, hw₁, hf₁⟩ := hb₁.serve j hj
    obtain ⟨b₂, hw₂, hf₂⟩ := hb₂.serve j hj
    rw [stateAt_lastIndex it₁ _ hb₁.lock i hi j b₁ _ hw₁ hf₁, stateAt_lastIndex it₂ _ hb₂.lock i hi j b₂ _ hw₂ hf₂]
  -- returned values: LastIndex(0) in both
  have hfirst : ∀ (share : Bool) (it : MultIt) (hb : Built share aps sh it) (i : Nat), i < (prod sh).toNat →
      lastOf (it.fits.map (fun f => iterF f (i + 1))) it.fit0 = (stateAt it (prod sh).toNat (i + 1)).lastIndex 0 := by
    intro share it hb i hi
    obtain ⟨b, hw, hf⟩ := hb.serve 0 hpos
    have hb0 : b = 0 := by
      have := hb.which0; rw [hw] at this; injection this
    subst hb0
    rw [stateAt_lastIndex it _ hb.lock i hi 0 0 _ hw hf, hb.fit0, lastOf_map it.fits _ 0 _ hf]
    exact (hb.lock.runs _ (List.mem_of_getElem? hf)).last i hi
  refine ⟨?_, ?_, ?_⟩
  · rw [hN₁, hN₂]
    apply List.map_congr_left
    intro i hi
    simp only [List.mem_range] at hi
    rw [hfirst true it₁ hb₁ i (by omega), hfirst false it₂ hb₂ i (by omega), hsame 0 hpos i (by omega)]
  · rw [hN₁, hN₂, stateAt_isDone it₁ _ hb₁.lock k hk', stateAt_isDone it₂ _ hb₂.lock k hk']
  · intro j hj
    rw [hN₁, hN₂]
    cases k with
    | zero =>
      have e₁ : it₁.last = zeros aps.length := by
        have := hb₁.new
        cases aps with
        | nil => exact absurd rfl h.ne
        | cons a as =>
          simp only [MultIt.newWith] at this
          split at this <;> try cases this
          split at this <;> try cases this
          split at this <;> try cases this
          rfl
      have e₂ : it₂.last = zeros aps.length := by
        have := hb₂.new
        cases aps with
        | nil => exact absurd rfl h.ne
        | cons a as =>
          simp only [MultIt.newWith] at this
          split at this <;> try cases this
          split at this <;> try cases this
          split at this <;> try cases this
          rfl
      simp only [MultIt.lastIndex, stateAt, e₁, e₂]
    | succ i => exact hsame j hj i (by omega)

/-! ## the guard that is left; the regions of the repaired findings as ordinary inputs -/

/-- **The guard `NoZeroStride` is needed** (kernel-checked): two `(2)` operands, the second with stride 0 (a
    hand-made access pattern: one element repeated). Its own flat iterator yields 0, 0; `NewMultIterator`
    replaces the zero of the stride block by a one and walks 0, 1. -/
theorem zero_stride_guard_needed :
    ¬ (∀ (aps : List AP) (sh : Shape), SameShape aps sh →
        ∃ it, MultIt.newWith true aps = .ok it ∧
          ∀ k, k < count sh → ∀ j (hj : j < aps.length),
            (FlatIt.offsets aps[j])[k]? = some (((MultIt.nextN (k + 1) it).1).lastIndex j)) := by
  intro hall
  let aps : List AP := [{ shape := [2], strides := [1] }, { shape := [2], strides := [0] }]
  have hss : SameShape aps [2] := by
    refine ⟨by simp [aps], ?_, ?_⟩
    · intro ap hap
      simp only [aps, List.mem_cons, List.mem_nil_iff, or_false] at hap
      rcases hap with rfl | rfl <;> exact ⟨rfl, rfl⟩
    · intro d hd
      simp only [List.mem_cons, List.mem_nil_iff, or_false] at hd
      subst hd; decide
  obtain ⟨it, hnew, hrun⟩ := hall aps [2] hss
  have h1 := hrun 1 (by decide) 1 (by decide)
  have key : (match MultIt.newWith true aps with
      | .ok it => ((FlatIt.offsets aps[1])[1]? == some (((MultIt.nextN 2 it).1).lastIndex 1))
      | .error _ => true) = false := by decide
  rw [hnew] at key
  simp only [beq_eq_false_iff_ne, ne_eq] at key
  exact key h1

/-- a contiguous row vector (1,3) and a stepped view (1,3) with strides (6,2) (the witness of the repaired
    finding F100) -/
def rowAps : List AP := [{ shape := [1, 3], strides := [3, 1] }, { shape := [1, 3], strides := [6, 2] }]

/-- … satisfy the hypotheses of the main theorem … -/
example : SameShape rowAps [1, 3] ∧ ∀ ap ∈ rowAps, NoZeroStride [1, 3] ap.strides := by
  refine ⟨⟨by simp [rowAps], ?_, ?_⟩, ?_⟩
  · intro ap hap
    simp only [rowAps, List.mem_cons, List.mem_nil_iff, or_false] at hap
    rcases hap with rfl | rfl <;> exact ⟨rfl, rfl⟩
  · intro d hd
    simp only [List.mem_cons, List.mem_nil_iff, or_false] at hd
    rcases hd with rfl | rfl <;> decide
  · intro ap hap
    simp only [rowAps, List.mem_cons, List.mem_nil_iff, or_false] at hap
    rcases hap with rfl | rfl <;> exact ⟨Or.inl rfl, Or.inr (by decide), trivial⟩

/-- … and the run, evaluated: the stepped view is walked 0, 2, 4 — forwards, and backwards after a direction
    switch on the exhausted iterator (the witness of the repaired finding F101: the switch restarts) -/
example :
    (match MultIt.new rowAps with
     | .ok it =>
       ((List.range 3).map (fun k => ((MultIt.nextN (k + 1) it).1).last),
        (match ((MultIt.nextN 3 it).1).setReverse with
         | .ok r => (List.range 3).map (fun k => ((MultIt.nextN (k + 1) r).1).last)
         | .error _ => []))
     | .error _ => ([], [])) =
      ([[0, 0], [1, 2], [2, 4]], [[2, 4], [1, 2], [0, 0]]) ∧
    rowAps.map FlatIt.offsets = [[0, 1, 2], [0, 2, 4]] := by
  decide

/-- a multi-iterator over two (2) vectors run to exhaustion and switched to reverse (forward) yields again,
    like the flat iterator of the operand treated alike -/
example :
    let aps : List AP := [{ shape := [2], strides := [1] }, { shape := [2], strides := [2] }]
    (match MultIt.new aps with
     | .ok it =>
       ((MultIt.nextN 2 it).1).next.2 == none &&
       (match ((MultIt.nextN 2 it).1).setReverse with
        | .ok r => r.next.2 == some 1 && r.next.1.last == [1, 2]
        | .error _ => false) &&
       (match ((MultIt.nextN 2 it).1).setForward with
        | .ok r => r.next.2 == some 0 && (MultIt.nextN 2 r).1.last == [1, 2]
        | .error _ => false)
     | .error _ => false) = true ∧
    (match (FlatIt.run 2 (FlatIt.new { shape := [2], strides := [2] })).2.setReverse with
     | .ok r => r.next.2 == some 2
     | .error _ => false) = true := by
  decide

/-- a column-major `(1)` carries no strides (finding F24; outside `SameShape`): `NewMultIterator` builds the
    iterator all the same and yields the one element of either operand (the witness of the repaired finding
    F102) -/
example :
    (match MultIt.new [{ shape := [1], strides := [1] }, { shape := [1], strides := [] }] with
     | .ok it => (MultIt.nextN 2 it).2 == [some 0, none] && (MultIt.nextN 1 it).1.last == [0, 0]
     | .error _ => false) = true := by
  decide

/-! ## non-vacuity -/

/-- three (2,3) operands: contiguous, lazily transposed, stepped view — hypotheses of the main theorem -/
def exAps : List AP :=
  [{ shape := [2, 3], strides := [3, 1] }, { shape := [2, 3], strides := [1, 2] }, { shape := [2, 3], strides := [12, 2] }]

example : SameShape exAps [2, 3] := by
  refine ⟨by simp [exAps], ?_, ?_⟩
  · intro ap hap
    simp only [exAps, List.mem_cons, List.mem_nil_iff, or_false] at hap
    rcases hap with rfl | rfl | rfl <;> exact ⟨rfl, rfl⟩
  · intro d hd
    simp only [List.mem_cons, List.mem_nil_iff, or_false] at hd
    rcases hd with rfl | rfl <;> decide

example : ∀ ap ∈ exAps, NoZeroStride [2, 3] ap.strides := by
  intro ap hap
  simp only [exAps, List.mem_cons, List.mem_nil_iff, or_false] at hap
  rcases hap with rfl | rfl | rfl <;>
    exact ⟨Or.inr (by decide), Or.inr (by decide), trivial⟩

/-- … and the run itself, evaluated: the three `LastIndex` sequences are the three flat-iterator sequences;
    the first two operands and a repetition of the first share nothing observable -/
example :
    (match MultIt.new exAps with
     | .ok it => (List.range 6).map (fun k => ((MultIt.nextN (k + 1) it).1).last)
     | .error _ => []) =
      [[0, 0, 0], [1, 2, 2], [2, 4, 4], [3, 1, 12], [4, 3, 14], [5, 5, 16]] ∧
    exAps.map FlatIt.offsets = [[0, 1, 2, 3, 4, 5], [0, 2, 4, 1, 3, 5], [0, 2, 4, 12, 14, 16]] := by
  decide

/-- row and column vectors with any non-zero stride on the axis that moves satisfy the guard (a column-major
    `(1,n)` with its single stride is outside `SameShape`); the stride of an extent-1 axis may be anything -/
example : NoZeroStride [4, 1] [3, 0] := ⟨Or.inr (by decide), Or.inl rfl, trivial⟩
example : NoZeroStride [1, 4] [8, 2] := ⟨Or.inl rfl, Or.inr (by decide), trivial⟩
example : NoZeroStride [1, 1, 3] [9, 9, 2] := ⟨Or.inl rfl, Or.inl rfl, Or.inr (by decide), trivial⟩

end TM.C05mult
