import TensorModel.Proofs.Slice
import TensorModel.Proofs.Ltoi
/-! Helper lemmas for C04 (views, copies, whole-tensor writes). -/
namespace TM

/-! ### slicing: the drop loop of `AP.S` -/

/-- Re-inserting coordinate 0 at the dropped axes does not change the dot product with the
    un-dropped strides. `exp` is any function satisfying the equations of `expandCoord`. -/
theorem expand_drop_dot (exp : List Bool → List Int → List Int)
    (h1 : ∀ c, exp [] c = [])
    (h2 : ∀ ds c, exp (true :: ds) c = 0 :: exp ds c)
    (h3 : ∀ ds ci c, exp (false :: ds) (ci :: c) = ci :: exp ds c)
    (p : AxisRes × Bool → Bool) (l : List (AxisRes × Bool)) (c : List Int)
    (hc : c.length = (l.filter (fun x => !p x)).length) :
    (exp (l.map p) c).length = l.length ∧
    dot (exp (l.map p) c) (l.map (·.1.stride)) =
      dot c ((l.filter (fun x => !p x)).map (·.1.stride)) := by
  induction l generalizing c with
  | nil =>
    cases c with
    | nil => simp [h1, dot]
    | cons _ _ => simp at hc
  | cons x xs ih =>
    cases hp : p x with
    | true =>
      have hc' : c.length = (xs.filter (fun x => !p x)).length := by simpa [hp] using hc
      obtain ⟨il, id⟩ := ih c hc'
      simp only [List.map_cons, hp, h2, List.length_cons, il, dot, Int.zero_mul, Int.zero_add, id,
        List.filter_cons, Bool.not_true, Bool.false_eq_true, if_false, true_and]
    | false =>
      cases c with
      | nil => simp [hp] at hc
      | cons ci cs =>
        have hc' : cs.length = (xs.filter (fun x => !p x)).length := by simpa [hp] using hc
        obtain ⟨il, id⟩ := ih cs hc'
        simp only [List.map_cons, hp, h3, List.length_cons, il, dot, id,
          List.filter_cons, Bool.not_false, if_true, true_and]

/-- The address computed by a view built by the non-scalar branch of `AP.S`. -/
theorem slice_addr' (sel : List (Option Sl) → Shape → List (Int × Int))
    (hnil : ∀ sls, sel sls [] = [])
    (hcons : ∀ sls d ds, sel sls (d :: ds) = selAxis sls.head?.join d :: sel sls.tail ds)
    (exp : List Bool → List Int → List Int)
    (h1 : ∀ c, exp [] c = [])
    (h2 : ∀ ds c, exp (true :: ds) c = 0 :: exp ds c)
    (h3 : ∀ ds ci c, exp (false :: ds) (ci :: c) = ci :: exp ds c)
    (ap nap : AP) (size ndStart ndEnd : Int) (sls : List (Option Sl)) (rs : List AxisRes)
    (hloop : apSLoop (isVector ap.shape) (if !ap.o.col || isVector ap.shape then 0 else ap.shape.length - 1) 0
      ap.shape ap.strides sls = .ok rs)
    (h : ap.S size sls = .ok (nap, ndStart, ndEnd)) (hns : ndEnd - ndStart ≠ 1)
    (c : List Int) (hc : c.length = nap.shape.length) :
    ndStart + dot c nap.strides =
      dot (List.zipWith (fun (p : Int × Int) ci => p.1 + ci * p.2) (sel sls ap.shape)
        (exp ((rs.zip (sls.map Option.isSome ++ List.replicate rs.length false)).map
          (fun (r, given) => r.n == 1 && given)) c)) ap.strides := by
  unfold AP.S at h
  simp only [bind, Except.bind, pure, Except.pure] at h
  split at h
  · cases h
  · simp only [hloop] at h
    split at h
    · rename_i hone
      injection h with h
      injection h with _ h
      injection h with hs he
      subst hs he
      exact absurd (by simpa using hone) hns
    · injection h with h
      injection h with hnap h
      injection h with hs he
      subst hnap hs he
      simp only at hc ⊢
      simp only [List.length_map] at hc
      have hrl : rs.length = ap.shape.length :=
        (apSLoop_addr' _ _ sel hnil hcons ap.shape ap.strides sls rs 0 hloop
          (List.replicate ap.shape.length 0) (by simp)).1
      generalize hl : rs.zip (List.map Option.isSome sls ++ List.replicate rs.length false) = l at hc ⊢
      have hll : l.length = rs.length := by
        rw [← hl]; simp [List.length_zip]
      have hfst : l.map (·.1) = rs := by
        rw [← hl]; exact List.map_fst_zip (by simp)
      obtain ⟨el, ed⟩ := expand_drop_dot exp h1 h2 h3 (fun x => x.1.n == 1 && x.2) l c hc
      have ha := (apSLoop_addr' _ _ sel hnil hcons ap.shape ap.strides sls rs 0 hloop
        (exp (l.map (fun x => x.1.n == 1 && x.2)) c) (by rw [el, hll, hrl])).2
      rw [← ha, List.map_map]
      have ed' := ed
      rw [show List.map (fun x : AxisRes × Bool => x.1.stride) l = List.map (fun x => x.stride) rs by
        rw [← hfst, List.map_map]; rfl] at ed'
      rw [ed']
      rfl

/-! ### folds of `St.set` / `St.mset` -/

theorem St.set_heap_size {s s' : St} {w : Win} {i : Int} {v : Val} (h : s.set w i v = .ok s') :
    s'.heap.size = s.heap.size := by
  obtain ⟨b, _, _, _, _, rfl⟩ := St.set_ok h
  simp

theorem St.mset_heap {s s' : St} {w : Win} {i : Int} {v : Bool} (h : s.mset w i v = .ok s') :
    s'.heap = s.heap := by
  unfold St.mset at h
  split at h
  · cases h
  · split at h
    · cases h
    · split at h
      · injection h with h; subst h; rfl
      · cases h

/-- generic invariant of a successful `foldlM` in `Res` -/
theorem foldlM_inv {α σ : Type} (f : σ → α → Res σ) (P : σ → Prop) (l : List α)
    (hstep : ∀ s a s', a ∈ l → f s a = .ok s' → P s → P s') :
    ∀ (s s' : σ), l.foldlM f s = .ok s' → P s → P s' := by
  induction l with
  | nil =>
    intro s s' h hP
    simp only [List.foldlM_nil, pure, Except.pure] at h
    injection h with h; subst h; exact hP
  | cons a l ih =>
    intro s s' h hP
    simp only [List.foldlM_cons, bind, Except.bind] at h
    cases hf : f s a with
    | error e => simp [hf] at h
    | ok s1 =>
      simp only [hf] at h
      exact ih (fun s a s' ha => hstep s a s' (List.mem_cons_of_mem _ ha)) s1 s' h
        (hstep s a s1 List.mem_cons_self hf hP)

/-- a fold of writes of the same value `v`: every listed offset reads `v` afterwards -/
theorem foldlM_set_get (w : Win) (v : Val) (i : Int) :
    ∀ (l : List Int) (s s' : St), l.foldlM (fun s j => s.set w j v) s = .ok s' →
      (i ∈ l ∨ s.get w i = .ok v) → s'.get w i = .ok v := by
  intro l
  induction l with
  | nil =>
    intro s s' h hi
    simp only [List.foldlM_nil, pure, Except.pure] at h
    injection h with h; subst h
    rcases hi with hi | hi
    · cases hi
    · exact hi
  | cons a l ih =>
    intro s s' h hi
    simp only [List.foldlM_cons, bind, Except.bind] at h
    cases hf : s.set w a v with
    | error e => simp [hf] at h
    | ok s1 =>
      simp only [hf] at h
      apply ih s1 s' h
      by_cases hia : i = a
      · subst hia; exact Or.inr (St.get_set_same hf)
      · rcases hi with hi | hi
        · rcases List.mem_cons.mp hi with hi | hi
          · exact absurd hi hia
          · exact Or.inl hi
        · exact Or.inr ((St.get_set_other hf hia).trans hi)

/-- a fold of writes at offsets `l` leaves every cell not addressed by `l` unchanged -/
theorem foldlM_set_frame (w : Win) (v : Val) (l : List Int) (s s' : St)
    (h : l.foldlM (fun s j => s.set w j v) s = .ok s') (b k : Nat)
    (hout : b ≠ w.buf ∨ ∀ i ∈ l, (k : Int) ≠ w.off + i) :
    (s'.heap[b]?).bind (·[k]?) = (s.heap[b]?).bind (·[k]?) := by
  refine foldlM_inv (fun s j => s.set w j v)
    (fun x => (x.heap[b]?).bind (·[k]?) = (s.heap[b]?).bind (·[k]?)) l ?_ s s' h rfl
  intro s1 a s2 ha hs hP
  rw [← hP]
  apply St.set_frame hs
  rcases hout with hb | hk
  · exact Or.inl hb
  · exact Or.inr (hk a ha)

theorem memset_writes' (st st' : St) (t : Dense) (v : Val) (hm : t.isMaterializable = true)
    (h : t.memset st v = .ok st') (i : Int) (hi : i ∈ t.offsets) :
    st'.get t.win i = .ok v := by
  unfold Dense.memset at h
  simp only [hm, if_true] at h
  exact foldlM_set_get t.win v i t.offsets st st' h (Or.inl hi)

theorem memset_frame' (st st' : St) (t : Dense) (v : Val) (hm : t.isMaterializable = true)
    (h : t.memset st v = .ok st') (b k : Nat)
    (hout : b ≠ t.win.buf ∨ ∀ i ∈ t.offsets, (k : Int) ≠ t.win.off + i) :
    (st'.heap[b]?).bind (·[k]?) = (st.heap[b]?).bind (·[k]?) := by
  unfold Dense.memset at h
  simp only [hm, if_true] at h
  exact foldlM_set_frame t.win v t.offsets st st' h b k hout

theorem foldlM_mset_heap (m : Win) (l : List Int) (s s' : St)
    (h : l.foldlM (fun s i => s.mset m i false) s = .ok s') : s'.heap = s.heap := by
  refine foldlM_inv (fun s i => s.mset m i false) (fun x => x.heap = s.heap) l ?_ s s' h rfl
  intro s1 a s2 _ hs hP
  rw [← hP]; exact St.mset_heap hs

theorem zero_frame' (st st' : St) (t : Dense) (hm : t.isMaterializable = true)
    (h : t.zero st = .ok st') (b k : Nat)
    (hout : b ≠ t.win.buf ∨ ∀ i ∈ t.offsets, (k : Int) ≠ t.win.off + i) :
    (st'.heap[b]?).bind (·[k]?) = (st.heap[b]?).bind (·[k]?) := by
  unfold Dense.zero at h
  simp only [bind, Except.bind] at h
  split at h
  · cases h
  · rename_i s1 hs1
    rw [memset_frame' s1 st' t Val.zero hm h b k hout]
    have : s1.heap = st.heap := by
      split at hs1
      · split at hs1
        · exact foldlM_mset_heap _ _ _ _ hs1
        · simp only [pure, Except.pure] at hs1; injection hs1 with hs1; rw [hs1]
      · simp only [pure, Except.pure] at hs1; injection hs1 with hs1; rw [hs1]
    rw [this]

/-! ### `rawCopy` and `clone` -/

/-- a successful `mapM` in `Res` computes `f` pointwise -/
theorem mapM_ok {α β : Type} (f : α → Res β) :
    ∀ (l : List α) (vals : List β), l.mapM f = .ok vals →
      ∀ (k : Nat) (a : α), l[k]? = some a → ∃ v, vals[k]? = some v ∧ f a = .ok v := by
  intro l
  induction l with
  | nil => intro vals _ k a hk; simp at hk
  | cons x xs ih =>
    intro vals h k a hk
    simp only [List.mapM_cons, bind, Except.bind, pure, Except.pure] at h
    cases hx : f x with
    | error e => simp [hx] at h
    | ok y =>
      simp only [hx] at h
      cases hxs : xs.mapM f with
      | error e => simp [hxs] at h
      | ok ys =>
        simp only [hxs] at h
        injection h with h; subst h
        cases k with
        | zero =>
          simp only [List.getElem?_cons_zero, Option.some.injEq] at hk
          subst hk
          exact ⟨y, by simp, hx⟩
        | succ k =>
          simp only [List.getElem?_cons_succ] at hk ⊢
          exact ih ys hxs k a hk

theorem rangeI_getElem? (n k : Nat) (h : k < n) : (rangeI n)[k]? = some (k : Int) := by
  simp [rangeI, h]

/-- the write loop of `rawCopy`: cells `j, j+1, …` of the destination window receive `vals`, cells
    below `j` and all other buffers keep their content -/
theorem rawCopy_wr_spec (dst : Win) :
    ∀ (vals : List Val) (s s' : St) (j : Int), Dense.rawCopy.wr dst s j vals = .ok s' →
      (∀ b k : Nat, b ≠ dst.buf → (s'.heap[b]?).bind (·[k]?) = (s.heap[b]?).bind (·[k]?)) ∧
      (∀ i, i < j → s'.get dst i = s.get dst i) ∧
      (∀ (k : Nat) v, vals[k]? = some v → s'.get dst (j + k) = .ok v) := by
  intro vals
  induction vals with
  | nil =>
    intro s s' j h
    simp only [Dense.rawCopy.wr] at h
    injection h with h; subst h
    exact ⟨fun _ _ _ => rfl, fun _ _ => rfl, fun k v hk => by simp at hk⟩
  | cons v vs ih =>
    intro s s' j h
    simp only [Dense.rawCopy.wr, bind, Except.bind] at h
    cases hs : s.set dst j v with
    | error e => simp [hs] at h
    | ok s1 =>
      simp only [hs] at h
      obtain ⟨hf, hlt, hget⟩ := ih s1 s' (j + 1) h
      refine ⟨?_, ?_, ?_⟩
      · intro b k hb
        rw [hf b k hb]
        exact St.set_frame hs b k (Or.inl hb)
      · intro i hi
        rw [hlt i (by omega)]
        exact St.get_set_other hs (by omega)
      · intro k w hk
        cases k with
        | zero =>
          simp only [List.getElem?_cons_zero, Option.some.injEq] at hk
          subst hk
          have : j + ((0 : Nat) : Int) = j := by omega
          rw [this, hlt j (by omega)]
          exact St.get_set_same hs
        | succ k =>
          simp only [List.getElem?_cons_succ] at hk
          have : j + ((k + 1 : Nat) : Int) = j + 1 + (k : Int) := by omega
          rw [this]
          exact hget k w hk

theorem rawCopy_spec (s s' : St) (dst src : Win) (h : Dense.rawCopy s dst src = .ok s') :
    (∀ b k : Nat, b ≠ dst.buf → (s'.heap[b]?).bind (·[k]?) = (s.heap[b]?).bind (·[k]?)) ∧
    (∀ k : Nat, k < min dst.len src.len → ∃ v, s.get src k = .ok v ∧ s'.get dst k = .ok v) := by
  unfold Dense.rawCopy at h
  simp only [bind, Except.bind] at h
  cases hv : (rangeI (min dst.len src.len)).mapM (fun i => s.get src i) with
  | error e => simp [hv] at h
  | ok vals =>
    simp only [hv] at h
    obtain ⟨hf, _, hget⟩ := rawCopy_wr_spec dst vals s s' 0 h
    refine ⟨hf, ?_⟩
    intro k hk
    obtain ⟨v, hvk, hg⟩ := mapM_ok _ _ vals hv k (k : Int) (rangeI_getElem? _ k hk)
    refine ⟨v, hg, ?_⟩
    have := hget k v hvk
    simpa using this

/-- unfolding of `Clone()` on an unmasked tensor -/
theorem clone_unfold (st st' : St) (t r : Dense) (hnm : t.mask = none) (h : t.clone st = .ok (st', r)) :
    r = { ap := { t.ap with fin := true }, old := t.old, tw := t.tw,
          win := ⟨st.heap.size, 0, t.win.len, t.win.len⟩, dt := t.dt, eng := t.eng } ∧
    Dense.rawCopy { st with heap := st.heap.push (Array.replicate t.win.len Val.zero) }
      ⟨st.heap.size, 0, t.win.len, t.win.len⟩ t.win = .ok st' := by
  unfold Dense.clone Dense.copyDense Dense.copyMask St.alloc at h
  simp only [hnm, bind, Except.bind, pure, Except.pure] at h
  split at h
  · cases h
  · injection h with h
    injection h with h1 h2
    subst h1 h2
    rename_i s1 hs1
    exact ⟨rfl, hs1⟩

theorem push_cell (heap : Heap) (x : Array Val) (b k : Nat) (hb : b < heap.size) :
    ((heap.push x)[b]?).bind (·[k]?) = (heap[b]?).bind (·[k]?) := by
  rw [Array.getElem?_push_lt hb]
  simp [hb]

theorem clone_fresh' (st st' : St) (t r : Dense) (hnm : t.mask = none) (h : t.clone st = .ok (st', r)) :
    r.win.buf = st.heap.size ∧ r.win.off = 0 ∧ r.win.len = t.win.len ∧
    r.ap.shape = t.ap.shape ∧ r.ap.strides = t.ap.strides ∧ r.ap.o = t.ap.o ∧ r.view = false ∧
    (∀ b k : Nat, b < st.heap.size → (st'.heap[b]?).bind (·[k]?) = (st.heap[b]?).bind (·[k]?)) := by
  obtain ⟨hr, hc⟩ := clone_unfold st st' t r hnm h
  subst hr
  refine ⟨rfl, rfl, rfl, rfl, rfl, rfl, rfl, ?_⟩
  intro b k hb
  rw [(rawCopy_spec _ _ _ _ hc).1 b k (by simp only; omega)]
  exact push_cell st.heap _ b k hb

theorem get_push (st : St) (x : Array Val) (w : Win) (i : Int) (hb : w.buf < st.heap.size) :
    St.get { st with heap := st.heap.push x } w i = st.get w i := by
  unfold St.get
  simp only [Array.getElem?_push_lt hb]
  simp [hb]

theorem clone_eq' (st st' : St) (t r : Dense) (hnm : t.mask = none) (h : t.clone st = .ok (st', r))
    (hwf : t.win.buf < st.heap.size) (i : Int) (hi : 0 ≤ i ∧ i < t.win.len) :
    st'.get r.win i = st.get t.win i := by
  obtain ⟨hr, hc⟩ := clone_unfold st st' t r hnm h
  subst hr
  obtain ⟨v, hg, hs⟩ := (rawCopy_spec _ _ _ _ hc).2 i.toNat (by simp only [Nat.min_self]; omega)
  have hii : ((i.toNat : Nat) : Int) = i := by omega
  rw [hii] at hg hs
  rw [get_push st _ t.win i hwf] at hg
  rw [hg]
  exact hs

theorem copyTo_refuses_views' (st : St) (t other : Dense) (hv : t.view = true ∨ other.view = true)
    (hs : other.size = t.size) :
    ∃ tag, t.copyTo st other = .error (.err tag) := by
  unfold Dense.copyTo
  have hc : (!t.view && !other.view) = false := by
    rcases hv with hv | hv <;> simp [hv]
  simp only [hs, bne_self_eq_false, hc, bind, Except.bind]
  exact ⟨_, rfl⟩

theorem materialize_self' (st : St) (t : Dense) (h : t.isMaterializable = false) :
    t.materialize st = .ok (st, none) := by
  unfold Dense.materialize
  simp [h]
  rfl

end TM
