import TensorModel.Proto
/-!
  S — the specification: an n-dimensional array is a shape plus its elements listed in row-major
  order of coordinates; every operation is defined coordinate-wise. There are no strides, offsets,
  windows or iterators here. Aliasing is expressed extensionally: a tensor is a list of references
  to abstract cells of a store, so a view is simply a tensor referring to some of its parent's cells.
-/
namespace TM

/-- logical array: shape and the row-major listing of its elements -/
structure LA (α : Type) where
  shape : Shape
  elems : List α
deriving Repr, Inhabited

/-- rank of a coordinate in row-major order -/
def rowRank (shape : Shape) (c : List Int) : Int := dot c (calcStrides shape)
/-- rank of a coordinate in column-major order -/
def colRank (shape : Shape) (c : List Int) : Int := dot c (prefixProds 1 shape)

def inBox : Shape → List Int → Bool
  | [], [] => true
  | d :: ds, c :: cs => decide (0 ≤ c) && decide (c < d) && inBox ds cs
  | _, _ => false

def LA.at {α} (a : LA α) (c : List Int) : Option α :=
  if inBox a.shape c then getI? a.elems (rowRank a.shape c) else none

def LA.tabulate {α} (shape : Shape) (f : List Int → Option α) : Option (LA α) :=
  ((allCoords shape).mapM f).map (fun es => ⟨shape, es⟩)

/-- one axis of a slicing request after validation: source index of result position `c` is
    `start + c*step`; `n` result entries; `drop` = the statement allows this axis to be dropped -/
structure AxisSel where
  start : Int
  n : Int
  step : Int
  drop : Bool
deriving Repr

inductive SpecRes (α : Type) where
  | ok (a : α)
  | reject            -- must be rejected with an error
  | undef             -- outside the specification's domain (no verdict)
deriving Repr

/-- C02 per axis: ranges that are reversed, negative, start past the axis or have a zero step over
    more than one element are rejected; `end` is clamped; `ceil((end-start)/step)` entries.
    Empty ranges and negative steps are outside the domain. -/
def axisSel (s : Option Sl) (d : Int) : SpecRes AxisSel :=
  match s with
  | none => .ok ⟨0, d, 1, false⟩
  | some s =>
    if s.start > s.stop || s.start < 0 || s.start ≥ d || (s.step == 0 && s.stop - s.start > 1) then .reject
    else
      let e := if s.stop > d then d else s.stop
      if e == s.start || s.step < 0 then .undef
      else if s.step == 0 then .ok ⟨s.start, 1, 1, true⟩
      else
        let n := (e - s.start + s.step - 1) / s.step
        .ok ⟨s.start, n, s.step, n == 1⟩

def axisSels : List (Option Sl) → Shape → SpecRes (List AxisSel)
  | _, [] => .ok []
  | sls, d :: ds =>
    match axisSel sls.head?.join d, axisSels sls.tail ds with
    | .ok a, .ok as => .ok (a :: as)
    | .reject, _ => .reject
    | _, .reject => .reject
    | _, _ => .undef

/-- `Nd.slice`: element `c` of the result is element `start + c*step` of the source (per axis). -/
def LA.slice {α} (a : LA α) (sels : List AxisSel) : Option (LA α) :=
  LA.tabulate (sels.map (·.n)) (fun c => a.at (List.zipWith (fun (s : AxisSel) ci => s.start + ci * s.step) sels c))

/-- `Nd.transpose p`: result shape `i ↦ shape[pᵢ]`; result element `c` is source element `c'`
    with `c'[pᵢ] = cᵢ`. -/
def LA.transpose {α} (a : LA α) (p : List Nat) : Option (LA α) :=
  let sh := p.map (fun i => a.shape[i]?.getD 1)
  let n := a.shape.length
  LA.tabulate sh (fun c =>
    let src := (List.range n).map (fun j => match p.findIdx? (· == j) with
      | some i => c[i]?.getD 0
      | none => 0)
    a.at src)

def isPerm (p : List Int) (n : Nat) : Bool :=
  p.length == n && (List.range n).all (fun j => p.contains (Int.ofNat j))

end TM
