import TensorModel.Proofs.Slice
import TensorModel.Proofs.Ltoi
/-! Helper lemmas for C04 (views, copies, whole-tensor writes). -/
namespace TM

end TM
