import TensorModel.Proofs.ShapeAlg
import TensorModel.Proofs.CoreEq
import TensorModel.Proofs.Inject
/-!
  C13 — shape algebra agrees with execution; reshape; metadata invariant.
  Property theorems only; helper lemmas live in `TensorModel/Proofs/ShapeAlg.lean`.
-/
namespace TM.C13

/-- `Shape.S` and `AP.S` refuse (with an error) exactly the same slice lists. -/
theorem shapeS_err_iff_apS_err (ap : AP) (size : Int) (sls : List (Option Sl))
    (hl : ap.strides.length = ap.shape.length) :
    (∃ tag, shapeS ap.shape sls = .error (.err tag)) ↔ (∃ tag, ap.S size sls = .error (.err tag)) := by
  constructor
  · intro ⟨tag, h⟩; exact ⟨tag, (ShapeAlg.shapeS_error_iff_apS_error ap size sls hl _).1 h⟩
  · intro ⟨tag, h⟩; exact ⟨tag, (ShapeAlg.shapeS_error_iff_apS_error ap size sls hl _).2 h⟩

/-- Neither of them panics on a pattern with one stride per axis. -/
theorem shapeS_apS_no_panic (ap : AP) (size : Int) (sls : List (Option Sl))
    (hl : ap.strides.length = ap.shape.length) :
    (∀ tag, shapeS ap.shape sls ≠ .error (.panic tag)) ∧ (∀ tag, ap.S size sls ≠ .error (.panic tag)) := by
  refine ⟨fun tag => ShapeAlg.shapeS_not_panic _ _ tag, fun tag h => ?_⟩
  exact ShapeAlg.shapeS_not_panic _ _ tag ((ShapeAlg.shapeS_error_iff_apS_error ap size sls hl _).2 h)

/-- Agreement of the predicted and the executed shape — partial: outside the defect regions
    F3 (`Shape.S` floors stepped lengths: `Excl_shapeSFloor`) and F25 (one-cell windows become
    scalars: `ndEnd - ndStart = 1`). -/
theorem shapeS_eq_apS_partial (ap nap : AP) (size ndStart ndEnd : Int) (sls : List (Option Sl))
    (hl : ap.strides.length = ap.shape.length)
    (h : ap.S size sls = .ok (nap, ndStart, ndEnd)) (hns : ndEnd - ndStart ≠ 1)
    (hx : Excl_shapeSFloor ap.shape sls = false) :
    shapeS ap.shape sls = .ok nap.shape := by
  have _ := hl  -- implied by `h`; not needed
  exact ShapeAlg.shapeS_eq_apS_of_excl ap nap size ndStart ndEnd sls h hns hx

/-- The full statement fails (finding F3): witness (2,5)[:, 0:5:2]. -/
theorem shapeS_eq_apS_full_fails :
    ∃ (ap nap : AP) (s e : Int) (sls : List (Option Sl)),
      ap.strides.length = ap.shape.length ∧ ap.S 10 sls = .ok (nap, s, e) ∧ e - s ≠ 1 ∧
      (match shapeS ap.shape sls with | .ok sh => sh != nap.shape | _ => true) = true := by
  exact ⟨{ shape := [2, 5], strides := [5, 1] }, _, _, _, [none, some ⟨0, 5, 2⟩], rfl, rfl, by decide, by decide⟩

/-- `Reshape` refuses a shape of different total size with an error and leaves the tensor as it is. -/
theorem reshape_size_mismatch (st : St) (t : Dense) (dims : List Int)
    (h : totalSize t.shape ≠ totalSize dims) :
    ∃ t', t.reshape st dims = .ok (.errKept t') ∧ t' = t := by
  exact ⟨t, ShapeAlg.reshape_mismatch st t dims h, rfl⟩

/-- On a plain tensor (no pending transpose, window = size) a reshape of equal size succeeds, sets the
    requested shape with the default strides of the tensor's own data order, and touches neither the
    storage nor the window: the flat element sequence in the tensor's data order is preserved. -/
theorem reshape_plain (st : St) (t : Dense) (dims : List Int)
    (hsz : totalSize t.shape = totalSize dims) (hold : t.old = none) (hv : t.view = false)
    (hlen : (t.win.len : Int) = totalSize dims) (hne : dims ≠ []) :
    ∃ t', t.reshape st dims = .ok (.ok st t') ∧ t'.win = t.win ∧ t'.ap.shape = dims ∧
      t'.ap.strides = Dense.defaultStrides t.ap.o.col dims ∧ t'.ap.o = t.ap.o := by
  exact ⟨_, ShapeAlg.reshape_plain' st t dims hsz hold hv hlen hne, rfl, rfl, rfl, rfl⟩

/-- A "covering" access pattern: one non-negative stride per axis, positive dimensions, and the
    largest address lies inside a window of `len` cells. (All in-box addresses are then in-window.) -/
def Covers (ap : AP) (len : Int) : Prop :=
  ap.strides.length = ap.shape.length ∧ (∀ s ∈ ap.strides, 0 ≤ s) ∧ (∀ d ∈ ap.shape, 0 < d) ∧
    dot (ap.shape.map (· - 1)) ap.strides < len

/-- Every in-box coordinate of a covering pattern addresses a cell of the window. -/
theorem covers_inbox (ap : AP) (len : Int) (h : Covers ap len) (c : List Int) (hc : inBox ap.shape c = true) :
    0 ≤ dot c ap.strides ∧ dot c ap.strides < len := by
  obtain ⟨_, hs, _, hlt⟩ := h
  have := ShapeAlg.dot_box_bounds ap.shape ap.strides c hs hc
  exact ⟨this.1, by omega⟩

/-- Default row-major strides cover exactly the backing. -/
theorem covers_default (shape : Shape) (hpos : ∀ d ∈ shape, 0 < d) :
    Covers { shape := shape, strides := calcStrides shape } (prod shape) := by
  refine ⟨calcStrides_length shape, ShapeAlg.calcStrides_nonneg shape hpos, hpos, ?_⟩
  show dot (shape.map (· - 1)) (calcStrides shape) < prod shape
  rw [ShapeAlg.dot_calcStrides_max]; omega

/-- **Slicing preserves the invariant** (non-negative steps, non-empty ranges; the scalar special
    case included), hence nested slicing to any depth stays in bounds. -/
theorem slice_covers (ap nap : AP) (size ndStart ndEnd : Int) (sls : List (Option Sl))
    (hcov : Covers ap size)
    (hstep : ∀ s ∈ sls, ∀ x, s = some x → 0 ≤ x.step ∧ x.start < x.stop)
    (h : ap.S size sls = .ok (nap, ndStart, ndEnd)) :
    0 ≤ ndStart ∧ ndStart ≤ ndEnd ∧ ndEnd ≤ size ∧ Covers nap (ndEnd - ndStart) := by
  obtain ⟨_, hs, hd, hlt⟩ := hcov
  exact ShapeAlg.apS_cov ap nap size ndStart ndEnd sls hs hd hlt hstep h

/-- Lazy transposition preserves the invariant, for every pattern — two-dimensional vectors (whose long axis keeps
    its stride) included (rank ≤ 5 through `unsafePermute_gather`). -/
theorem T_covers (ap tap : AP) (len : Int) (axes ax' : List Int) (hr : ap.shape.length ≤ 5)
    (hcov : Covers ap len) (hp : isPerm axes ap.shape.length = true)
    (h : ap.T axes = .ok (.ok tap ax')) :
    Covers tap len := by
  obtain ⟨hl, hs, hd, hlt⟩ := hcov
  exact ShapeAlg.apT_cov ap tap len axes ax' hr hl hs hd hlt hp h

-- non-vacuity
example : Covers { shape := [2, 3], strides := [3, 1] } 6 := by
  refine ⟨rfl, ?_, ?_, by decide⟩ <;> intro x hx <;> simp at hx <;> omega
-- a column of a 3×3 matrix as a (3, 1) vector with strides (3, 1) over a window of 7 cells, and its transpose
example : Covers { shape := [3, 1], strides := [3, 1] } 7 := by
  refine ⟨rfl, ?_, ?_, by decide⟩ <;> intro x hx <;> simp at hx <;> omega
example : (match ({ shape := [3, 1], strides := [3, 1] } : AP).T [] with
  | .ok (.ok tap _) => tap.shape == [1, 3] && tap.strides == [1, 3] | _ => false) = true := by decide

/-! ## distinct positions: different in-box coordinates address different cells -/

/-- default row-major strides address distinct cells -/
theorem default_distinct (shape : Shape) : InjectivePat shape (calcStrides shape) :=
  fun c c' hc hc' h => rowRank_inj' shape c c' hc hc' h

/-- default column-major strides (one per axis) address distinct cells -/
theorem default_col_distinct (shape : Shape) : InjectivePat shape (prefixProds 1 shape) :=
  fun c c' hc hc' h => colRank_inj' shape c c' hc hc' h

/-- **Transposition preserves distinctness**: permuting shape and strides by any permutation of the axes (what
    `AP.T` does, `apT_gather`) keeps distinct coordinates on distinct cells. Any rank. -/
theorem T_distinct (p : List Int) (shape strides : List Int) (hp : isPerm p shape.length = true)
    (hl : strides.length = shape.length) (h : InjectivePat shape strides) :
    InjectivePat (gatherI p shape) (gatherI p strides) :=
  gather_injective hp shape strides rfl hl h

example : InjectivePat (gatherI [1, 0] [2, 3]) (gatherI [1, 0] (calcStrides [2, 3])) :=
  T_distinct [1, 0] [2, 3] _ (by decide) (by decide) (default_distinct [2, 3])

/-! ## the source of the shape calculator

`shape.go:Shape.S` — per-axis lengths through `SliceDetails`, then the in-place loop that deletes the
dimensions of extent one selected by a non-nil slice while adjusting its own counters (`d--`, `dims--`,
`offset++`) — is translated by `tools/gol` on every run; `Proofs/CoreEq.lean` proves the translation equal to
the model function `shapeS` (value / error class) for every shape and slice list. -/

theorem ShapeS_source_is_model (s : Shape) (sls : List (Option Sl)) :
    Gen.clsE (Gen.Shape_S s sls) = Gen.clsM (shapeS s sls) := Gen.Shape_S_eq s sls

/-- hence: the source calculator refuses exactly when the executed slicing (`AP.S`, model) refuses -/
theorem ShapeS_source_err_iff_apS_err (ap : AP) (size : Int) (sls : List (Option Sl))
    (hlen : ap.strides.length = ap.shape.length) :
    Gen.clsE (Gen.Shape_S ap.shape sls) = .err ↔ ∃ t, ap.S size sls = .error (.err t) := by
  rw [ShapeS_source_is_model, ← shapeS_err_iff_apS_err ap size sls hlen]
  constructor
  · intro h
    cases hr : shapeS ap.shape sls with
    | ok v => rw [hr] at h; cases h
    | error e => cases e with
      | err t => exact ⟨t, rfl⟩
      | panic t => rw [hr] at h; cases h
  · intro ⟨t, h⟩; rw [h]; rfl

-- (finding F3 at work: the stepped axis 1:4:2 has two elements, the source floors it to one and then drops it)
example : Gen.clsE (Gen.Shape_S [2, 3, 4] [some ⟨0, 1, 1⟩, none, some ⟨1, 4, 2⟩]) = .val [3] := by decide
example : Gen.clsE (Gen.Shape_S [2, 3, 4] [some ⟨0, 1, 1⟩, none, some ⟨0, 4, 2⟩]) = .val [3, 2] := by decide

end TM.C13
