import TensorModel.Proofs.Iter
import TensorModel.Proofs.CoreEq
/-!
  C05 — iterators visit every logical element exactly once, in logical order.
  Property theorems only; helper lemmas live in `TensorModel/Proofs/Iter.lean`.
-/
namespace TM.C05

/-- S: the offsets of the logical elements in row-major order of coordinates. -/
def specOffsets (ap : AP) : List Int := (allCoords ap.shape).map (fun c => dot c ap.strides)

/-- A well-formed access pattern for iteration: one stride per axis, positive dimensions. -/
def WFit (ap : AP) : Prop := ap.strides.length = ap.shape.length ∧ ∀ d ∈ ap.shape, 0 < d

/-- The n-dimensional odometer (`ndNext`) yields exactly the row-major offsets, for every rank,
    shape and stride vector (any strides: views, transposes, steps). -/
theorem ndNext_run (ap : AP) (wf : WFit ap) (hnv : ap.isVectorLike = false) :
    FlatIt.offsets ap = specOffsets ap := by
  unfold FlatIt.offsets specOffsets totalSize
  rw [nd_run_full ap wf.1 wf.2 hnv, spec_eq ap.shape ap.strides wf.2]

/-- The vector-like fast path (`singleNext`) yields `0,1,…,n-1`, which are the row-major offsets
    because all strides are one. -/
theorem single_run (ap : AP) (wf : WFit ap) (hv : ap.isVectorLike = true) (hns : ap.shape ≠ []) :
    FlatIt.offsets ap = specOffsets ap := by
  have hv' := hv
  simp only [AP.isVectorLike, Bool.and_eq_true] at hv'
  unfold FlatIt.offsets specOffsets totalSize
  rw [vec_run_full ap wf.2 hv hns, veclike_spec ap.shape ap.strides wf.1 wf.2 hv'.1 hv'.2]

/-- A scalar yields offset 0 once. -/
theorem scalar_run (ap : AP) (hs : ap.shape = []) : FlatIt.offsets ap = [0] := by
  unfold FlatIt.offsets
  rw [scalar_run_full ap hs]

/-- Every logical element exactly once: as many offsets as elements. -/
theorem run_length (ap : AP) (wf : WFit ap) : (FlatIt.offsets ap).length = (totalSize ap.shape).toNat := by
  have hspec : (specOffsets ap).length = (totalSize ap.shape).toNat := by
    simp [specOffsets, totalSize, allCoords_length ap.shape wf.2]
  by_cases hs : ap.shape = []
  · rw [scalar_run ap hs]; simp [hs, totalSize, prod]
  · by_cases hv : ap.isVectorLike = true
    · rw [single_run ap wf hv hs, hspec]
    · rw [ndNext_run ap wf (by simpa using hv), hspec]

/-- After the run the iterator reports exhaustion and further `Next` calls return the no-op error
    without changing state. -/
theorem run_exhausts (ap : AP) (wf : WFit ap) :
    let itf := (FlatIt.run ((totalSize ap.shape).toNat + 1) (FlatIt.new ap)).2
    itf.done = true ∧ itf.next = (itf, none) := by
  exact run_final ap wf.1 wf.2

/-- Reverse iteration of the odometer path: exactly the reverse sequence. -/
theorem reverse_run (ap : AP) (wf : WFit ap) (hnv : ap.isVectorLike = false) (it : FlatIt)
    (h : (FlatIt.new ap).setReverse = .ok it) :
    (FlatIt.run ((totalSize ap.shape).toNat + 1) it).1 = (specOffsets ap).reverse := by
  rw [ndRevSt_zero ap wf.1 wf.2 hnv] at h
  cases h
  unfold specOffsets totalSize
  rw [nd_rev_run_full ap wf.1 wf.2 hnv, spec_eq ap.shape ap.strides wf.2]

/-- Reverse iteration of the vector-like fast path (after the `fix:` of `Reset`). -/
theorem reverse_single_run (ap : AP) (wf : WFit ap) (hv : ap.isVectorLike = true) (hns : ap.shape ≠ []) (it : FlatIt)
    (h : (FlatIt.new ap).setReverse = .ok it) :
    (FlatIt.run ((totalSize ap.shape).toNat + 1) it).1 = (specOffsets ap).reverse := by
  have hv' := hv
  simp only [AP.isVectorLike, Bool.and_eq_true] at hv'
  rw [vecRevSt_zero ap wf.1 wf.2 hv hns] at h
  cases h
  unfold specOffsets totalSize
  rw [vec_rev_run_full ap hv hns, veclike_spec ap.shape ap.strides wf.1 wf.2 hv'.1 hv'.2]

/-- `Reset` restarts: after any number of `Next` calls, `Reset` followed by a full run yields the
    complete sequence again. -/
theorem reset_restarts (ap : AP) (wf : WFit ap) (k : Nat) (it : FlatIt)
    (h : ((FlatIt.run k (FlatIt.new ap)).2).reset = .ok it) :
    (FlatIt.run ((totalSize ap.shape).toNat + 1) it).1 = FlatIt.offsets ap := by
  have _ := wf
  rw [reset_forward ap _ it (run_cfg k (FlatIt.new ap)) h]
  exact run_li _ _ _

/-- The coordinate reported after `k` steps of the odometer is the `k`-th coordinate in row-major
    order (wrapping to all zeros on exhaustion). -/
theorem coord_tracks (ap : AP) (wf : WFit ap) (hnv : ap.isVectorLike = false) (k : Nat)
    (hk : k < (allCoords ap.shape).length) :
    ((FlatIt.run k (FlatIt.new ap)).2).track = (allCoords ap.shape)[k]! := by
  exact nd_track ap wf.1 wf.2 hnv k hk

-- non-vacuity
example : WFit { shape := [2, 3], strides := [1, 2] } := by
  constructor
  · rfl
  · intro d hd; simp at hd; omega
example : FlatIt.offsets { shape := [2, 3], strides := [1, 2] } = [0, 2, 4, 1, 3, 5] := by decide

/-! ## the source of the fast-path decision

`newFlatIterator` takes the single-counter fast path when `AP.IsVectorLike` holds (shape vector-like and
all strides one). The shape part is `shape.go:Shape.IsVectorLike`; its source, translated by `tools/gol`
on this run, is the model predicate used in `ndNext_run` / `single_run`. -/

theorem IsVectorLike_source (s : Shape) : Gen.Shape_IsVectorLike s = .ok (isVectorLike s) :=
  Gen.Shape_IsVectorLike_eq s

/-- stated outright: the source answers "at most one axis differs from 1" -/
theorem IsVectorLike_source_spec (s : Shape) :
    Gen.Shape_IsVectorLike s = .ok (decide ((s.filter (· != 1)).length ≤ 1)) := by
  rw [IsVectorLike_source]; rfl

example : Gen.clsV (Gen.Shape_IsVectorLike [1, 5, 1]) = .val true ∧ Gen.clsV (Gen.Shape_IsVectorLike [2, 5, 1]) = .val false := by decide

end TM.C05
