package main

// C05mult — program generator for the multi-iterator (family MultIter, step `multi`), chained into C05.
//
// Domain
//   operands:  2 and 3 (a few 4) tensors of ONE shape, element type i16 (u8 at low volume);
//   shapes:    rank 0-4 incl. vectors (n), row / column vectors (1,n) (n,1), (1,1,n) (1,n,1) (n,1,1), all-ones
//              shapes of every rank, vector-like shapes of rank 4, proper matrices / 3- / 4-tensors with and
//              without extent-1 axes;
//   layouts (per operand, every pair on every shape in the quick tier, every triple in the thorough tier):
//              contig, lazyT (lazily transposed), sliced (offset slice), stepped (stepped slice), colmajor (Fraw),
//              colconv (Fconv), mat (materialised view), tcol (row vector = one column of a (1,n,3) tensor: inner stride 3), plus the operand patterns: the same variable twice, two tensors with the
//              same strides (block sharing), first/second operand swapped, a shared block between two different ones;
//   scripts:   N, rN, nnxN, nrN, Nd and mixed ones (direction switches before / in the middle of / after a
//              run, Start, Reset after exhaustion, Coord / Done / LastIndex observations in between);
//   silent stream (S gives no line; Go = M is still compared): unequal shapes (broadcastable, not
//              broadcastable, scalar + tensor, vector + row vector), masked operands (one / two / three masks);
//   malformed stream: one operand, no script, unknown variables, unknown script letters.

import (
	"fmt"
)

var multShapes = [][]int{
	{}, {1}, {3}, {4},
	{2, 3}, {3, 2}, {1, 3}, {3, 1}, {1, 1}, {2, 2}, {1, 4}, {4, 1},
	{2, 2, 2}, {1, 1, 3}, {1, 3, 1}, {3, 1, 1}, {2, 1, 3}, {1, 2, 3}, {2, 3, 1}, {1, 1, 1},
	{2, 1, 2, 2}, {1, 1, 1, 3}, {1, 3, 1, 1}, {1, 1, 1, 1}, {1, 2, 1, 2}, {2, 2, 1, 1},
}
var multShapesThorough = [][]int{{2, 2, 2, 2}, {3, 1, 2, 2}, {2, 3, 4}, {5}, {1, 5}, {5, 1}, {3, 3}, {1, 1, 2, 1}}
var multLayouts = []string{"contig", "lazyT", "sliced", "stepped", "colmajor", "colconv", "mat", "tcol"}
var multScripts = []string{"N", "rN", "nnxN", "nrN", "Nd"}
var multMixed = []string{
	"ncnlNd", "rnnfN", "NrN", "NfN", "NxN", "sN", "nnsnN", "rNfN", "NrdN", "rNxN", "Nxnn", "dNd", "lnlxl",
	"rncncN", "nrnfnN", "NdrNd", "rNdrN", "nNsnd", "rsN", "NNxrN", "cNc", "rnxnfnN",
}

// multOperand builds one operand of logical shape sh (the layout classes of g.operand plus `tcol`).
func (g *gen) multOperand(steps *[]string, nv *int, dt string, sh []int, layout string) int {
	add := func(s string) int { *steps = append(*steps, s); v := *nv; *nv++; return v }
	if layout == "tcol" {
		// (1,n): one column of a (1,n,3) tensor (the sliced axis is dropped) — strides (3n,3); other shapes: stepped
		if len(sh) == 2 && sh[0] == 1 && sh[1] > 1 {
			p := add(fmt.Sprintf("new %s 1,%d,3 C", dt, sh[1]))
			j := g.r.intn(3)
			return add(fmt.Sprintf("slice $%d n,n,%d:%d", p, j, j+1))
		}
		layout = "stepped"
	}
	return g.operand(steps, nv, dt, sh, layout)
}

// multProgram: the operands (one per layout; "=k" repeats operand k's variable), then the multi step(s).
func (g *gen) multProgram(dt string, sh []int, layouts []string, scripts []string, order []int, dump bool) {
	var steps []string
	nv := 0
	vars := make([]int, len(layouts))
	for i, l := range layouts {
		if len(l) == 2 && l[0] == '=' {
			vars[i] = vars[int(l[1]-'0')]
			continue
		}
		vars[i] = g.multOperand(&steps, &nv, dt, sh, l)
	}
	if dump {
		for i, l := range layouts {
			if l[0] != '=' {
				steps = append(steps, fmt.Sprintf("dump $%d", vars[i]))
			}
		}
	}
	ops := ""
	for k := range vars {
		j := k
		if order != nil {
			j = order[k]
		}
		ops += fmt.Sprintf(" $%d", vars[j])
	}
	for _, sc := range scripts {
		steps = append(steps, "multi"+ops+" "+sc)
	}
	g.emit(steps...)
}

func genC05mult(g *gen) {
	shs := multShapes
	if g.thorough() {
		shs = append(append([][]int{}, multShapes...), multShapesThorough...)
	}
	allScripts := append(append([]string{}, multScripts...), multMixed...)
	pickScripts := func() []string {
		// one main script and one mixed script per program
		return []string{g.r.pick(multScripts), g.r.pick(multMixed)}
	}
	for _, sh := range shs {
		// --- pairs: every (layout, layout) cell ---------------------------------------------------------
		for _, la := range multLayouts {
			for _, lb := range multLayouts {
				if g.thorough() {
					for _, sc := range allScripts {
						g.multProgram("i16", sh, []string{la, lb}, []string{sc}, nil, false)
					}
				} else {
					g.multProgram("i16", sh, []string{la, lb}, pickScripts(), nil, false)
				}
			}
		}
		// --- every script on a few layout pairs -----------------------------------------------------------
		for _, sc := range allScripts {
			la, lb := g.r.pick(multLayouts), g.r.pick(multLayouts)
			g.multProgram("i16", sh, []string{la, lb}, []string{sc}, nil, false)
			// the same variable twice / the same strides twice (block sharing)
			g.multProgram("i16", sh, []string{la, "=0"}, []string{sc}, nil, false)
			g.multProgram("i16", sh, []string{la, la}, []string{sc}, nil, false)
		}
		// --- triples ------------------------------------------------------------------------------------------
		ntr := 40
		if g.thorough() {
			ntr = 0
			for _, la := range multLayouts {
				for _, lb := range multLayouts {
					for _, lc := range multLayouts {
						g.multProgram("i16", sh, []string{la, lb, lc}, pickScripts(), nil, false)
					}
				}
			}
		}
		for k := 0; k < ntr; k++ {
			la, lb, lc := g.r.pick(multLayouts), g.r.pick(multLayouts), g.r.pick(multLayouts)
			g.multProgram("i16", sh, []string{la, lb, lc}, pickScripts(), nil, false)
		}
		// --- sharing patterns among three / four operands, swapped orders ---------------------------------------
		for k := 0; k < 6; k++ {
			la, lb := g.r.pick(multLayouts), g.r.pick(multLayouts)
			sc := pickScripts()
			g.multProgram("i16", sh, []string{la, lb, "=0"}, sc, nil, false)           // A B A: the third shares the first block
			g.multProgram("i16", sh, []string{la, lb, la}, sc, nil, false)             // same strides, another tensor
			g.multProgram("i16", sh, []string{la, "=0", lb}, sc, nil, false)           // A A B
			g.multProgram("i16", sh, []string{la, lb}, sc, []int{1, 0}, false)         // swapped
			g.multProgram("i16", sh, []string{la, lb, lb}, sc, []int{2, 0, 1}, false)  // rotated
			g.multProgram("u8", sh, []string{la, lb, la, lb}, sc, nil, false)          // four operands, two blocks
		}
	}
	// --- silent stream: unequal shapes -------------------------------------------------------------------------
	unequal := [][2][]int{
		{{2, 3}, {3, 2}}, {{2, 3}, {1, 3}}, {{1, 3}, {2, 3}}, {{2, 3}, {3}}, {{3}, {2, 3}}, {{2, 3}, {}}, {{}, {2, 3}},
		{{6}, {1, 6}}, {{1, 6}, {6}}, {{3}, {4}}, {{3}, {1}}, {{3, 1}, {1, 3}}, {{1, 3}, {3, 1}}, {{2, 2, 2}, {2, 2}},
		{{2, 2}, {2, 2, 2}}, {{4}, {2, 2}}, {{2, 1, 3}, {2, 3}}, {{1, 1}, {3}}, {{3}, {1, 1}}, {{2, 3}, {2, 1}},
	}
	for _, pr := range unequal {
		for _, sc := range []string{"N", "rN", "nnxNd"} {
			var steps []string
			nv := 0
			a := g.multOperand(&steps, &nv, "i16", pr[0], g.r.pick(multLayouts[:4]))
			b := g.multOperand(&steps, &nv, "i16", pr[1], g.r.pick(multLayouts[:4]))
			steps = append(steps, fmt.Sprintf("multi $%d $%d %s", a, b, sc))
			g.emit(steps...)
		}
	}
	// --- silent stream: masks -----------------------------------------------------------------------------------
	for _, sh := range [][]int{{3}, {2, 3}, {1, 3}, {2, 1, 2}} {
		n := size(sh)
		for _, mk := range [][]string{{"alt", "none"}, {"none", "alt"}, {"alt", "rand"}, {"ones", "zeros"}, {"rand", "rand", "rand"}, {"alt", "none", "rand"}} {
			for _, sc := range []string{"N", "xN", "rNxN", "sNd", "dN"} {
				var steps []string
				ops := ""
				for i, m := range mk {
					steps = append(steps, fmt.Sprintf("mnew i16 %s C %s", ints(sh), g.maskBits(n, m)))
					ops += fmt.Sprintf(" $%d", i)
				}
				if g.r.chance(1, 2) && len(sh) >= 2 {
					steps = append(steps, fmt.Sprintf("T $0 %s", ints(g.randPerm(len(sh)))))
				}
				steps = append(steps, "multi"+ops+" "+sc)
				g.emit(steps...)
			}
		}
	}
	// --- malformed stream ------------------------------------------------------------------------------------------
	for _, s := range [][]string{
		{"multi"}, {"multi N"}, {"new i16 2,3 C", "multi $0 N"}, {"new i16 2,3 C", "multi $0 $0"},
		{"new i16 2,3 C", "multi $0 $1 N"}, {"new i16 2,3 C", "multi $0 $0 zq"}, {"new i16 2,3 C", "multi $0 $0 -"},
		{"new i16 2,3 C", "new i16 2,3 C", "multi $0,$1 N"}, {"new i16 2,3 C", "new i16 2,3 C", "new i16 2,3 C", "multi $0 $1 $2"},
		{"new i16 2,3 C", "new f64 2,3 C", "multi $0 $1 N"}, {"new i16 2,3 C", "slice $0 5:9", "multi $0 $1 N"},
		{"multi $0 $1 N"},
	} {
		g.emit(s...)
	}
}

func init() {
	generators["C05mult"] = genC05mult
}
