import TensorModel.Run
/-! Helper lemmas for C03 (transposition). -/
namespace TM

/-! ### naturality of `UnsafePermute` -/

theorem swapAt_map {α β} (f : α → β) (xs : List α) (i j : Nat) :
    swapAt (xs.map f) i j = (swapAt xs i j).map f := by
  unfold swapAt
  simp only [List.getElem?_map]
  cases xs[i]? <;> cases xs[j]? <;> simp [List.map_set]

theorem permuteLoop_map {α β} (f : α → β) (p : List Int) (dims : Nat) :
    ∀ (fuel i : Nat) (xs : List α),
      permuteLoop p dims fuel i (xs.map f) = (permuteLoop p dims fuel i xs).map (List.map f)
  | 0, _, _ => rfl
  | fuel + 1, i, xs => by
    unfold permuteLoop
    split
    · rfl
    · split
      · rfl
      · split
        · rfl
        · split
          · rfl
          · rw [swapAt_map, permuteLoop_map f p dims fuel]

/-- the part of `unsafePermute` after validation -/
def permTail {α} (p : List Int) (xs : List α) : Res (PermRes α) :=
  if ((isMonotonicInts p).1 && (isMonotonicInts p).2) = true then .ok .noop
  else if xs.length ≤ 1 then .ok (.ok xs)
  else if (xs.length == 2) = true then
    match xs with
    | [a, b] => .ok (.ok [b, a])
    | _ => .ok (.ok xs)
  else (permuteLoop p xs.length xs.length 0 xs).map PermRes.ok

theorem unsafePermute_eq {α} (p : List Int) (xs : List α) :
    unsafePermute p xs =
      if (p.length != xs.length) = true then throwErr "dimMismatch"
      else match unsafePermute.check xs.length [] p with
        | .error e => .error e
        | .ok _ => permTail p xs := by
  unfold unsafePermute permTail
  simp only []
  split
  · rfl
  · cases unsafePermute.check xs.length [] p with
    | error e => rfl
    | ok u =>
      simp only [bind, Except.bind, pure, Except.pure]
      split
      · rfl
      · split
        · rfl
        · split
          · match xs with
            | [] => rfl
            | [_] => rfl
            | [_, _] => rfl
            | _ :: _ :: _ :: _ => rfl
          · cases permuteLoop p xs.length xs.length 0 xs <;> rfl

def PermRes.map {α β} (f : α → β) : PermRes α → PermRes β
  | .ok ys => .ok (ys.map f)
  | .noop => .noop

theorem permTail_map {α β} (f : α → β) (p : List Int) (xs : List α) :
    permTail p (xs.map f) = (permTail p xs).map (PermRes.map f) := by
  unfold permTail
  simp only [List.length_map]
  split
  · rfl
  · split
    · rfl
    · split
      · match xs with
        | [] => rfl
        | [_] => rfl
        | [_, _] => rfl
        | _ :: _ :: _ :: _ => rfl
      · rw [permuteLoop_map]
        cases permuteLoop p xs.length xs.length 0 xs <;> rfl

theorem unsafePermute_map' {α β} (f : α → β) (p : List Int) (xs : List α) :
    unsafePermute p (xs.map f) = (unsafePermute p xs).map (PermRes.map f) := by
  rw [unsafePermute_eq, unsafePermute_eq]
  simp only [List.length_map]
  split
  · rfl
  · cases unsafePermute.check xs.length [] p with
    | error e => rfl
    | ok u => exact permTail_map f p xs

/-! ### patterns accepted by `isPerm` are permutations of `0..n-1` -/

theorem perm_of_nodup_subset {α} [DecidableEq α] :
    ∀ (l₁ l₂ : List α), l₁.Nodup → l₁ ⊆ l₂ → l₂.length ≤ l₁.length → l₁.Perm l₂
  | [], l₂, _, _, h => by
    cases l₂ with
    | nil => exact .nil
    | cons => simp at h
  | a :: t, l₂, hd, hs, hl => by
    have ha : a ∈ l₂ := hs List.mem_cons_self
    have hd' := List.nodup_cons.1 hd
    have hsub : t ⊆ l₂.erase a := fun x hx =>
      (List.mem_erase_of_ne (by rintro rfl; exact hd'.1 hx)).2 (hs (List.mem_cons_of_mem _ hx))
    have hlen : (l₂.erase a).length ≤ t.length := by
      rw [List.length_erase_of_mem ha]; simp at hl; omega
    exact ((perm_of_nodup_subset t _ hd'.2 hsub hlen).cons a).trans (List.perm_cons_erase ha).symm

theorem rangeI_nodup (n : Nat) : (rangeI n).Nodup := by
  unfold rangeI List.Nodup
  rw [List.pairwise_map]
  exact List.Pairwise.imp (fun h e => h (Int.ofNat.inj e)) (List.nodup_range (n := n))

theorem isPerm_iff (p : List Int) (n : Nat) :
    isPerm p n = true ↔ p.length = n ∧ ∀ j, j < n → (Int.ofNat j) ∈ p := by
  simp [isPerm]

theorem rangeI_length (n : Nat) : (rangeI n).length = n := by simp [rangeI]

theorem mem_rangeI {n : Nat} {x : Int} : x ∈ rangeI n ↔ ∃ j, j < n ∧ Int.ofNat j = x := by
  simp [rangeI]

theorem isPerm_perm {p : List Int} {n : Nat} (h : isPerm p n = true) : (rangeI n).Perm p := by
  obtain ⟨hl, hm⟩ := (isPerm_iff p n).1 h
  refine perm_of_nodup_subset _ _ (rangeI_nodup n) ?_ (by rw [rangeI_length, hl]; exact Nat.le_refl _)
  intro x hx
  obtain ⟨j, hj, rfl⟩ := mem_rangeI.1 hx
  exact hm j hj

/-- all lists of length `k` over `l` -/
def cands (l : List Int) : Nat → List (List Int)
  | 0 => [[]]
  | k + 1 => l.flatMap (fun x => (cands l k).map (x :: ·))

theorem mem_cands (l : List Int) : ∀ (p : List Int), (∀ x ∈ p, x ∈ l) → p ∈ cands l p.length
  | [], _ => by simp [cands]
  | a :: t, h => by
    simp only [cands, List.length_cons, List.mem_flatMap, List.mem_map]
    exact ⟨a, h a List.mem_cons_self, t, mem_cands l t (fun x hx => h x (List.mem_cons_of_mem _ hx)), rfl⟩

theorem isPerm_mem_cands {p : List Int} {n : Nat} (h : isPerm p n = true) : p ∈ cands (rangeI n) n := by
  have hp := isPerm_perm h
  have := mem_cands (rangeI n) p (fun x hx => hp.symm.subset hx)
  rwa [((isPerm_iff p n).1 h).1] at this

/-! ### `UnsafePermute` on `0..n-1`, by enumeration for `n ≤ 5` -/

def rangeOK (n : Nat) (p : List Int) : Bool :=
  match unsafePermute p (rangeI n) with
  | .ok (.ok q) => !((isMonotonicInts p).1 && (isMonotonicInts p).2) && q == p
  | .ok .noop => (isMonotonicInts p).1 && (isMonotonicInts p).2
  | .error _ => false

theorem rangeOK_spec {n : Nat} {p : List Int} (h : rangeOK n p = true) :
    unsafePermute p (rangeI n) =
      .ok (if (isMonotonicInts p).1 && (isMonotonicInts p).2 then PermRes.noop else PermRes.ok p) := by
  unfold rangeOK at h
  split at h
  · next q hq =>
    simp only [Bool.and_eq_true, Bool.not_eq_true', beq_iff_eq] at h
    rw [hq, h.1, h.2]; rfl
  · next hq => rw [hq, h]; rfl
  · cases h

def allRangeOK (n : Nat) : Bool := (cands (rangeI n) n).all (fun p => !isPerm p n || rangeOK n p)

theorem allRangeOK_le5 : ∀ n, n ≤ 5 → allRangeOK n = true := by decide +kernel

theorem unsafePermute_rangeI (n : Nat) (hn : n ≤ 5) (p : List Int) (hp : isPerm p n = true) :
    unsafePermute p (rangeI n) =
      .ok (if (isMonotonicInts p).1 && (isMonotonicInts p).2 then PermRes.noop else PermRes.ok p) := by
  have h := allRangeOK_le5 n hn
  unfold allRangeOK at h
  rw [List.all_eq_true] at h
  have := h p (isPerm_mem_cands hp)
  rw [hp] at this
  exact rangeOK_spec (by simpa using this)

/-! ### `UnsafePermute` is the gather by the pattern -/

theorem map_rangeI_getElem {α} [Inhabited α] (xs : List α) :
    (rangeI xs.length).map (fun i => xs[i.toNat]!) = xs := by
  apply List.ext_getElem
  · simp [rangeI]
  · intro i h₁ h₂
    simp [rangeI, h₂]

theorem unsafePermute_getElem {α} [Inhabited α] (p : List Int) (xs : List α) (hn : xs.length ≤ 5)
    (hp : isPerm p xs.length = true)
    (hni : ¬ ((isMonotonicInts p).1 && (isMonotonicInts p).2) = true) :
    unsafePermute p xs = .ok (PermRes.ok (p.map (fun i => xs[i.toNat]!))) := by
  have h := unsafePermute_map' (fun i : Int => xs[i.toNat]!) p (rangeI xs.length)
  rw [map_rangeI_getElem, unsafePermute_rangeI _ hn p hp, if_neg hni] at h
  exact h

/-! ### gathering coordinates and strides by the same permutation preserves `dot` -/

theorem sumI_perm {l₁ l₂ : List Int} (h : l₁.Perm l₂) : sumI l₁ = sumI l₂ := by
  induction h with
  | nil => rfl
  | cons x _ ih => simp [sumI, ih]
  | swap x y l => simp only [sumI]; omega
  | trans _ _ ih₁ ih₂ => exact ih₁.trans ih₂

theorem dot_map_map {α} (f g : α → Int) : ∀ l : List α,
    dot (l.map f) (l.map g) = sumI (l.map (fun a => f a * g a))
  | [] => rfl
  | a :: t => by simp [dot, sumI, dot_map_map f g t]

theorem dot_eq_sumI_range : ∀ (c s : List Int), c.length = s.length →
    dot c s = sumI ((List.range c.length).map (fun k => c[k]! * s[k]!))
  | [], [], _ => rfl
  | [], _ :: _, h => by simp at h
  | _ :: _, [], h => by simp at h
  | a :: c, b :: s, h => by
    have ih := dot_eq_sumI_range c s (by simpa using h)
    simp only [dot, List.length_cons, List.range_succ_eq_map, List.map_cons, List.map_map, sumI, ih]
    rfl

theorem dot_getElem_perm (p : List Int) (n : Nat) (hp : isPerm p n = true) (c s : List Int)
    (hc : c.length = n) (hs : s.length = n) :
    dot (p.map (fun i => c[i.toNat]!)) (p.map (fun i => s[i.toNat]!)) = dot c s := by
  rw [dot_map_map, ← sumI_perm ((isPerm_perm hp).map _), dot_eq_sumI_range c s (hc.trans hs.symm), hc]
  simp [rangeI, Function.comp_def]

/-! ### `AP.T` and `Dense.T` -/

theorem apT_getElem (ap : AP) (axes : List Int) (hr : ap.shape.length ≤ 5)
    (hl : ap.strides.length = ap.shape.length)
    (hp : isPerm axes ap.shape.length = true) (hne : axes ≠ [])
    (hnse : isScalarEquiv ap.shape = false) (hnv : isVector ap.shape = false)
    (hni : ¬ ((isMonotonicInts axes).1 && (isMonotonicInts axes).2) = true) :
    ap.T axes = .ok (.ok { shape := axes.map (fun i => ap.shape[i.toNat]!),
                           strides := axes.map (fun i => ap.strides[i.toNat]!), fin := true,
                           o := { ap.o with transposed := true } } axes) := by
  have hlen := ((isPerm_iff _ _).1 hp).1
  have hsh := unsafePermute_getElem axes ap.shape hr hp hni
  have hst := unsafePermute_getElem axes ap.strides (hl ▸ hr) (hl ▸ hp) hni
  have hemp : axes.isEmpty = false := by cases axes <;> simp_all
  have hni' : ((isMonotonicInts axes).1 && (isMonotonicInts axes).2) = false := by simpa using hni
  unfold AP.T
  simp only [hlen, hemp, hnse, hnv, Bool.false_eq_true, if_false, hsh, hst, hni', bne_self_eq_false,
    Bool.and_false, Bool.false_and, bind, Except.bind, pure, Except.pure]

/-! ### `AP.T` of a two-dimensional vector -/

/-- a two-dimensional vector has one axis of extent one and one longer axis -/
theorem isVector_two (a b : Int) (hv : isVector [a, b] = true) : (a = 1 ∧ 1 < b) ∨ (b = 1 ∧ 1 < a) := by
  simp only [isVector, isColVec, isRowVec, List.length_cons, List.length_nil, Bool.or_eq_true, Bool.and_eq_true,
    beq_iff_eq, decide_eq_true_eq] at hv
  omega

/-- `AP.T` of a two-dimensional vector (no axes = the reversal, or the axes `(1, 0)`): the shape is swapped, the axis
    that holds the elements keeps its stride -/
theorem apT_vector2 (ap : AP) (a b s0 s1 : Int) (hsh : ap.shape = [a, b]) (hst : ap.strides = [s0, s1])
    (hv : isVector [a, b] = true) (axes : List Int) (hax : axes = [] ∨ axes = [1, 0]) :
    ap.T axes = .ok (.ok { shape := [b, a], strides := vectorTStrides b s0 s1, fin := true,
                           o := { ap.o with transposed := true } } [1, 0]) := by
  have hnse : isScalarEquiv [a, b] = false := by
    rcases isVector_two a b hv with ⟨h1, h2⟩ | ⟨h1, h2⟩
    · have : (b == 1) = false := by simp; omega
      simp [isScalarEquiv, this]
    · have : (a == 1) = false := by simp; omega
      simp [isScalarEquiv, this]
  have hm : isMonotonicInts [1, 0] = (false, false) := by decide
  rcases hax with rfl | rfl
  · unfold AP.T
    simp [hsh, hst, hnse, hv, rangeI, hm, List.range, List.range.loop, pure, Except.pure]
  · unfold AP.T
    simp [hsh, hst, hnse, hv, hm, pure, Except.pure]

/-- the transposed vector addresses the same cells: element `(i, j)` of the result is element `(j, i)` of the
    source, whatever the source's strides are -/
theorem vectorT_dot (a b s0 s1 i j : Int) (hv : isVector [a, b] = true)
    (hi : 0 ≤ i ∧ i < b) (hj : 0 ≤ j ∧ j < a) :
    dot [i, j] (vectorTStrides b s0 s1) = dot [j, i] [s0, s1] := by
  rcases isVector_two a b hv with ⟨h1, h2⟩ | ⟨h1, h2⟩
  · have hj0 : j = 0 := by omega
    subst hj0
    simp [vectorTStrides, h2, dot]
  · have hi0 : i = 0 := by omega
    subst hi0
    have : ¬ b > 1 := by omega
    simp [vectorTStrides, this, dot]

/-! ### `Transpose()` of a vector with a pending transpose: no data movement, same addresses -/

theorem copyPrefix_full : ∀ (ds es : List Int), es.length = ds.length → Dense.copyPrefix ds es = es
  | [], [], _ => rfl
  | [], _ :: _, h => by simp at h
  | _ :: _, [], h => by simp at h
  | _ :: ds, e :: es, h => by
    simp only [Dense.copyPrefix]
    rw [copyPrefix_full ds es (by simpa using h)]

theorem vectorKeepStrides_length : ∀ (sh : Shape) (es ss : List Int),
    (Dense.vectorKeepStrides sh es ss).length = es.length
  | [], _, _ => by simp [Dense.vectorKeepStrides]
  | _ :: _, [], _ => by simp [Dense.vectorKeepStrides]
  | _ :: _, _ :: _, [] => by simp [Dense.vectorKeepStrides]
  | _ :: ds, _ :: es, _ :: ss => by
    simp only [Dense.vectorKeepStrides, List.length_cons]
    rw [vectorKeepStrides_length ds es ss]

/-- the strides installed for a vector address the same cell as the strides it had, for every in-box coordinate:
    an axis of extent one only ever sees the coordinate 0, every other axis keeps its stride -/
theorem vectorKeepStrides_dot : ∀ (sh : Shape) (es ss c : List Int), es.length = sh.length → ss.length = sh.length →
    inBox sh c = true → dot c (Dense.vectorKeepStrides sh es ss) = dot c ss
  | [], [], [], c, _, _, _ => by cases c <;> simp [Dense.vectorKeepStrides, dot]
  | [], _ :: _, _, _, h, _, _ => by simp at h
  | [], [], _ :: _, _, _, h, _ => by simp at h
  | _ :: _, [], _, _, h, _, _ => by simp at h
  | _ :: _, _ :: _, [], _, _, h, _ => by simp at h
  | _ :: _, _ :: _, _ :: _, [], _, _, hb => by simp [inBox] at hb
  | d :: ds, e :: es, s :: ss, c0 :: cs, h1, h2, hb => by
    simp only [inBox, Bool.and_eq_true, decide_eq_true_eq] at hb
    have ih := vectorKeepStrides_dot ds es ss cs (by simpa using h1) (by simpa using h2) hb.2
    simp only [Dense.vectorKeepStrides, dot, ih]
    by_cases hd : (d != 1) = true
    · simp [hd]
    · have hd1 : d = 1 := by simpa using hd
      have hc0 : c0 = 0 := by omega
      subst hc0
      simp

/-- `Transpose()` of a vector (pending transpose, full-length strides; a view, or a tensor whose array is in the
    default layout of the pattern the transpose started from — another owner is compacted): the storage is untouched,
    the pending transpose is dropped and every in-box coordinate addresses the cell it addressed before -/
theorem transpose_vector (st : St) (t : Dense) (o : AP) (hold : t.old = some o) (hv : isVector t.shape = true)
    (hk : (t.view || Dense.isDefaultLayout o t.win.len) = true)
    (hns : isScalar t.shape = false) (hl : t.ap.strides.length = t.ap.shape.length)
    (hdl : (Dense.defaultStrides t.ap.o.col t.shape).length = t.ap.shape.length) :
    ∃ t', Dense.transpose st t = .ok (st, t') ∧ t'.old = none ∧ t'.shape = t.shape ∧ t'.win = t.win ∧
      ∀ c, inBox t.shape c = true → dot c t'.ap.strides = dot c t.ap.strides := by
  let st' : List Int := Dense.copyPrefix t.ap.strides
    (Dense.vectorKeepStrides t.shape (Dense.defaultStrides t.ap.o.col t.shape) t.ap.strides)
  let ap' : AP := { t.ap with strides := st' }
  refine ⟨{ t with ap := ap', old := none, tw := none }, ?_, rfl, rfl, rfl, ?_⟩
  · have hk' : (!t.view && !Dense.isDefaultLayout o t.win.len) = false := by
      cases h1 : t.view <;> cases h2 : Dense.isDefaultLayout o t.win.len <;> simp_all
    unfold Dense.transpose
    simp only [hold, hns, hv, hk', Bool.false_eq_true, if_false, if_true, pure, Except.pure]
    rfl
  · intro c hc
    show dot c (Dense.copyPrefix t.ap.strides (Dense.vectorKeepStrides t.shape _ t.ap.strides)) = _
    rw [copyPrefix_full _ _ (by rw [vectorKeepStrides_length]; exact hdl.trans hl.symm)]
    exact vectorKeepStrides_dot t.shape _ t.ap.strides c hdl hl hc

/-- the two possible outcomes of a successful `T` on a tensor with no pending transpose -/
theorem denseT_cases (st : St) (t : Dense) (axes : List Int) (hold : t.old = none) (st' : St)
    (t' : Dense) (h : Dense.T st t axes = .ok (st', t')) :
    st' = st ∧ (t' = t ∨ ∃ tr ax, t' = { t with old := some t.ap, tw := some ax, ap := tr }) := by
  unfold Dense.T at h
  cases hT : t.ap.T axes with
  | error e => simp [hT, bind, Except.bind] at h
  | ok r =>
    cases r with
    | noop a b =>
      simp [hT, bind, Except.bind, pure, Except.pure] at h
      exact ⟨h.1.symm, .inl h.2.symm⟩
    | ok tr ax =>
      simp [hT, bind, Except.bind, pure, Except.pure, hold] at h
      exact ⟨h.1.symm, .inr ⟨tr, ax, h.2.symm⟩⟩

theorem denseT_ut (st : St) (t t' : Dense) (axes : List Int) (hold : t.old = none)
    (htw : t.tw = none) (h : Dense.T st t axes = .ok (st, t')) : t'.ut = t := by
  obtain ⟨_, rfl | ⟨tr, ax, rfl⟩⟩ := denseT_cases st t axes hold st t' h
  · unfold Dense.ut; rw [hold]
  · cases t; simp_all [Dense.ut]

theorem denseT_pure (st st' : St) (t t' : Dense) (axes : List Int) (hold : t.old = none)
    (h : Dense.T st t axes = .ok (st', t')) : st' = st ∧ t'.win = t.win := by
  obtain ⟨hs, rfl | ⟨tr, ax, rfl⟩⟩ := denseT_cases st t axes hold st' t' h
  · exact ⟨hs, rfl⟩
  · exact ⟨hs, rfl⟩

end TM
