import TensorModel.Proofs.LinalgLemmas
import TensorModel.Proofs.FreshCopy
/-!
  C09 — linear-algebra products equal the textbook sums of products.

  The BLAS routines are third-party code modelled by contract (`TM.La.gemm`, `gemv`, `ger`, `dotu`:
  gonum's row-major reference semantics incl. its argument checks). The statements below are about
  the code under verification: the *mapping* from tensors (shape, strides, data order, pending
  transpose, storage window) to those calls — `TM.La.mmParams`, `mvParams`, `dotCase`, `mvCheck`,
  `mmCheck`, `outerCheck`, `traceOffsets`, `tmulAxesA` are the very functions the executable model
  `TM.La.stepM` runs, and that model is compared with the Go code on every run.
  Helper lemmas: `TensorModel/Proofs/LinalgLemmas.lean`.
-/
set_option linter.unusedSimpArgs false
namespace TM.C09
open TM.La

/-! ### Dispatch of `Dot` -/

/-- Rank table of `StdEng.Dot` (after both operands passed the float-only check), stated outright:
    rank-0 operands go to the scalar multiplications; vector forms `(n)`, `(n,1)`, `(1,n)` are looked
    at *before* matrices; everything that is not a vector/matrix pair goes to `TensorMul`. -/
theorem dot_dispatch (sa sb : Shape) :
    dotCase sa sb =
      (if sa = [] ∧ sb = [] then DotCase.scalarScalar
       else if sa = [] then DotCase.scalarLeft
       else if sb = [] then DotCase.scalarRight
       else if isVector sa = true ∧ isVector sb = true then DotCase.inner
       else if isVector sa = true ∧ sb.length = 2 then DotCase.vecMat
       else if isVector sa = false ∧ sa.length = 2 ∧ isVector sb = true then DotCase.matVec
       else if isVector sa = false ∧ sa.length = 2 ∧ sb.length = 2 then DotCase.matMat
       else DotCase.tensor) := by
  unfold dotCase isScalar isMatrix
  cases sa with
  | nil => cases sb <;> simp
  | cons a as =>
    cases sb with
    | nil => simp
    | cons b bs =>
      cases h1 : isVector (a :: as) <;> cases h2 : isVector (b :: bs) <;> simp <;>
        by_cases ha : as.length = 1 <;> by_cases hb : bs.length = 1 <;> simp [ha, hb]

/-- **Destinations of `Dot(vector, vector)`** (the former finding F55: this path ignored `WithReuse` /
    `WithIncr`). The reuse tensor is accepted exactly when it has the operands' element type and holds exactly
    one element — whatever its rank: `()`, `(1)`, `(1,1)`, … — and refused with an *error* otherwise; an
    accepted tensor goes on to `handleReuse` / `handleIncr` with the expected shape `()`, as in the matrix
    products (`dotCore`, case `.inner`). -/
theorem dot_inner_reuse_check (opDt reuseDt : String) (sh : Shape) :
    dotInnerReuseCheck opDt reuseDt sh =
      if reuseDt ≠ opDt then .error (.err "dtypeMismatch reuse")
      else if totalSize sh ≠ 1 then .error (.err "shapeMismatch reuse") else .ok () := by
  unfold dotInnerReuseCheck
  by_cases h1 : reuseDt = opDt <;> by_cases h2 : totalSize sh = 1 <;>
    simp [h1, h2, throwErr, bind, Except.bind, pure, Except.pure]

/-- non-vacuity: a rank-0 and a `(1,1)` tensor of the operands' type are accepted, a three-element tensor and a
    tensor of another float type are refused. -/
example : dotInnerReuseCheck "f64" "f64" [] = .ok () ∧ dotInnerReuseCheck "f64" "f64" [1, 1] = .ok () ∧
    dotInnerReuseCheck "f64" "f64" [3] = .error (.err "shapeMismatch reuse") ∧
    dotInnerReuseCheck "f64" "f32" [] = .error (.err "dtypeMismatch reuse") := ⟨rfl, rfl, rfl, rfl⟩

/-- `MatMul` refuses anything but two rank-2 operands … -/
theorem mm_refused_of_rank (ts os : Shape) (h : ts.length ≠ 2 ∨ os.length ≠ 2) :
    ∃ tag, mmCheck ts os = .error (.err tag) := by
  refine ⟨"MatMul requires both operands to be matrices", ?_⟩
  unfold mmCheck isMatrix
  rcases h with h | h <;> simp [h, throwErr, bind, Except.bind]

/-- … and on rank-2 operands answers the documented shape `(m, n)` exactly when the inner
    dimensions agree, an error otherwise. -/
theorem mm_shape (m k k' n : Int) :
    mmCheck [m, k] [k', n] = if k = k' then .ok [m, n] else .error (.err "shapeMismatch") := by
  unfold mmCheck isMatrix
  by_cases h : k = k' <;> simp [idx, getI?, h, throwErr, bind, Except.bind, pure, Except.pure]

/-- `MatVecMul` on a rank-2 left operand `(m, n)` and each vector form of length `k`: the documented
    shape `(m)` iff `k = n`, an error otherwise. -/
theorem mv_shape_vec (m n k : Int) :
    mvCheck [m, n] [k] = if k = n then .ok [m] else .error (.err "shapeMismatch") := by
  by_cases h : k = n <;>
    simp [mvCheck, isVector, isColVec, isRowVec, idx, getI?, h, throwErr, bind, Except.bind, pure, Except.pure]

theorem mv_shape_col (m n k : Int) (hk : 1 < k) :
    mvCheck [m, n] [k, 1] = if k = n then .ok [m] else .error (.err "shapeMismatch") := by
  by_cases h : k = n
  · subst h
    simp [mvCheck, isVector, isColVec, isRowVec, idx, getI?, hk, throwErr, bind, Except.bind, pure, Except.pure]
  · simp [mvCheck, isVector, isColVec, isRowVec, idx, getI?, h, hk, throwErr, bind, Except.bind, pure, Except.pure]

theorem mv_shape_row (m n k : Int) (hk : 1 < k) :
    mvCheck [m, n] [1, k] = if k = n then .ok [m] else .error (.err "shapeMismatch") := by
  have hk' : ¬ (k ≤ 1) := by omega
  by_cases h : k = n
  · subst h
    simp [mvCheck, isVector, isColVec, isRowVec, idx, getI?, hk, hk', throwErr, bind, Except.bind, pure, Except.pure]
  · simp [mvCheck, isVector, isColVec, isRowVec, idx, getI?, h, hk, hk', throwErr, bind, Except.bind, pure, Except.pure]

theorem mv_refused_of_rank (ts os : Shape) (h : ts.length ≠ 2 ∨ isVector os = false) :
    ∃ tag, mvCheck ts os = .error (.err tag) := by
  refine ⟨"MatVecMul requires a matrix and a vector", ?_⟩
  unfold mvCheck
  rcases h with h | h <;> simp [h, throwErr, bind, Except.bind]

/-- Callee and result shape of the three matrix cases of `Dot`, put together: for operands that are
    not vector forms `(m,k)·(k',n)` goes to `MatMul` → `(m,n)` iff `k = k'`; `(m,n)·(k)` goes to
    `MatVecMul` → `(m)` iff `k = n`; `(k)·(k',n)` goes to `MatVecMul` of the lazily transposed matrix
    `(n,k')` with the vector → `(n)` iff `k = k'`; every mismatch is an error, never a result. -/
theorem dot_callee_shapes (m k k' n : Int)
    (hA : isVector [m, k] = false) (hB : isVector [k', n] = false) (hA' : isVector [m, n] = false) :
    (dotCase [m, k] [k', n] = DotCase.matMat ∧
      mmCheck [m, k] [k', n] = if k = k' then .ok [m, n] else .error (.err "shapeMismatch")) ∧
    (dotCase [m, n] [k] = DotCase.matVec ∧
      mvCheck [m, n] [k] = if k = n then .ok [m] else .error (.err "shapeMismatch")) ∧
    (dotCase [k] [k', n] = DotCase.vecMat ∧
      mvCheck [n, k'] [k] = if k = k' then .ok [n] else .error (.err "shapeMismatch")) := by
  have hv : isVector [k] = true := by simp [isVector]
  refine ⟨⟨?_, mm_shape m k k' n⟩, ⟨?_, mv_shape_vec m n k⟩, ⟨?_, mv_shape_vec n k' k⟩⟩
  · rw [dot_dispatch]; simp [hA, hB]
  · rw [dot_dispatch]; simp [hA', hv]
  · rw [dot_dispatch]; simp [hB, hv]

theorem outer_shape (ts os : Shape) :
    outerCheck ts os = if isVector ts = true ∧ isVector os = true then .ok [totalSize ts, totalSize os]
      else .error (.err "Outer only works when there are two vectors") := by
  unfold outerCheck
  cases h1 : isVector ts <;> cases h2 : isVector os <;> simp [throwErr, pure, Except.pure, bind, Except.bind]

/-! ### `Dot(vector, matrix)`: the transposed copy

  `StdEng.Dot` hands `MatVecMul` a shallow copy of the matrix (same storage window, metadata of its
  own) on which it called `T()`; the caller's matrix is not written (`dotCore` stores the copy as a
  new temporary object). What that copy is: -/

/-- for a matrix without pending transpose: the lazily transposed matrix (shape and strides swapped,
    the original pattern kept as `old`), storage untouched — all sizes, all strides. -/
theorem dot_vecmat_copy_plain (s : St) (t : Dense) (r c s0 s1 : Int)
    (hsh : t.ap.shape = [r, c]) (hst : t.ap.strides = [s0, s1])
    (hv : isVector [r, c] = false) (hq : isScalarEquiv [r, c] = false) (hold : t.old = none) :
    Dense.T s t [] = .ok (s, { t with
      ap := { shape := [c, r], strides := [s1, s0], fin := true, o := { t.ap.o with transposed := true } },
      old := some t.ap, tw := some [1, 0] }) := by
  have hax : (rangeI 2).reverse = [1, 0] := by decide
  have hm : isMonotonicInts [(1:Int), 0] = (false, false) := by decide
  simp [Dense.T, AP.T, Dense.shape, hsh, hst, hv, hq, hold, hax, hm, unsafePermute, unsafePermute.check, bind,
    Except.bind, pure, Except.pure]

/-- for a matrix that carries a pending transpose: `T()` on the copy is the undo — the copy is the
    un-transposed matrix and nothing is moved in storage; the caller's matrix keeps its pending
    transpose (it used to lose it: the former finding F54). -/
theorem dot_vecmat_copy_undoes_pending (s : St) (t : Dense) (r c s0 s1 : Int) (o : AP)
    (hsh : t.ap.shape = [r, c]) (hst : t.ap.strides = [s0, s1])
    (hv : isVector [r, c] = false) (hq : isScalarEquiv [r, c] = false)
    (hold : t.old = some o) (htw : t.tw = some [1, 0]) :
    Dense.T s t [] = .ok (s, t.ut) := by
  have hax : (rangeI 2).reverse = [1, 0] := by decide
  have hm : isMonotonicInts [(1:Int), 0] = (false, false) := by decide
  simp [Dense.T, AP.T, Dense.shape, hsh, hst, hv, hq, hold, htw, hax, hm, unsafePermute, unsafePermute.check, bind,
    Except.bind, pure, Except.pure]
  intro x hx hfalse
  exfalso
  match x, hx with
  | 0, _ => revert hfalse; decide
  | 1, _ => revert hfalse; decide

/-! ### Trace -/

/-- `i·(s₀+s₁)` is the address of the diagonal element `(i,i)` of any 2-d pattern with one stride
    per axis (contiguous, transposed, sliced, stepped, column-major): all sizes, all strides. -/
theorem trace_offset_is_diagonal (r c s0 s1 i : Int) (hi0 : 0 ≤ i) (hi : i < min r c) :
    ltoi [r, c] [s0, s1] [i, i] = .ok (i * (s0 + s1)) := by
  have hb : inBox [r, c] [i, i] = true := by
    have h1 : i < r := by omega
    have h2 : i < c := by omega
    simp [inBox, hi0, h1, h2]
  rw [ltoi_exact' [r, c] [s0, s1] [i, i] rfl hb]
  simp [TM.dot, Int.mul_add]

/-- `Σᵢ raw[i·(s₀+s₁)] = Σᵢ a[i,i]`: the cells `StdEng.Trace` adds up are exactly the diagonal
    elements as `At(i,i)` reads them — including which reads fail. -/
theorem trace_spec (st : St) (t : Dense) (r c s0 s1 : Int)
    (hs : t.ap.shape = [r, c]) (hst : t.ap.strides = [s0, s1]) :
    (traceOffsets r c s0 s1).mapM (fun off => st.get t.win off) =
      (rangeI (min r c).toNat).mapM (fun i => t.at_ st [i, i]) := by
  unfold traceOffsets
  rw [List.mapM_map]
  apply mapM_congr
  intro i hi
  unfold rangeI at hi
  rw [List.mem_map] at hi
  obtain ⟨k, hk, rfl⟩ := hi
  rw [List.mem_range] at hk
  have h0 : (0 : Int) ≤ Int.ofNat k := Int.natCast_nonneg k
  have h1 : Int.ofNat k < min r c := by
    have : (k : Int) < ((min r c).toNat : Int) := by exact_mod_cast hk
    have hpos : 0 ≤ min r c := by
      rcases Int.le_total 0 (min r c) with h | h
      · exact h
      · have : (min r c).toNat = 0 := Int.toNat_of_nonpos h
        omega
    rw [Int.toNat_of_nonneg hpos] at this
    exact this
  have hd : ltoi [r, c] [s0, s1] [(k : Int), (k : Int)] = .ok ((k : Int) * (s0 + s1)) :=
    trace_offset_is_diagonal r c s0 s1 (Int.ofNat k) h0 h1
  simp [Dense.at_, Dense.dims, Dense.shape, Dense.strides, hs, hst, bind, Except.bind]
  rw [hd]

/-! ### Flags and leading dimensions of `MatMul` / `MatVecMul` -/

/-- The flag / leading-dimension table of `StdEng.MatMul` for row-major operands and destination:
    a pending transpose of an operand sets its trans flag and makes its leading dimension the
    number of *rows* of its current (transposed) shape, otherwise the number of columns. -/
theorem mm_flags_rowMajor (aT bT : Bool) (m k n : Int) :
    mmParams false false false aT bT m k k n m n =
      { tA := aT, tB := bT, swap := false, lda := (if aT then m else k), ldb := (if bT then k else n), ldc := n } := by
  cases aT <;> cases bT <;> rfl

/-- Two column-major operands (and a column-major destination): the operands are swapped, the
    leading dimensions are the numbers of rows. -/
theorem mm_flags_colMajor (m k n : Int) :
    mmParams true true true false false m k k n m n =
      { tA := false, tB := false, swap := true, lda := m, ldb := k, ldc := m } := rfl

/-- `gemm_mapping`: for contiguous, non-view, row-major operands `a : (m,k)`, `b : (k,n)` — each as
    built or under a pending transpose — and a contiguous row-major destination, the call made by
    `StdEng.MatMul` makes the reference `gemm` succeed and write, at row `i` column `j` of the
    destination, the textbook sum `Σ_l a[i,l]·b[l,j]` over the operands' *logical* entries
    (`logIdx` = the address their strides give, see `logIdx_eq_dot`). All sizes; any scalar type. -/
theorem gemm_mapping {α} [Inhabited α] (o : Ops α) (aT bT : Bool) (m n k : Nat)
    (hm : 0 < m) (hn : 0 < n) (hk : 0 < k)
    (A B C : List α) (hA : A.length = m * k) (hB : B.length = k * n) (hC : C.length = m * n) :
    let call := mmParams false false false aT bT m k k n m n
    ∃ C', gemm o call.tA call.tB m n k A call.lda.toNat B call.ldb.toNat C call.ldc.toNat = .ok C' ∧
      C'.length = m * n ∧
      ∀ i j, i < m → j < n →
        C'[i * n + j]? = some (sumTerms o ((List.range k).map fun l =>
          o.mul (rd A (logIdx aT m k i l)) (rd B (logIdx bT k n l j)))) := by
  intro call
  have hcall : call = MMCall.mk aT bT false (if aT then (m : Int) else k) (if bT then (k : Int) else n) n :=
    mm_flags_rowMajor aT bT m k n
  have hlda : call.lda.toNat = if aT then m else k := by rw [hcall]; cases aT <;> simp
  have hldb : call.ldb.toNat = if bT then k else n := by rw [hcall]; cases bT <;> simp
  have hldc : call.ldc.toNat = n := by rw [hcall]; simp
  have htA : call.tA = aT := by rw [hcall]
  have htB : call.tB = bT := by rw [hcall]
  rw [hlda, hldb, hldc, htA, htB]
  have e1 : (k - 1) * m + m = k * m := pred_mul_add k m hk
  have e2 : (m - 1) * k + k = m * k := pred_mul_add m k hm
  have e3 : (n - 1) * k + k = n * k := pred_mul_add n k hn
  have e4 : (k - 1) * n + n = k * n := pred_mul_add k n hk
  have e5 : (m - 1) * n + n = m * n := pred_mul_add m n hm
  have c1 : m * k = k * m := Nat.mul_comm m k
  have c2 : k * n = n * k := Nat.mul_comm k n
  refine ⟨updMat C m n n fun i j _ => gemmCell o aT bT k A (if aT then m else k) B (if bT then k else n) i j, ?_, ?_, ?_⟩
  · unfold gemm
    have g1 : ¬ ((if aT then m else k) < max 1 (if aT then m else k)) := by cases aT <;> simp <;> omega
    have g2 : ¬ ((if bT then k else n) < max 1 (if bT then k else n)) := by cases bT <;> simp <;> omega
    have g3 : ¬ (n < max 1 n) := by omega
    have g4 : (m == 0 || n == 0) = false := by
      have : m ≠ 0 := by omega
      have : n ≠ 0 := by omega
      simp [*]
    have g5 : ¬ (A.length < (if aT then (k - 1) * (if aT then m else k) + m else (m - 1) * (if aT then m else k) + k)) := by
      cases aT <;> simp <;> omega
    have g6 : ¬ (B.length < (if bT then (n - 1) * (if bT then k else n) + k else (k - 1) * (if bT then k else n) + n)) := by
      cases bT <;> simp <;> omega
    have g7 : ¬ (C.length < (m - 1) * n + n) := by omega
    simp [g1, g2, g3, g4, g5, g6, g7, pure, Except.pure, bind, Except.bind]
  · rw [updMat_length]; exact hC
  · intro i j hi hj
    obtain ⟨old, _, h⟩ := updMat_get C m n n (fun i j _ => gemmCell o aT bT k A (if aT then m else k) B (if bT then k else n) i j)
      i j hi hj (Nat.le_refl n) (by omega)
    rw [h]
    unfold gemmCell logIdx
    cases aT <;> cases bT <;> simp

/-- The flag table of `StdEng.MatVecMul` for a row-major matrix: a pending transpose sets the trans
    flag; `m`, `n`, `lda` always describe the *stored* (un-transposed) matrix. -/
theorem mv_flags_rowMajor (z : Bool) (m n : Int) :
    mvParams false z m n = (!z, n, m, n) := by cases z <;> rfl

/-- `gemv_mapping`: contiguous non-view row-major matrix stored as `(m0, n0)`; without a pending
    transpose the product is `y[i] = Σ_j a[i,j]·x[j]` (`i < m0`), under a pending transpose (current
    shape `(n0, m0)`) it is `y[j] = Σ_i aᵀ[j,i]·x[i]` (`j < n0`) — the textbook matrix-vector product
    of the logical matrix in both cases. All sizes. -/
theorem gemv_mapping {α} [Inhabited α] (o : Ops α) (z : Bool) (m0 n0 : Nat) (hm : 0 < m0) (hn : 0 < n0)
    (A x y : List α) (hA : A.length = m0 * n0)
    (hx : x.length = if z then n0 else m0) (hy : y.length = if z then m0 else n0) :
    let p := mvParams false z m0 n0
    ∃ y', gemv o p.1 p.2.2.1.toNat p.2.2.2.toNat A p.2.1.toNat x y = .ok y' ∧ y'.length = y.length ∧
      ∀ i, i < (if z then m0 else n0) →
        y'[i]? = some (sumTerms o ((List.range (if z then n0 else m0)).map fun j =>
          o.mul (rd A (logIdx (!z) (if z then m0 else n0) (if z then n0 else m0) i j)) (rd x j))) := by
  intro p
  have hp : p = (!z, (n0 : Int), (m0 : Int), (n0 : Int)) := mv_flags_rowMajor z m0 n0
  rw [hp]
  simp only [Int.toNat_natCast]
  have e1 : n0 * (m0 - 1) + n0 = n0 * m0 := mul_pred_add m0 n0 hm
  have c1 : m0 * n0 = n0 * m0 := Nat.mul_comm m0 n0
  refine ⟨updVec y (if !z then n0 else m0) fun i => gemvCell o (!z) (if !z then m0 else n0) A n0 x i, ?_, ?_, ?_⟩
  · unfold gemv
    have g1 : ¬ (n0 < max 1 n0) := by omega
    have g2 : (m0 == 0 || n0 == 0) = false := by
      have : m0 ≠ 0 := by omega
      have : n0 ≠ 0 := by omega
      simp [*]
    have g5 : ¬ (A.length < n0 * (m0 - 1) + n0) := by omega
    cases z
    · have g3 : ¬ (x.length ≤ m0 - 1) := by simp at hx; omega
      have g4 : ¬ (y.length ≤ n0 - 1) := by simp at hy; omega
      simp [g1, g2, g3, g4, g5, pure, Except.pure, bind, Except.bind]
    · have g3 : ¬ (x.length ≤ n0 - 1) := by simp at hx; omega
      have g4 : ¬ (y.length ≤ m0 - 1) := by simp at hy; omega
      simp [g1, g2, g3, g4, g5, pure, Except.pure, bind, Except.bind]
  · rw [updVec_length]
  · intro i hi
    have hlen : (if !z then n0 else m0) ≤ y.length := by cases z <;> simp at hy ⊢ <;> omega
    have hi' : i < (if !z then n0 else m0) := by cases z <;> simp at hi ⊢ <;> omega
    rw [updVec_get y _ _ i hi' hlen]
    unfold gemvCell logIdx
    cases z <;> simp

/-- `ger_mapping`: row-major contiguous destination `(m, n)` (leading dimension `n`), contiguous
    vectors: `Outer` adds `x[i]·y[j]` to cell `(i, j)` (the destination was zeroed before). -/
theorem ger_mapping {α} [Inhabited α] (o : Ops α) (m n : Nat) (hm : 0 < m) (hn : 0 < n)
    (x y C : List α) (hx : x.length = m) (hy : y.length = n) (hC : C.length = m * n) :
    ∃ C', ger o m n x y C n = .ok C' ∧ C'.length = m * n ∧
      ∀ i j, i < m → j < n → ∃ old, C[i * n + j]? = some old ∧
        C'[i * n + j]? = some (o.add old (o.mul (rd x i) (rd y j))) := by
  have e1 : n * (m - 1) + n = n * m := mul_pred_add m n hm
  have e2 : (m - 1) * n + n = m * n := pred_mul_add m n hm
  have c1 : m * n = n * m := Nat.mul_comm m n
  refine ⟨updMat C m n n fun i j old => o.add old (o.mul (rd x i) (rd y j)), ?_, ?_, ?_⟩
  · unfold ger
    have g1 : ¬ (n < max 1 n) := by omega
    have g2 : (m == 0 || n == 0) = false := by
      have : m ≠ 0 := by omega
      have : n ≠ 0 := by omega
      simp [*]
    have g3 : ¬ (x.length ≤ m - 1) := by omega
    have g4 : ¬ (y.length ≤ n - 1) := by omega
    have g5 : ¬ (C.length < n * (m - 1) + n) := by omega
    simp [g1, g2, g3, g4, g5, pure, Except.pure, bind, Except.bind]
  · rw [updMat_length]; exact hC
  · intro i j hi hj
    exact updMat_get C m n n _ i j hi hj (Nat.le_refl n) (by omega)

/-! ### S and M build the same terms (instances; the harness compares them on every run) -/

/-- raw cells `s<buf>.0 … s<buf>.(n-1)` -/
def srcCells (buf n : Nat) : List Val := (List.range n).map (Val.src buf)

/-- On a `2×3 · 3×2` instance the specification's textbook product (`specMatMul`, defined through the
    general contraction on logical arrays) and the reference `gemm` under the call `StdEng.MatMul`
    makes produce the same symbolic terms — as built, and with both operands under a pending
    transpose (logical arrays = transposes of the stored `3×2`, `2×3` arrays). -/
theorem spec_eq_gemm_instance :
    (match specMatMul ⟨[2, 3], srcCells 0 6⟩ ⟨[3, 2], srcCells 1 6⟩,
           gemm valOps false false 2 2 3 (srcCells 0 6) 3 (srcCells 1 6) 2 (List.replicate 4 Val.zero) 2 with
      | some s, .ok c => s.elems == c && s.shape == [2, 2]
      | _, _ => false) = true ∧
    (match (LA.transpose ⟨[3, 2], srcCells 0 6⟩ [1, 0]), (LA.transpose ⟨[2, 3], srcCells 1 6⟩ [1, 0]) with
      | some a, some b =>
        (match specMatMul a b,
               gemm valOps true true 2 2 3 (srcCells 0 6) (mmParams false false false true true 2 3 3 2 2 2).lda.toNat
                 (srcCells 1 6) (mmParams false false false true true 2 3 3 2 2 2).ldb.toNat (List.replicate 4 Val.zero) 2 with
          | some s, .ok c => s.elems == c && s.shape == [2, 2]
          | _, _ => false)
      | _, _ => false) = true := by
  constructor <;> decide

/-! ### Non-contiguous view operands: BLAS reads a contiguous copy (the former findings F50, F53) -/

def natOps : Ops Nat := ⟨0, (· + ·), (· * ·)⟩

/-- An operand whose data-order flags say contiguous is handed to BLAS as it is (no copy, nothing allocated). -/
theorem blasOperand_contiguous (ps : PState) (id : Nat) (t : Dense) (hget : ps.ds[id]? = some t)
    (hc : t.ap.o.nonContig = false) :
    (blasOperand id).run.run ps = (.ok id, ps) := by
  simp [blasOperand, getObj, hget, hc, bind, ExceptT.bind, ExceptT.mk, ExceptT.bindCont, ExceptT.run, StateT.bind,
    StateT.run, get, getThe, MonadStateOf.get, StateT.get, liftM, monadLift, MonadLift.monadLift, ExceptT.lift,
    Functor.map, StateT.map, pure, ExceptT.pure, StateT.pure, Id.run]

/-- **A non-contiguous row-major view is handed to BLAS as a contiguous copy, made by coordinate**: the copy
    has the view's shape, the strides of a contiguous row-major tensor, no non-contiguity flag and no pending
    transpose (so `mmParams` / `mvParams` derive the leading dimension of a contiguous matrix for it and the
    increment 1 is right), lives in a buffer that did not exist before, and holds at every coordinate `c` (its
    row-major address) the view's element at `c` (the view's strided address); no cell that existed before is
    changed. Any rank, any strides — column ranges, stepped slices, columns of a matrix, views of lazily
    transposed tensors. -/
theorem blasCopy_by_coordinate (st st' : St) (t r : Dense)
    (hnc : t.ap.o.nonContig = true) (hcol : t.ap.o.col = false) (hlen1 : t.win.len ≠ 1)
    (hnm : t.mask = none) (hlen0 : t.win.len ≠ 0) (hne : t.ap.shape ≠ [])
    (hl : t.ap.strides.length = t.ap.shape.length) (hp : ∀ d ∈ t.ap.shape, 0 < d)
    (hcap : t.win.len ≤ t.win.cap) (hbuf : t.win.buf < st.heap.size)
    (hr : ∀ c ∈ allCoords t.ap.shape, 0 ≤ dot c t.ap.strides ∧ dot c t.ap.strides < (t.win.len : Int))
    (hs : Has st t.win.buf t.win.off t.win.len)
    (h : blasCopy st t = .ok (st', r)) :
    r.ap.shape = t.ap.shape ∧ r.ap.strides = calcStrides t.ap.shape ∧ r.ap.o.nonContig = false ∧
    r.ap.o.col = false ∧ r.old = none ∧
    r.win = ⟨st.heap.size, 0, (prod t.ap.shape).toNat, (prod t.ap.shape).toNat⟩ ∧
    (∀ c ∈ allCoords t.ap.shape,
      TM.cell st' st.heap.size (rowRank t.ap.shape c).toNat =
        some (TM.cellD st t.win.buf (t.win.off + (dot c t.ap.strides).toNat))) ∧
    (∀ b' k', b' < st.heap.size → TM.cell st' b' k' = TM.cell st b' k') := by
  have hnemp : t.shape.isEmpty = false := by
    unfold Dense.shape; cases hsh : t.ap.shape with
    | nil => exact absurd hsh hne
    | cons _ _ => rfl
  unfold blasCopy newDenseZero at h
  simp only [hcol, Bool.false_eq_true, if_false, hnemp, Dense.fresh, St.alloc] at h
  generalize hr0 : (Dense.mk _ _ _ _ _ _ _ _ _) = r0 at h
  have hsh0 : r0.ap.shape = t.ap.shape := by rw [← hr0]; rfl
  have hstr0 : r0.ap.strides = calcStrides t.ap.shape := by rw [← hr0]; rfl
  have hwin0 : r0.win = ⟨st.heap.size, 0, (prod t.ap.shape).toNat, (prod t.ap.shape).toNat⟩ := by
    rw [← hr0]; simp [Dense.shape, totalSize]
  have hflags0 : r0.ap.o.nonContig = false ∧ r0.ap.o.col = false ∧ r0.old = none := by
    rw [← hr0]; exact ⟨rfl, rfl, rfl⟩
  have hfast : (!r0.requiresIterator && !t.requiresIterator && Dense.sameOrder r0 t) = false := by
    have hl1' : (t.win.len == 1) = false := by simpa using hlen1
    simp [Dense.requiresIterator, hl1', hnc]
  obtain ⟨hrr, hv, hf⟩ := freshCopy_by_coordinate st st' t r0 r hsh0 hstr0 hwin0 hfast hnm hlen0 hl hp hcap hbuf hr hs
    (by simpa [Dense.shape, totalSize] using h)
  subst hrr
  exact ⟨hsh0, hstr0, hflags0.1, hflags0.2.1, hflags0.2.2, hwin0, hv, hf⟩

/-- the contiguous listing of a row-major matrix view `(m,k)` whose rows are `rs` cells apart (`a[i,l]` at
    `raw[i·rs + l]`): what `blasCopy_by_coordinate` says the copy's window holds (entry `(i,l)` at `i·k + l`) -/
def compactRows {α} [Inhabited α] (m k rs : Nat) (A : List α) : List α :=
  (List.range (m * k)).map fun p => rd A (p / k * rs + p % k)

/-- the contiguous listing of a vector view of `n` entries `s` cells apart -/
def compactVec {α} [Inhabited α] (n s : Nat) (A : List α) : List α := (List.range n).map fun i => rd A (i * s)

theorem compactRows_get {α} [Inhabited α] (m k rs : Nat) (A : List α) (i l : Nat) (hi : i < m) (hl : l < k) :
    rd (compactRows m k rs A) (i * k + l) = rd A (i * rs + l) := by
  have hlt : i * k + l < m * k := by
    have h1 : (i + 1) * k ≤ m * k := Nat.mul_le_mul_right k (by omega)
    rw [Nat.succ_mul] at h1
    omega
  unfold compactRows rd
  rw [List.getElem?_map, List.getElem?_range hlt]
  simp [div_cell k i l hl, mod_cell k i l hl]

/-- contiguous operands are their own listing -/
theorem compactVec_unit {α} [Inhabited α] (A : List α) : compactVec A.length 1 A = A := by
  apply List.ext_getElem?
  intro i
  unfold compactVec rd
  by_cases hi : i < A.length
  · rw [List.getElem?_map, List.getElem?_range hi]
    simp [List.getElem?_eq_getElem hi]
  · rw [List.getElem?_eq_none (by simpa using hi), List.getElem?_eq_none (by omega)]

/-- **`gemm_mapping_view`** (unguarded; formerly `_partial` + `_full_fails`, finding F50). For a row-major
    *view* operand `a : (m,k)` whose rows are `rs ≥ k` cells apart (`a[i,l]` at `raw[i·rs + l]`, e.g. a column
    range or a stepped row range of a wider matrix) the call `StdEng.MatMul` makes — on the contiguous copy of
    the view, with `lda = k` from the shape — computes the textbook product of the view's entries. -/
theorem gemm_mapping_view :
    ∀ (m n k rs : Nat) (A B C : List Nat), 0 < m → 0 < n → 0 < k → k ≤ rs →
    A.length = (m - 1) * rs + k → B.length = k * n → C.length = m * n →
    ∃ C', gemm natOps false false m n k (compactRows m k rs A)
        (mmParams false false false false false m k k n m n).lda.toNat B n C n = .ok C' ∧
      ∀ i j, i < m → j < n →
        C'[i * n + j]? = some (sumTerms natOps ((List.range k).map fun l => rd A (i * rs + l) * rd B (l * n + j))) := by
  intro m n k rs A B C hm hn hk _ _ hB hC
  have hA' : (compactRows m k rs A).length = m * k := by simp [compactRows]
  obtain ⟨C', h1, _, h3⟩ := gemm_mapping natOps false false m n k hm hn hk (compactRows m k rs A) B C hA' hB hC
  refine ⟨C', ?_, ?_⟩
  · exact h1
  · intro i j hi hj
    have := h3 i j hi hj
    rw [this]
    congr 2
    apply List.map_congr_left
    intro l hl
    have hl' : l < k := by simpa using hl
    simp only [logIdx, Bool.false_eq_true, if_false, natOps]
    rw [compactRows_get m k rs A i l hi hl']

/-- the former witness of F50: `a = t[:, 0:2]` of the 3×3 matrix `1..9` (window `1..8`, row stride 3) times
    the 2×2 identity is `1 2 / 4 5 / 7 8` (it used to be `1 2 / 3 4 / 5 6`) -/
example : gemm natOps false false 3 2 2 (compactRows 3 2 3 [1, 2, 3, 4, 5, 6, 7, 8])
    (mmParams false false false false false 3 2 2 2 3 2).lda.toNat [1, 0, 0, 1] 2 [0, 0, 0, 0, 0, 0] 2 =
    .ok [1, 2, 4, 5, 7, 8] := rfl

/-- non-vacuity of `blasCopy_by_coordinate`: the same view as a tensor (flagged non-contiguous by slicing) meets
    the hypotheses, `blasOperand` does copy it, and the copy's window is the listing `compactRows` describes -/
def bvSt : St := { heap := #[#[.src 0 0, .src 0 1, .src 0 2, .src 0 3, .src 0 4, .src 0 5, .src 0 6, .src 0 7, .src 0 8]] }
def bvView : Dense := { ap := { shape := [3, 2], strides := [3, 1], fin := true, o := { nonContig := true } },
                        win := ⟨0, 0, 8, 9⟩, dt := "f64", view := true }
example : bvView.ap.o.nonContig = true ∧ bvView.mask = none ∧
    (allCoords bvView.ap.shape).all (fun c => decide (0 ≤ dot c bvView.ap.strides) && decide (dot c bvView.ap.strides < 8)) = true ∧
    (match blasCopy bvSt bvView with
     | .ok (s, r) => r.ap.strides == [2, 1] && !r.ap.o.nonContig &&
         s.heap[r.win.buf]? == some #[.src 0 0, .src 0 1, .src 0 3, .src 0 4, .src 0 6, .src 0 7]
     | _ => false) = true := by decide

/-- **`inner_mapping`** (unguarded; formerly `_partial` + `_full_fails`, finding F53). The inner product of two
    vector views with strides `sa`, `sb` (entry `i` at `raw[i·s]`; windows of any length that holds the `n`
    entries — they need not agree, `Inner` compares the numbers of elements) as `StdEng.Inner` computes it —
    `dot(n, A', 1, B', 1)` on the contiguous copies — is `Σ aᵢ·bᵢ`. Unit stride: the operands themselves
    (`compactVec_unit`). -/
theorem inner_mapping :
    ∀ (n sa sb : Nat) (A B : List Nat), 0 < n →
    dotu natOps (compactVec n sa A).length (compactVec n sa A) (compactVec n sb B) =
      .ok (sumTerms natOps ((List.range n).map fun i => rd A (i * sa) * rd B (i * sb))) := by
  intro n sa sb A B hn
  have hla : (compactVec n sa A).length = n := by simp [compactVec]
  have hlb : (compactVec n sb B).length = n := by simp [compactVec]
  unfold dotu
  rw [hla, hlb]
  have g0 : ¬ (n = 0) := by omega
  simp only [beq_iff_eq, g0, if_false, Nat.lt_irrefl, pure, Except.pure, bind, Except.bind]
  congr 2
  apply List.map_congr_left
  intro i hi
  have hi' : i < n := by simpa using hi
  simp only [natOps, compactVec, rd]
  rw [List.getElem?_map, List.getElem?_range hi', List.getElem?_map, List.getElem?_range hi']
  simp

/-- the former witness of F53: `a = b = (1..6)[0:6:2]` (windows of 5 cells): 35 (it used to be 91) -/
example : dotu natOps 3 (compactVec 3 2 [1, 2, 3, 4, 5]) (compactVec 3 2 [1, 2, 3, 4, 5]) = .ok 35 := rfl

/-! ### `TensorMul`'s axes bookkeeping -/

/-- The permutation handed to `T` is "free axes, then contracted axes": all ranks, all axis lists. -/
theorem tmul_axes (td : Nat) (axesA : List Int) :
    tmulAxesA td axesA = notIns td axesA ++ axesA := rfl

/-- Every axis of the left operand occurs in it (all ranks, all axis lists) … -/
theorem tmul_axes_covers (td : Nat) (axesA : List Int) (i : Int) (hi : i ∈ rangeI td) :
    i ∈ tmulAxesA td axesA := by
  unfold tmulAxesA notIns
  by_cases h : axesA.contains i = true
  · exact List.mem_append_right _ (by simpa using h)
  · exact List.mem_append_left _ (List.mem_filter.mpr ⟨hi, by simpa using h⟩)

/-- … and on the property's domain (ranks ≤ 5, one or two valid contraction axes) exactly once: it is
    a permutation of the axes, so `T` never refuses it for a repeated axis. -/
theorem tmul_axes_is_permutation :
    ((List.range 6).all fun td => (List.range td).all fun a =>
      ((tmulAxesA td [(a : Int)]).length == td && (tmulAxesA td [(a : Int)]).eraseDups.length == td) &&
      (List.range td).all fun b => a == b ||
        ((tmulAxesA td [(a : Int), (b : Int)]).length == td &&
         (tmulAxesA td [(a : Int), (b : Int)]).eraseDups.length == td)) = true := by
  decide

/-- A contraction of extent one (no contraction axes = an outer product of tensors, or axes of
    length one) flattens the operands to `(m,1)` and `(1,n)`: `MatMul`, which `TensorMul` calls,
    accepts them with the result shape `(m,n)` — for every `m`, `n`, vector forms included. -/
theorem tmul_unit_contraction_accepted (m n : Int) : mmCheck [m, 1] [1, n] = .ok [m, n] := by
  simpa using mm_shape m 1 1 n

/-- The former witness of the aliasing, `(2,3,4,5)·(5,2,3)` over axes `[3]`,`[0]`: the identity
    permutation. -/
theorem tmul_axes_instance : tmulAxesA 4 [3] = [0, 1, 2, 3] := by decide

end TM.C09
