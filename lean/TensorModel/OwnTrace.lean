import TensorModel.Own
/-!
  Line protocol for ownership traces (C19): `OWN <pid> ; ev ; ev … | step,step,…` where the events are the
  pool events reported by the library's hook and the reference changes / caller slices observed by the harness
  (`tools/harness/own.go`). The verdict is `TM.Own.checkTraceR` — the function `Props/C19.checkTrace_sound`
  is about.
-/
namespace TM.Own

def parseEvent (s : String) : Option Event :=
  match (s.splitOn " ").filter (· != "") with
  | ["a", x] => x.toNat?.map .alloc
  | ["b", x] => x.toNat?.map .borrow
  | ["r", x] => x.toNat?.map .ret
  | ["cp", x] => x.toNat?.map .callerPass
  | ["at", k, x] => do pure (.attach (← k.toNat?) (← x.toNat?))
  | ["dt", k, x] => do pure (.detach (← k.toNat?) (← x.toNat?))
  | _ => none

/-- one answer line for an `OWN` line -/
def checkLine (line : String) : String :=
  match line.splitOn " | " with
  | [l, stepsS] =>
    match l.splitOn " ; " with
    | hd :: evs =>
      let pid := (hd.drop 4).toString
      let evs := evs.filter (· != "")
      match evs.mapM parseEvent with
      | none => s!"{pid} OWN r=badtrace"
      | some es =>
        match checkTraceR es with
        | none => s!"{pid} OWN r=ok events={es.length}"
        | some (i, reason) =>
          let steps := stepsS.splitOn ","
          s!"{pid} OWN r=viol event={i} step={steps[i]?.getD "?"} what={evs[i]?.getD "?"} reason={reason.describe}"
    | [] => "? OWN r=badtrace"
  | _ =>
    -- a program without events
    match line.splitOn " ; " with
    | hd :: _ => s!"{(hd.drop 4).toString} OWN r=ok events=0"
    | [] => "? OWN r=badtrace"

end TM.Own
