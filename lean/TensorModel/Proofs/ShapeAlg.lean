import TensorModel.Proofs.Slice
import TensorModel.Proofs.Transpose
import TensorModel.Proofs.Ltoi
/-! Helper lemmas for C13 (shape algebra, reshape, metadata invariant). -/
namespace TM.ShapeAlg

/-! ### closed forms of `AP.S`, `Shape.S` and their loops -/

def apSOd (ap : AP) : Nat := if !ap.o.col || isVector ap.shape then 0 else ap.shape.length - 1

def apSOut (ap : AP) (size : Int) (sls : List (Option Sl)) (rs : List AxisRes) : AP × Int × Int :=
  let ndStart := sumI (rs.map (·.dStart))
  let ndEnd := size - sumI (rs.map (·.dEnd))
  let nc := rs.any (·.nonContig)
  let order := if nc then { ap.o with nonContig := true } else ap.o
  if ndEnd - ndStart == 1 then
    ({ shape := [], strides := [], fin := true, o := {} }, ndStart, ndEnd)
  else
    let keep := (rs.zip (sls.map Option.isSome ++ List.replicate rs.length false)).filter
      (fun (r, given) => !(r.n == 1 && given))
    let kept := keep.map (·.1)
    ({ shape := kept.map (·.n), strides := kept.map (·.stride), fin := true, o := order }, ndStart, ndEnd)

theorem apS_eq (ap : AP) (size : Int) (sls : List (Option Sl)) :
    ap.S size sls =
      if sls.length > ap.shape.length then throwErr "dimMismatch"
      else (apSLoop (isVector ap.shape) (apSOd ap) 0 ap.shape ap.strides sls).map (apSOut ap size sls) := by
  unfold AP.S apSOut apSOd
  split
  · rfl
  · simp only [bind, Except.bind, pure, Except.pure]
    cases apSLoop (isVector ap.shape) (if (!ap.o.col || isVector ap.shape) = true then 0 else ap.shape.length - 1) 0 ap.shape ap.strides sls with
    | error e => rfl
    | ok rs =>
      simp only [Except.map]
      split <;> rfl

def shapeSOut (ns : List (Int × Bool)) : Shape :=
  (ns.filter (fun (n, given) => !(n == 1 && given))).map (·.1)

theorem shapeS_eq (shape : Shape) (sls : List (Option Sl)) :
    shapeS shape sls =
      if sls.length > shape.length then throwErr "dimMismatch"
      else (shapeS.loop shape sls).map shapeSOut := by
  unfold shapeS shapeSOut
  split
  · rfl
  · simp only [bind, Except.bind, pure, Except.pure]
    cases shapeS.loop shape sls <;> rfl

def shapeN (start stop step : Int) : Int :=
  if step > 0 then (let q := goDiv (stop - start) step; if q ≤ 0 then 1 else q) else stop - start

theorem shapeS_loop_nil (sls : List (Option Sl)) : shapeS.loop [] sls = .ok [] := by
  simp [shapeS.loop]

theorem shapeS_loop_cons (d : Int) (ds : Shape) (sls : List (Option Sl)) :
    shapeS.loop (d :: ds) sls =
      match sliceDetails sls.head?.join d with
      | .error e => .error e
      | .ok (start, stop, step) =>
        match shapeS.loop ds sls.tail with
        | .error e => .error e
        | .ok tl => .ok ((shapeN start stop step, sls.head?.join.isSome) :: tl) := by
  rw [shapeS.loop]
  simp only [bind, Except.bind, pure, Except.pure]
  cases sliceDetails sls.head?.join d with
  | error e => rfl
  | ok v =>
    obtain ⟨a, b, c⟩ := v
    simp only []
    cases shapeS.loop ds sls.tail <;> rfl

theorem sliceAxis_eq (isVec : Bool) (od i : Nat) (size stride : Int) (sl : Option Sl) :
    sliceAxis isVec od i size stride sl =
      match sliceDetails sl size with
      | .error e => .error e
      | .ok (start, stop, step) =>
        .ok { n := axisN i start stop step, stride := if step > 0 then stride * step else stride,
              dStart := start * stride, dEnd := (size - stop) * stride,
              nonContig := (sl.isSome && (!isVec && i != od)) || step > 1 } := by
  unfold sliceAxis axisN
  simp only [bind, Except.bind, pure, Except.pure]
  cases sliceDetails sl size with
  | error e => rfl
  | ok v =>
    obtain ⟨a, b, c⟩ := v
    simp only []
    split <;> rfl

theorem apSLoop_cons (isVec : Bool) (od i : Nat) (d : Int) (ds : Shape) (s : Int) (ss : List Int) (sls : List (Option Sl)) :
    apSLoop isVec od i (d :: ds) (s :: ss) sls =
      match sliceAxis isVec od i d s sls.head?.join with
      | .error e => .error e
      | .ok r =>
        match apSLoop isVec od (i + 1) ds ss sls.tail with
        | .error e => .error e
        | .ok rs => .ok (r :: rs) := by
  rw [apSLoop]
  simp only [bind, Except.bind, pure, Except.pure]
  cases sliceAxis isVec od i d s sls.head?.join with
  | error e => rfl
  | ok r => cases apSLoop isVec od (i + 1) ds ss sls.tail <;> rfl


theorem loop_error_iff (isVec : Bool) (od : Nat) : ∀ (shape : Shape) (strides : List Int)
    (sls : List (Option Sl)) (i : Nat) (e : Err), strides.length = shape.length →
    (shapeS.loop shape sls = .error e ↔ apSLoop isVec od i shape strides sls = .error e) := by
  intro shape
  induction shape with
  | nil => intro strides sls i e _; simp [shapeS_loop_nil, apSLoop]
  | cons d ds ih =>
    intro strides sls i e hl
    cases strides with
    | nil => simp at hl
    | cons s ss =>
      have hl' : ss.length = ds.length := by simpa using hl
      rw [shapeS_loop_cons, apSLoop_cons, sliceAxis_eq]
      cases sliceDetails sls.head?.join d with
      | error e' => simp
      | ok v =>
        obtain ⟨a, b, c⟩ := v
        simp only []
        cases h1 : shapeS.loop ds sls.tail with
        | error e1 =>
          have := (ih ss sls.tail (i + 1) e1 hl').1 h1
          rw [this]; simp
        | ok ns =>
          cases h2 : apSLoop isVec od (i + 1) ds ss sls.tail with
          | error e2 =>
            have := (ih ss sls.tail (i + 1) e2 hl').2 h2
            rw [h1] at this; cases this
          | ok rs => simp

theorem sliceDetails_not_panic (sl : Option Sl) (d : Int) (tag : String) :
    sliceDetails sl d ≠ .error (.panic tag) := by
  cases sl with
  | none => simp [sliceDetails]
  | some s =>
    rw [sliceDetails_some]
    repeat' split
    all_goals simp [throwErr]

theorem shapeS_loop_not_panic : ∀ (shape : Shape) (sls : List (Option Sl)) (tag : String),
    shapeS.loop shape sls ≠ .error (.panic tag) := by
  intro shape
  induction shape with
  | nil => intro sls tag; simp [shapeS_loop_nil]
  | cons d ds ih =>
    intro sls tag
    rw [shapeS_loop_cons]
    cases hd : sliceDetails sls.head?.join d with
    | error e' =>
      intro h
      simp only [] at h
      injection h with h
      subst h
      exact sliceDetails_not_panic _ _ _ hd
    | ok v =>
      obtain ⟨a, b, c⟩ := v
      simp only []
      cases h1 : shapeS.loop ds sls.tail with
      | error e1 =>
        intro h
        injection h with h
        subst h
        exact ih _ _ h1
      | ok ns => simp

theorem except_map_eq_error {ε α β} (f : α → β) (x : Except ε α) (e : ε) :
    x.map f = .error e ↔ x = .error e := by
  cases x <;> simp [Except.map]

theorem shapeS_error_iff_apS_error (ap : AP) (size : Int) (sls : List (Option Sl))
    (hl : ap.strides.length = ap.shape.length) (e : Err) :
    shapeS ap.shape sls = .error e ↔ ap.S size sls = .error e := by
  rw [shapeS_eq, apS_eq]
  split
  · simp [throwErr]
  · rw [except_map_eq_error, except_map_eq_error]
    exact loop_error_iff _ _ _ _ _ _ _ hl

theorem shapeS_not_panic (shape : Shape) (sls : List (Option Sl)) (tag : String) :
    shapeS shape sls ≠ .error (.panic tag) := by
  rw [shapeS_eq]
  split
  · simp [throwErr]
  · rw [Ne, except_map_eq_error]
    exact shapeS_loop_not_panic _ _ _

/-- per-axis predicate of `Excl_shapeSFloor` -/
def floorBad (d : Int) (sl : Option Sl) : Bool :=
  match sl with
  | some s =>
    let e := if s.stop > d then d else s.stop
    decide (s.step > 1) && decide (0 ≤ s.start) && decide (s.start < e) && (e - s.start) % s.step != 0
  | none => false

def exclRec : Shape → List (Option Sl) → Bool
  | [], _ => false
  | d :: ds, sls => floorBad d sls.head?.join || exclRec ds sls.tail

theorem excl_zip_eq : ∀ (shape : Shape) (sls : List (Option Sl)) (k : Nat), shape.length ≤ k →
    (List.zip shape (sls ++ List.replicate k none)).any (fun x => floorBad x.1 x.2) = exclRec shape sls := by
  intro shape
  induction shape with
  | nil => intro sls k _; simp [exclRec]
  | cons d ds ih =>
    intro sls k hk
    cases sls with
    | nil =>
      cases k with
      | zero => simp at hk
      | succ k' =>
        have := ih [] k' (by simpa using hk)
        simp only [List.nil_append] at this
        simp [List.replicate_succ, exclRec, this]
    | cons s t =>
      have := ih t k (by simp at hk; omega)
      simp [exclRec, this]

theorem excl_eq_rec (shape : Shape) (sls : List (Option Sl)) :
    Excl_shapeSFloor shape sls = exclRec shape sls := by
  rw [← excl_zip_eq shape sls shape.length (Nat.le_refl _)]
  rfl

theorem axisN_eq_shapeN (i : Nat) (sl : Option Sl) (d a b c : Int)
    (hd : sliceDetails sl d = .ok (a, b, c)) (hx : floorBad d sl = false) :
    axisN i a b c = shapeN a b c := by
  have key : c > 0 → ¬ (goMod (b - a) c > 0) := by
    intro hc
    cases sl with
    | none =>
      simp only [sliceDetails] at hd
      injection hd with hd
      simp only [Prod.mk.injEq] at hd
      obtain ⟨rfl, rfl, rfl⟩ := hd
      simp [goMod]
    | some s =>
      rw [sliceDetails_some] at hd
      split at hd
      · repeat' split at hd
        all_goals cases hd
      · rename_i hcond
        injection hd with hd
        simp only [Prod.mk.injEq] at hd
        obtain ⟨rfl, rfl, rfl⟩ := hd
        have hm : (if s.stop > d then d else s.stop) = min s.stop d := by split <;> omega
        simp only [floorBad, hm, Bool.and_eq_false_iff, decide_eq_false_iff_not, bne_eq_false_iff_eq] at hx
        have hD : 0 ≤ min s.stop d - s.start := by omega
        unfold goMod
        rw [Int.tmod_eq_emod_of_nonneg hD]
        by_cases h1 : s.step = 1
        · rw [h1]; simp
        · by_cases h0 : min s.stop d - s.start = 0
          · rw [h0]; simp
          · have : (min s.stop d - s.start) % s.step = 0 := by
              rcases hx with ((hx | hx) | hx) | hx
              · omega
              · omega
              · omega
              · exact hx
            omega
  unfold axisN shapeN
  by_cases hc : c > 0
  · have := key hc
    simp [hc, this]
  · simp [hc]

theorem loop_ok_rel (isVec : Bool) (od : Nat) : ∀ (shape : Shape) (strides : List Int)
    (sls : List (Option Sl)) (i : Nat) (rs : List AxisRes) (k : Nat), shape.length ≤ k →
    apSLoop isVec od i shape strides sls = .ok rs → exclRec shape sls = false →
    shapeS.loop shape sls =
      .ok ((rs.zip (sls.map Option.isSome ++ List.replicate k false)).map (fun x => (x.1.n, x.2))) := by
  intro shape
  induction shape with
  | nil =>
    intro strides sls i rs k _ h _
    simp only [apSLoop] at h
    injection h with h
    subst h
    simp [shapeS_loop_nil]
  | cons d ds ih =>
    intro strides sls i rs k hk h hx
    cases strides with
    | nil => simp [apSLoop, throwPanic] at h
    | cons s ss =>
      rw [apSLoop_cons, sliceAxis_eq] at h
      rw [shapeS_loop_cons]
      simp only [exclRec, Bool.or_eq_false_iff] at hx
      cases hd : sliceDetails sls.head?.join d with
      | error e => rw [hd] at h; cases h
      | ok v =>
        obtain ⟨a, b, c⟩ := v
        rw [hd] at h
        simp only [] at h ⊢
        cases h2 : apSLoop isVec od (i + 1) ds ss sls.tail with
        | error e => rw [h2] at h; cases h
        | ok rs' =>
          rw [h2] at h
          injection h with h
          subst h
          have hn := axisN_eq_shapeN i _ d a b c hd hx.1
          cases sls with
          | nil =>
            cases k with
            | zero => simp at hk
            | succ k' =>
              have := ih ss [] (i + 1) rs' k' (by simpa using hk) h2 hx.2
              simp only [List.tail_nil, List.map_nil, List.nil_append] at this ⊢
              rw [this]
              simp [List.replicate_succ, hn]
          | cons s0 t =>
            have := ih ss t (i + 1) rs' k (by simp at hk; omega) h2 hx.2
            simp only [List.tail_cons] at this ⊢
            rw [this]
            simp [hn]

theorem apSLoop_length (isVec : Bool) (od : Nat) : ∀ (shape : Shape) (strides : List Int)
    (sls : List (Option Sl)) (i : Nat) (rs : List AxisRes),
    apSLoop isVec od i shape strides sls = .ok rs → rs.length = shape.length := by
  intro shape
  induction shape with
  | nil =>
    intro strides sls i rs h
    simp only [apSLoop] at h
    injection h with h
    subst h
    rfl
  | cons d ds ih =>
    intro strides sls i rs h
    cases strides with
    | nil => simp [apSLoop, throwPanic] at h
    | cons s ss =>
      rw [apSLoop_cons] at h
      cases h1 : sliceAxis isVec od i d s sls.head?.join with
      | error e => rw [h1] at h; cases h
      | ok r =>
        rw [h1] at h
        simp only [] at h
        cases h2 : apSLoop isVec od (i + 1) ds ss sls.tail with
        | error e => rw [h2] at h; cases h
        | ok rs' =>
          rw [h2] at h
          injection h with h
          subst h
          simp [ih _ _ _ _ h2]

theorem shapeS_eq_apS_of_excl (ap nap : AP) (size ndStart ndEnd : Int) (sls : List (Option Sl))
    (h : ap.S size sls = .ok (nap, ndStart, ndEnd)) (hns : ndEnd - ndStart ≠ 1)
    (hx : Excl_shapeSFloor ap.shape sls = false) :
    shapeS ap.shape sls = .ok nap.shape := by
  rw [apS_eq] at h
  rw [shapeS_eq]
  rw [excl_eq_rec] at hx
  split at h
  · cases h
  · rename_i hlen
    rw [if_neg hlen]
    cases hrs : apSLoop (isVector ap.shape) (apSOd ap) 0 ap.shape ap.strides sls with
    | error e => rw [hrs] at h; cases h
    | ok rs =>
      have hlen_rs : rs.length = ap.shape.length := apSLoop_length _ _ _ _ _ _ _ hrs
      rw [loop_ok_rel _ _ _ _ _ _ rs rs.length (by omega) hrs hx]
      rw [hrs] at h
      simp only [Except.map, apSOut] at h ⊢
      injection h with h
      split at h
      · rename_i hone
        simp only [Prod.mk.injEq] at h
        obtain ⟨-, h2, h3⟩ := h
        subst h2 h3
        simp at hone
        omega
      · simp only [Prod.mk.injEq] at h
        obtain ⟨h1, -, -⟩ := h
        subst h1
        simp only [shapeSOut, List.filter_map, List.map_map]
        rfl

theorem reshape_mismatch (st : St) (t : Dense) (dims : List Int)
    (h : totalSize t.shape ≠ totalSize dims) : t.reshape st dims = .ok (.errKept t) := by
  unfold Dense.reshape
  have : (totalSize t.shape != totalSize dims) = true := by simpa using h
  simp only [this, if_true]
  rfl

theorem reshape_plain' (st : St) (t : Dense) (dims : List Int)
    (hsz : totalSize t.shape = totalSize dims) (hold : t.old = none) (hv : t.view = false)
    (hlen : (t.win.len : Int) = totalSize dims) (hst : t.ap.strides = Dense.defaultStrides t.ap.o.col t.shape)
    (hne : dims ≠ []) :
    t.reshape st dims = .ok (.ok st { t with
      ap := { t.ap with shape := dims, strides := Dense.defaultStrides t.ap.o.col dims, fin := true } }) := by
  unfold Dense.reshape
  have h1 : (totalSize t.shape != totalSize dims) = false := by simpa using hsz
  have h2 : dims.isEmpty = false := by cases dims <;> simp_all
  have h3 : t.hasDefaultLayout = true := by
    unfold Dense.hasDefaultLayout
    rw [← hst, hlen, hsz]
    simp
  simp [h1, hold, hv, hlen, h2, h3, bind, Except.bind, pure, Except.pure]

/-! ### the covering invariant -/

theorem dot_box_bounds : ∀ (shape : Shape) (strides c : List Int),
    (∀ s ∈ strides, 0 ≤ s) → inBox shape c = true →
    0 ≤ dot c strides ∧ dot c strides ≤ dot (shape.map (· - 1)) strides := by
  intro shape
  induction shape with
  | nil => intro strides c _ h; cases c <;> simp_all [inBox, dot]
  | cons d ds ih =>
    intro strides c hs h
    cases c with
    | nil => simp [inBox] at h
    | cons x xs =>
      cases strides with
      | nil => simp [dot]
      | cons s ss =>
        simp only [inBox, Bool.and_eq_true, decide_eq_true_eq] at h
        obtain ⟨⟨h0, h1⟩, hrest⟩ := h
        have hs0 : 0 ≤ s := hs s List.mem_cons_self
        have := ih ss xs (fun y hy => hs y (List.mem_cons_of_mem _ hy)) hrest
        simp only [List.map_cons, dot]
        have a1 : 0 ≤ x * s := Int.mul_nonneg h0 hs0
        have a2 : x * s ≤ (d - 1) * s := Int.mul_le_mul_of_nonneg_right (by omega) hs0
        omega

theorem prod_pos : ∀ (shape : Shape), (∀ d ∈ shape, 0 < d) → 0 < prod shape := by
  intro shape
  induction shape with
  | nil => intro _; simp [prod]
  | cons d ds ih =>
    intro h
    simp only [prod]
    exact Int.mul_pos (h d List.mem_cons_self) (ih (fun y hy => h y (List.mem_cons_of_mem _ hy)))

theorem calcStrides_nonneg : ∀ (shape : Shape), (∀ d ∈ shape, 0 < d) → ∀ s ∈ calcStrides shape, 0 ≤ s := by
  intro shape
  induction shape with
  | nil => intro _ s hs; simp [calcStrides] at hs
  | cons d ds ih =>
    intro h s hs
    have hds : ∀ y ∈ ds, 0 < y := fun y hy => h y (List.mem_cons_of_mem _ hy)
    simp only [calcStrides, List.mem_cons] at hs
    rcases hs with rfl | hs
    · exact Int.le_of_lt (prod_pos ds hds)
    · exact ih hds s hs

theorem dot_calcStrides_max : ∀ (shape : Shape),
    dot (shape.map (· - 1)) (calcStrides shape) = prod shape - 1 := by
  intro shape
  induction shape with
  | nil => simp [dot, prod]
  | cons d ds ih =>
    simp only [List.map_cons, calcStrides, dot, prod, ih, Int.sub_mul, Int.one_mul]
    omega

/-! ### slicing preserves the covering invariant -/

theorem sliceDetails_cov (sl : Option Sl) (d : Int) (hd0 : 0 < d)
    (hsl : ∀ x, sl = some x → 0 ≤ x.step ∧ x.start < x.stop) (a b c : Int)
    (h : sliceDetails sl d = .ok (a, b, c)) : 0 ≤ a ∧ a < b ∧ b ≤ d ∧ 0 ≤ c := by
  cases sl with
  | none =>
    simp only [sliceDetails] at h
    injection h with h
    simp only [Prod.mk.injEq] at h
    obtain ⟨rfl, rfl, rfl⟩ := h
    omega
  | some s =>
    obtain ⟨h1, h2⟩ := hsl s rfl
    rw [sliceDetails_some] at h
    split at h
    · repeat' split at h
      all_goals cases h
    · rename_i hcond
      injection h with h
      simp only [Prod.mk.injEq] at h
      obtain ⟨rfl, rfl, rfl⟩ := h
      omega

theorem axisN_bound (i : Nat) (a b c : Int) (hab : a < b) (hc : 0 ≤ c) :
    0 < axisN i a b c ∧ (axisN i a b c - 1) * (if c > 0 then c else 1) ≤ b - a - 1 := by
  unfold axisN
  by_cases hc0 : c > 0
  · simp only [hc0, if_true]
    have hD : 0 < b - a := by omega
    generalize b - a = D at *
    have hq : goDiv D c = D / c := by
      unfold goDiv; exact Int.tdiv_eq_ediv_of_nonneg (by omega)
    have hm : goMod D c = D % c := by
      unfold goMod; exact Int.tmod_eq_emod_of_nonneg (by omega)
    have hdm := Int.mul_ediv_add_emod D c
    have h0 := Int.emod_nonneg D (Int.ne_of_gt hc0)
    have h1 := Int.emod_lt_of_pos D hc0
    have hqnn : 0 ≤ D / c := Int.ediv_nonneg (by omega) (by omega)
    rw [hq, hm]
    generalize D / c = q at *
    generalize D % c = m at *
    by_cases hr : (decide (m > 0) && decide (i > 0)) = true
    · simp only [hr, if_true]
      simp only [Bool.and_eq_true, decide_eq_true_eq] at hr
      rw [if_neg (by omega)]
      refine ⟨by omega, ?_⟩
      have : (q + 1 - 1) * c = c * q := by
        rw [Int.add_sub_cancel, Int.mul_comm]
      omega
    · simp only [hr]
      by_cases hq0 : q ≤ 0
      · simp only [hq0, if_true, Bool.false_eq_true, if_false]
        refine ⟨by omega, ?_⟩
        simp; omega
      · simp only [hq0, if_false, Bool.false_eq_true]
        refine ⟨by omega, ?_⟩
        have : (q - 1) * c = c * q - c := by
          rw [Int.sub_mul, Int.one_mul, Int.mul_comm]
        omega
  · simp only [hc0, if_false]
    omega

theorem sliceAxis_cov (isVec : Bool) (od i : Nat) (d stride : Int) (sl : Option Sl) (r : AxisRes)
    (hd0 : 0 < d) (hs0 : 0 ≤ stride) (hsl : ∀ x, sl = some x → 0 ≤ x.step ∧ x.start < x.stop)
    (h : sliceAxis isVec od i d stride sl = .ok r) :
    0 ≤ r.dStart ∧ 0 ≤ r.dEnd ∧ 0 ≤ r.stride ∧ 0 < r.n ∧
      (r.n - 1) * r.stride + r.dStart + r.dEnd ≤ (d - 1) * stride := by
  rw [sliceAxis_eq] at h
  cases hd : sliceDetails sl d with
  | error e => rw [hd] at h; cases h
  | ok v =>
    obtain ⟨a, b, c⟩ := v
    rw [hd] at h
    injection h with h
    subst h
    obtain ⟨ha, hab, hbd, hc⟩ := sliceDetails_cov sl d hd0 hsl a b c hd
    obtain ⟨hn, hm⟩ := axisN_bound i a b c hab hc
    simp only []
    have e1 : (if c > 0 then stride * c else stride) = (if c > 0 then c else 1) * stride := by
      split
      · exact Int.mul_comm _ _
      · simp
    rw [e1]
    have heff : 0 < (if c > 0 then c else 1) := by split <;> omega
    generalize (if c > 0 then c else 1) = eff at *
    have t1 : 0 ≤ a * stride := Int.mul_nonneg ha hs0
    have t2 : 0 ≤ (d - b) * stride := Int.mul_nonneg (by omega) hs0
    have t3 : (axisN i a b c - 1) * eff * stride ≤ (b - a - 1) * stride :=
      Int.mul_le_mul_of_nonneg_right hm hs0
    refine ⟨t1, t2, ?_, hn, ?_⟩
    · exact Int.mul_nonneg (by omega) hs0
    · rw [← Int.mul_assoc]
      have e2 : (b - a - 1) * stride + a * stride + (d - b) * stride = (d - 1) * stride := by
        simp only [Int.sub_mul]; omega
      omega

theorem head_join_mem {α} (l : List (Option α)) (x : α) (h : l.head?.join = some x) : some x ∈ l := by
  cases l with
  | nil => simp at h
  | cons a t =>
    simp only [List.head?_cons, Option.join_some] at h
    rw [h]; exact List.mem_cons_self

theorem apSLoop_cov (isVec : Bool) (od : Nat) : ∀ (shape : Shape) (strides : List Int)
    (sls : List (Option Sl)) (i : Nat) (rs : List AxisRes),
    (∀ s ∈ strides, 0 ≤ s) → (∀ d ∈ shape, 0 < d) →
    (∀ s ∈ sls, ∀ x, s = some x → 0 ≤ x.step ∧ x.start < x.stop) →
    apSLoop isVec od i shape strides sls = .ok rs →
    (∀ r ∈ rs, 0 ≤ r.stride ∧ 0 < r.n) ∧ 0 ≤ sumI (rs.map (·.dStart)) ∧ 0 ≤ sumI (rs.map (·.dEnd)) ∧
      sumI (rs.map (fun r => (r.n - 1) * r.stride)) + sumI (rs.map (·.dStart)) + sumI (rs.map (·.dEnd))
        ≤ dot (shape.map (· - 1)) strides := by
  intro shape
  induction shape with
  | nil =>
    intro strides sls i rs _ _ _ h
    simp only [apSLoop] at h
    injection h with h
    subst h
    simp [sumI, dot]
  | cons d ds ih =>
    intro strides sls i rs hs hd hsl h
    cases strides with
    | nil => simp [apSLoop, throwPanic] at h
    | cons s ss =>
      rw [apSLoop_cons] at h
      cases h1 : sliceAxis isVec od i d s sls.head?.join with
      | error e => rw [h1] at h; cases h
      | ok r =>
        rw [h1] at h
        simp only [] at h
        cases h2 : apSLoop isVec od (i + 1) ds ss sls.tail with
        | error e => rw [h2] at h; cases h
        | ok rs' =>
          rw [h2] at h
          injection h with h
          subst h
          obtain ⟨a1, a2, a3, a4, a5⟩ := sliceAxis_cov isVec od i d s _ r (hd d List.mem_cons_self)
            (hs s List.mem_cons_self)
            (fun x hx => hsl (some x) (head_join_mem _ _ hx) x rfl) h1
          obtain ⟨b1, b2, b3, b4⟩ := ih ss sls.tail (i + 1) rs'
            (fun y hy => hs y (List.mem_cons_of_mem _ hy))
            (fun y hy => hd y (List.mem_cons_of_mem _ hy))
            (fun y hy => hsl y (List.mem_of_mem_tail hy)) h2
          refine ⟨?_, ?_, ?_, ?_⟩
          · intro r' hr'
            rcases List.mem_cons.1 hr' with rfl | hr'
            · exact ⟨a3, a4⟩
            · exact b1 r' hr'
          · simp only [List.map_cons, sumI]; omega
          · simp only [List.map_cons, sumI]; omega
          · simp only [List.map_cons, sumI, dot]; omega

theorem sumI_nonneg : ∀ (l : List Int), (∀ x ∈ l, 0 ≤ x) → 0 ≤ sumI l := by
  intro l
  induction l with
  | nil => intro _; simp [sumI]
  | cons a t ih =>
    intro h
    have := ih (fun x hx => h x (List.mem_cons_of_mem _ hx))
    have := h a List.mem_cons_self
    simp only [sumI]; omega

theorem kept_mem (rs : List AxisRes) (flags : List Bool) (p : AxisRes × Bool → Bool) (r : AxisRes)
    (h : r ∈ ((rs.zip flags).filter p).map (·.1)) : r ∈ rs := by
  obtain ⟨x, hx, rfl⟩ := List.mem_map.1 h
  have := (List.mem_filter.1 hx).1
  obtain ⟨a, b⟩ := x
  exact (List.of_mem_zip this).1

theorem kept_dot_le : ∀ (rs : List AxisRes) (flags : List Bool) (p : AxisRes × Bool → Bool),
    rs.length ≤ flags.length → (∀ r ∈ rs, 0 ≤ r.stride ∧ 0 < r.n) →
    dot (((((rs.zip flags).filter p).map (·.1)).map (·.n)).map (· - 1))
        ((((rs.zip flags).filter p).map (·.1)).map (·.stride))
      ≤ sumI (rs.map (fun r => (r.n - 1) * r.stride)) := by
  intro rs
  induction rs with
  | nil => intro flags p _ _; simp [dot, sumI]
  | cons r rs' ih =>
    intro flags p hl hnn
    cases flags with
    | nil => simp at hl
    | cons b bs =>
      have := ih bs p (by simp at hl; omega) (fun y hy => hnn y (List.mem_cons_of_mem _ hy))
      obtain ⟨c1, c2⟩ := hnn r List.mem_cons_self
      have t : 0 ≤ (r.n - 1) * r.stride := Int.mul_nonneg (by omega) c1
      simp only [List.zip_cons_cons, List.map_cons, sumI]
      by_cases hp : p (r, b) = true
      · rw [List.filter_cons_of_pos hp]
        simp only [List.map_cons, dot]
        omega
      · rw [List.filter_cons_of_neg hp]
        omega

theorem apS_cov (ap nap : AP) (size ndStart ndEnd : Int) (sls : List (Option Sl))
    (hs : ∀ s ∈ ap.strides, 0 ≤ s) (hd : ∀ d ∈ ap.shape, 0 < d)
    (hdot : dot (ap.shape.map (· - 1)) ap.strides < size)
    (hstep : ∀ s ∈ sls, ∀ x, s = some x → 0 ≤ x.step ∧ x.start < x.stop)
    (h : ap.S size sls = .ok (nap, ndStart, ndEnd)) :
    0 ≤ ndStart ∧ ndStart ≤ ndEnd ∧ ndEnd ≤ size ∧
      nap.strides.length = nap.shape.length ∧ (∀ s ∈ nap.strides, 0 ≤ s) ∧ (∀ d ∈ nap.shape, 0 < d) ∧
      dot (nap.shape.map (· - 1)) nap.strides < ndEnd - ndStart := by
  rw [apS_eq] at h
  split at h
  · cases h
  · cases hrs : apSLoop (isVector ap.shape) (apSOd ap) 0 ap.shape ap.strides sls with
    | error e => rw [hrs] at h; cases h
    | ok rs =>
      obtain ⟨b1, b2, b3, b4⟩ := apSLoop_cov _ _ _ _ _ _ rs hs hd hstep hrs
      have b5 : 0 ≤ sumI (rs.map (fun r => (r.n - 1) * r.stride)) := by
        apply sumI_nonneg
        intro x hx
        obtain ⟨r, hr, rfl⟩ := List.mem_map.1 hx
        obtain ⟨c1, c2⟩ := b1 r hr
        exact Int.mul_nonneg (by omega) c1
      rw [hrs] at h
      simp only [Except.map, apSOut] at h
      injection h with h
      split at h
      · rename_i hone
        simp only [Prod.mk.injEq] at h
        obtain ⟨h1, h2, h3⟩ := h
        subst h1 h2 h3
        simp only [beq_iff_eq] at hone
        refine ⟨b2, by omega, by omega, rfl, by simp, by simp, ?_⟩
        simp [dot]; omega
      · simp only [Prod.mk.injEq] at h
        obtain ⟨h1, h2, h3⟩ := h
        subst h1 h2 h3
        simp only []
        refine ⟨b2, by omega, by omega, by simp, ?_, ?_, ?_⟩
        · intro s hs'
          obtain ⟨r, hr, rfl⟩ := List.mem_map.1 hs'
          exact (b1 r (kept_mem _ _ _ r hr)).1
        · intro d hd'
          obtain ⟨r, hr, rfl⟩ := List.mem_map.1 hd'
          exact (b1 r (kept_mem _ _ _ r hr)).2
        · have := kept_dot_le rs (sls.map Option.isSome ++ List.replicate rs.length false)
            (fun x => !(x.1.n == 1 && x.2)) (by simp) b1
          omega

/-! ### lazy transposition preserves the covering invariant -/

theorem unsafePermute_noop (p : List Int) (xs : List Int) (hn : xs.length ≤ 5)
    (hp : isPerm p xs.length = true)
    (hi : ((isMonotonicInts p).1 && (isMonotonicInts p).2) = true) :
    unsafePermute p xs = .ok PermRes.noop := by
  have h := unsafePermute_map' (fun i : Int => xs[i.toNat]!) p (rangeI xs.length)
  rw [map_rangeI_getElem, unsafePermute_rangeI _ hn p hp, if_pos hi] at h
  exact h

theorem isPerm_mem_lt {p : List Int} {n : Nat} (hp : isPerm p n = true) {i : Int} (hi : i ∈ p) :
    ∃ j, j < n ∧ i = Int.ofNat j := by
  have := (isPerm_perm hp).symm.subset hi
  obtain ⟨j, hj, rfl⟩ := mem_rangeI.1 this
  exact ⟨j, hj, rfl⟩

theorem gather_mem (p : List Int) (n : Nat) (hp : isPerm p n = true) (xs : List Int) (hx : xs.length = n)
    (y : Int) (hy : y ∈ p.map (fun i => xs[i.toNat]!)) : y ∈ xs := by
  obtain ⟨i, hi, rfl⟩ := List.mem_map.1 hy
  obtain ⟨j, hj, rfl⟩ := isPerm_mem_lt hp hi
  have hj' : j < xs.length := by omega
  simp [hj']

theorem gather_map (f : Int → Int) (p : List Int) (n : Nat) (hp : isPerm p n = true) (xs : List Int)
    (hx : xs.length = n) :
    p.map (fun i => (xs.map f)[i.toNat]!) = (p.map (fun i => xs[i.toNat]!)).map f := by
  rw [List.map_map]
  apply List.map_congr_left
  intro i hi
  obtain ⟨j, hj, rfl⟩ := isPerm_mem_lt hp hi
  have hj' : j < xs.length := by omega
  simp [hj']

theorem apT_ok_cases (ap tap : AP) (axes ax' : List Int) (hr : ap.shape.length ≤ 5)
    (hl : ap.strides.length = ap.shape.length)
    (hp : isPerm axes ap.shape.length = true)
    (h : ap.T axes = .ok (.ok tap ax')) (hnv : isVector ap.shape = false) :
    (tap.shape = ap.shape ∧ tap.strides = ap.strides) ∨
    (tap.shape = axes.map (fun i => ap.shape[i.toNat]!) ∧
      tap.strides = axes.map (fun i => ap.strides[i.toNat]!)) := by
  have hlen := ((isPerm_iff _ _).1 hp).1
  by_cases hse : isScalarEquiv ap.shape = true
  · unfold AP.T at h
    simp [hlen, hse, pure, Except.pure] at h
  · have hse' : isScalarEquiv ap.shape = false := by simpa using hse
    have hemp : axes.isEmpty = false := by
      cases axes with
      | nil =>
        have : ap.shape = [] := List.eq_nil_of_length_eq_zero hlen.symm
        rw [this] at hse; simp [isScalarEquiv] at hse
      | cons _ _ => rfl
    unfold AP.T at h
    by_cases hni : ((isMonotonicInts axes).1 && (isMonotonicInts axes).2) = true
    · have hsh := unsafePermute_noop axes ap.shape hr hp hni
      have hst := unsafePermute_noop axes ap.strides (hl ▸ hr) (hl ▸ hp) hni
      by_cases hh : (axes.head? == some 0) = true
      · simp [hlen, hemp, hse', hni, hh, pure, Except.pure] at h
      · simp only [hlen, hemp, hse', hnv, hni, hh, hsh, hst, Bool.false_eq_true, if_false, bne_self_eq_false,
          Bool.and_false, bind, Except.bind, pure, Except.pure] at h
        injection h with h
        injection h with h1 h2
        subst h1
        exact .inl ⟨rfl, rfl⟩
    · have hni' : ((isMonotonicInts axes).1 && (isMonotonicInts axes).2) = false := by simpa using hni
      have hsh := unsafePermute_getElem axes ap.shape hr hp hni
      have hst := unsafePermute_getElem axes ap.strides (hl ▸ hr) (hl ▸ hp) hni
      simp only [hlen, hemp, hse', hnv, hni', hsh, hst, Bool.false_eq_true, if_false, bne_self_eq_false,
          Bool.and_false, Bool.false_and, bind, Except.bind, pure, Except.pure] at h
      injection h with h
      injection h with h1 h2
      subst h1
      exact .inr ⟨rfl, rfl⟩

/-- a valid permutation of two axes is the identity or the swap -/
theorem isPerm_two (axes : List Int) (hp : isPerm axes 2 = true) : axes = [0, 1] ∨ axes = [1, 0] := by
  obtain ⟨hlen, hmem⟩ := (isPerm_iff _ _).1 hp
  match axes, hlen with
  | [x, y], _ =>
    have h0 := hmem 0 (by omega)
    have h1 := hmem 1 (by omega)
    simp only [List.mem_cons, List.not_mem_nil, or_false] at h0 h1
    have e0 : (Int.ofNat 0 : Int) = 0 := rfl
    have e1 : (Int.ofNat 1 : Int) = 1 := rfl
    rw [e0] at h0
    rw [e1] at h1
    rcases h0 with h0 | h0 <;> rcases h1 with h1 | h1
    · omega
    · left; rw [← h0, ← h1]
    · right; rw [← h0, ← h1]
    · omega

/-- the outcome of a successful `AP.T` on a vector: only a two-dimensional vector can be transposed, its shape is
    swapped and the axis that holds the elements keeps its stride -/
theorem apT_ok_vector (ap tap : AP) (axes ax' : List Int)
    (hl : ap.strides.length = ap.shape.length)
    (hp : isPerm axes ap.shape.length = true)
    (h : ap.T axes = .ok (.ok tap ax')) (hv : isVector ap.shape = true) :
    ∃ a b s0 s1, ap.shape = [a, b] ∧ ap.strides = [s0, s1] ∧ isVector [a, b] = true ∧
      tap.shape = [b, a] ∧ tap.strides = vectorTStrides b s0 s1 := by
  match hsh : ap.shape, hst : ap.strides with
  | [], _ => rw [hsh] at hv; simp [isVector, isColVec, isRowVec] at hv
  | [a], _ =>
    -- the only permutation of one axis is the identity: a no-op
    rw [hsh] at hp
    obtain ⟨hlen, hmem⟩ := (isPerm_iff _ _).1 hp
    match axes, hlen with
    | [x], _ =>
      have h0 := hmem 0 (by simp)
      simp only [List.mem_cons, List.not_mem_nil, or_false] at h0
      have e0 : (Int.ofNat 0 : Int) = 0 := rfl
      rw [e0] at h0
      subst h0
      have hm : isMonotonicInts [(0 : Int)] = (true, true) := by decide
      unfold AP.T at h
      by_cases hse : isScalarEquiv [a] = true
      · simp [hsh, hse, pure, Except.pure] at h
      · simp [hsh, hse, hm, pure, Except.pure] at h
  | [a, b], [s0, s1] =>
    rw [hsh] at hp hv
    rcases isPerm_two axes hp with rfl | rfl
    · have hm : isMonotonicInts [(0 : Int), 1] = (true, true) := by decide
      unfold AP.T at h
      by_cases hse : isScalarEquiv [a, b] = true
      · simp [hsh, hse, pure, Except.pure] at h
      · simp [hsh, hse, hm, pure, Except.pure] at h
    · have := apT_vector2 ap a b s0 s1 hsh hst hv [1, 0] (.inr rfl)
      rw [this] at h
      injection h with h
      injection h with h1 h2
      subst h1
      exact ⟨a, b, s0, s1, rfl, rfl, hv, rfl, rfl⟩
  | [_, _], [] => rw [hsh, hst] at hl; simp at hl
  | [_, _], [_] => rw [hsh, hst] at hl; simp at hl
  | [_, _], _ :: _ :: _ :: _ => rw [hsh, hst] at hl; simp at hl
  | _ :: _ :: _ :: _, _ => rw [hsh] at hv; simp [isVector, isColVec, isRowVec] at hv

theorem apT_cov (ap tap : AP) (len : Int) (axes ax' : List Int) (hr : ap.shape.length ≤ 5)
    (hl : ap.strides.length = ap.shape.length)
    (hs : ∀ s ∈ ap.strides, 0 ≤ s) (hd : ∀ d ∈ ap.shape, 0 < d)
    (hdot : dot (ap.shape.map (· - 1)) ap.strides < len)
    (hp : isPerm axes ap.shape.length = true)
    (h : ap.T axes = .ok (.ok tap ax')) :
    tap.strides.length = tap.shape.length ∧ (∀ s ∈ tap.strides, 0 ≤ s) ∧ (∀ d ∈ tap.shape, 0 < d) ∧
      dot (tap.shape.map (· - 1)) tap.strides < len := by
  by_cases hv : isVector ap.shape = true
  · -- a two-dimensional vector: swapped shape, the long axis keeps its stride
    obtain ⟨a, b, s0, s1, hsh, hst, hv2, e1, e2⟩ := apT_ok_vector ap tap axes ax' hl hp h hv
    rw [hsh] at hd
    rw [hst] at hs
    rw [hsh, hst] at hdot
    have ha := hd a (by simp)
    have hb := hd b (by simp)
    have h0 := hs s0 (by simp)
    have h1 := hs s1 (by simp)
    rw [e1, e2]
    rcases isVector_two a b hv2 with ⟨ha1, hb1⟩ | ⟨hb1, ha1⟩
    · subst ha1
      simp only [vectorTStrides, hb1, if_true]
      refine ⟨rfl, ?_, ?_, ?_⟩
      · intro s hs'; simp at hs'; omega
      · intro d hd'; simp at hd'; omega
      · simp [dot] at hdot ⊢; omega
    · subst hb1
      have hnb : ¬ ((1 : Int) > 1) := by omega
      simp only [vectorTStrides, hnb, if_false]
      refine ⟨rfl, ?_, ?_, ?_⟩
      · intro s hs'; simp at hs'; omega
      · intro d hd'; simp at hd'; omega
      · simp [dot] at hdot ⊢; omega
  · have hnv : isVector ap.shape = false := by simpa using hv
    rcases apT_ok_cases ap tap axes ax' hr hl hp h hnv with ⟨e1, e2⟩ | ⟨e1, e2⟩
    · rw [e1, e2]; exact ⟨hl, hs, hd, hdot⟩
    · rw [e1, e2]
      refine ⟨by simp, ?_, ?_, ?_⟩
      · intro s hs'
        exact hs s (gather_mem axes _ (hl ▸ hp) ap.strides rfl s hs')
      · intro d hd'
        exact hd d (gather_mem axes _ hp ap.shape rfl d hd')
      · rw [← gather_map (· - 1) axes _ hp ap.shape rfl,
          dot_getElem_perm axes _ hp _ _ (by simp) hl]
        exact hdot

end TM.ShapeAlg
