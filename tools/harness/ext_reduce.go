package main

// C08 — reductions: steps `red`, `arg`, `reduce` of the line protocol, and the scalar functions the
// reduction kernels use (consulted by the term evaluator through extraOps).
//
//   red <sum|max|min> <fn|meth> $a <axes|-> [vs=<n>]   Sum/Max/Min along the axes (`-` = none given = all)
//   arg <argmax|argmin> <fn|meth> $a <axis|all> [vs=<n>]  Argmax/Argmin along one axis / of the flat tensor
//   reduce $a <axis> [vs=<n>]                           (*Dense).Reduce(x+y, axis, zero value)
//
// `vs=<n>` declares the value set of the program to the model and to the specification (the driver
// never sees the `vset=` pseudo step); the step is refused as `badprog` when the declaration is
// wrong, so a generator slip shows up as a correspondence mismatch.
//
// Every step pushes exactly one variable (the result tensor; an empty slot on failure). The
// caller's axes slice is reported as `along=` after the call (Sum sorts it in place, finding F42).

import (
	"fmt"
	"reflect"
	"strconv"
	"strings"

	"gorgonia.org/tensor"
)

func cmpOrdered(a, b interface{}) (gt, lt bool, ok bool) {
	switch x := a.(type) {
	case int:
		y, k := b.(int)
		return x > y, x < y, k
	case int8:
		y, k := b.(int8)
		return x > y, x < y, k
	case int16:
		y, k := b.(int16)
		return x > y, x < y, k
	case int32:
		y, k := b.(int32)
		return x > y, x < y, k
	case int64:
		y, k := b.(int64)
		return x > y, x < y, k
	case uint:
		y, k := b.(uint)
		return x > y, x < y, k
	case uint8:
		y, k := b.(uint8)
		return x > y, x < y, k
	case uint16:
		y, k := b.(uint16)
		return x > y, x < y, k
	case uint32:
		y, k := b.(uint32)
		return x > y, x < y, k
	case uint64:
		y, k := b.(uint64)
		return x > y, x < y, k
	case float32:
		y, k := b.(float32)
		return x > y, x < y, k
	case float64:
		y, k := b.(float64)
		return x > y, x < y, k
	case string:
		y, k := b.(string)
		return x > y, x < y, k
	}
	return false, false, false
}

func init() {
	// Vec{Max,Min}<T>(acc, data): `if bv > v { a[i] = bv }` — the accumulator is kept unless the
	// new element is strictly greater (smaller).
	extraOps["maxv"] = func(args []interface{}) (interface{}, error) {
		if len(args) != 2 {
			return nil, fmt.Errorf("maxv: arity")
		}
		for _, a := range args {
			if m, ok := a.(errMark); ok {
				return m, nil
			}
		}
		gt, _, ok := cmpOrdered(args[1], args[0])
		if !ok {
			return nil, fmt.Errorf("maxv: unordered operands %T %T", args[0], args[1])
		}
		if gt {
			return args[1], nil
		}
		return args[0], nil
	}
	extraOps["minv"] = func(args []interface{}) (interface{}, error) {
		if len(args) != 2 {
			return nil, fmt.Errorf("minv: arity")
		}
		for _, a := range args {
			if m, ok := a.(errMark); ok {
				return m, nil
			}
		}
		_, lt, ok := cmpOrdered(args[1], args[0])
		if !ok {
			return nil, fmt.Errorf("minv: unordered operands %T %T", args[0], args[1])
		}
		if lt {
			return args[1], nil
		}
		return args[0], nil
	}
	// Max<T>(a, b) / Min<T>(a, b): `if a > b { return a }; return b`
	extraOps["maxs"] = func(args []interface{}) (interface{}, error) {
		if len(args) != 2 {
			return nil, fmt.Errorf("maxs: arity")
		}
		for _, a := range args {
			if m, ok := a.(errMark); ok {
				return m, nil
			}
		}
		gt, _, ok := cmpOrdered(args[0], args[1])
		if !ok {
			return nil, fmt.Errorf("maxs: unordered operands %T %T", args[0], args[1])
		}
		if gt {
			return args[0], nil
		}
		return args[1], nil
	}
	extraOps["mins"] = func(args []interface{}) (interface{}, error) {
		if len(args) != 2 {
			return nil, fmt.Errorf("mins: arity")
		}
		for _, a := range args {
			if m, ok := a.(errMark); ok {
				return m, nil
			}
		}
		_, lt, ok := cmpOrdered(args[0], args[1])
		if !ok {
			return nil, fmt.Errorf("mins: unordered operands %T %T", args[0], args[1])
		}
		if lt {
			return args[0], nil
		}
		return args[1], nil
	}

	extSteps["red"] = stepRed
	extSteps["arg"] = stepArg
	extSteps["reduce"] = stepReduce
}

// vsDeclOK checks the optional trailing `vs=<n>` declaration against the program's value set.
func (p *prog) vsDeclOK(rest []string) bool {
	for _, t := range rest {
		if !strings.HasPrefix(t, "vs=") {
			return false
		}
		n, err := strconv.Atoi(t[3:])
		if err != nil || n != p.vset {
			return false
		}
	}
	return len(rest) <= 1
}

// finishRed records the result of a reduction as a new variable.
func (p *prog) finishRed(f func() (*tensor.Dense, error)) *rec {
	var out *tensor.Dense
	res := guard(func() error {
		t, err := f()
		if err != nil {
			return err
		}
		out = t
		return nil
	})
	if res != "ok" || out == nil {
		p.push(nil, nil)
		if res == "ok" {
			res = "err"
		}
		return simple(res)
	}
	id := p.identOf(out)
	p.push(out, dtOf(out.Dtype()))
	r := simple("ok")
	r.fields["ident"] = id
	r.fields["shape"] = showInts(out.Shape())
	return r
}

func stepRed(p *prog, idx int, toks []string) *rec {
	if len(toks) < 5 || !p.vsDeclOK(toks[5:]) {
		p.push(nil, nil)
		return simple("badprog")
	}
	op, via := toks[1], toks[2]
	a, _ := p.get(toks[3])
	along, err := parseInts(toks[4])
	if a == nil || err != nil {
		p.push(nil, nil)
		return simple("skip")
	}
	if op != "sum" && op != "max" && op != "min" || (via != "fn" && via != "meth") {
		p.push(nil, nil)
		return simple("badprog")
	}
	r := p.finishRed(func() (*tensor.Dense, error) {
		var ret tensor.Tensor
		var err error
		if via == "meth" {
			var d *tensor.Dense
			switch op {
			case "sum":
				d, err = a.Sum(along...)
			case "max":
				d, err = a.Max(along...)
			case "min":
				d, err = a.Min(along...)
			}
			if err != nil {
				return nil, err
			}
			return d, nil
		}
		switch op {
		case "sum":
			ret, err = tensor.Sum(a, along...)
		case "max":
			mx, ok := a.Engine().(tensor.Maxer)
			if !ok {
				return nil, fmt.Errorf("engine is not a Maxer")
			}
			ret, err = mx.Max(a, along...)
		case "min":
			mn, ok := a.Engine().(tensor.Miner)
			if !ok {
				return nil, fmt.Errorf("engine is not a Miner")
			}
			ret, err = mn.Min(a, along...)
		}
		if err != nil {
			return nil, err
		}
		d, ok := ret.(*tensor.Dense)
		if !ok {
			return nil, fmt.Errorf("not dense")
		}
		return d, nil
	})
	// the caller's slice after the call (in-place sort: C19 / F42)
	r.fields["along"] = showInts(along)
	return r
}

func stepArg(p *prog, idx int, toks []string) *rec {
	if len(toks) < 5 || !p.vsDeclOK(toks[5:]) {
		p.push(nil, nil)
		return simple("badprog")
	}
	op, via := toks[1], toks[2]
	a, _ := p.get(toks[3])
	if a == nil {
		p.push(nil, nil)
		return simple("skip")
	}
	axis := tensor.AllAxes
	if toks[4] != "all" {
		n, err := strconv.Atoi(toks[4])
		if err != nil {
			p.push(nil, nil)
			return simple("skip")
		}
		axis = n
	}
	if op != "argmax" && op != "argmin" || (via != "fn" && via != "meth") {
		p.push(nil, nil)
		return simple("badprog")
	}
	return p.finishRed(func() (*tensor.Dense, error) {
		if via == "meth" {
			if op == "argmax" {
				return a.Argmax(axis)
			}
			return a.Argmin(axis)
		}
		var ret tensor.Tensor
		var err error
		if op == "argmax" {
			ret, err = tensor.Argmax(a, axis)
		} else {
			ret, err = tensor.Argmin(a, axis)
		}
		if err != nil {
			return nil, err
		}
		d, ok := ret.(*tensor.Dense)
		if !ok {
			return nil, fmt.Errorf("not dense")
		}
		return d, nil
	})
}

// addFn is the user function handed to (*Dense).Reduce: (x, y) ↦ x + y in the element type
// (for bool: x != y, term `ne`, so that the generic kernels are exercised on every element type).
func addFn(dt *dtInfo) interface{} {
	switch dt.name {
	case "b":
		return func(x, y bool) bool { return x != y }
	case "i":
		return func(x, y int) int { return x + y }
	case "i8":
		return func(x, y int8) int8 { return x + y }
	case "i16":
		return func(x, y int16) int16 { return x + y }
	case "i32":
		return func(x, y int32) int32 { return x + y }
	case "i64":
		return func(x, y int64) int64 { return x + y }
	case "u":
		return func(x, y uint) uint { return x + y }
	case "u8":
		return func(x, y uint8) uint8 { return x + y }
	case "u16":
		return func(x, y uint16) uint16 { return x + y }
	case "u32":
		return func(x, y uint32) uint32 { return x + y }
	case "u64":
		return func(x, y uint64) uint64 { return x + y }
	case "f32":
		return func(x, y float32) float32 { return x + y }
	case "f64":
		return func(x, y float64) float64 { return x + y }
	case "c64":
		return func(x, y complex64) complex64 { return x + y }
	case "c128":
		return func(x, y complex128) complex128 { return x + y }
	case "str":
		return func(x, y string) string { return x + y }
	}
	return nil
}

func stepReduce(p *prog, idx int, toks []string) *rec {
	if len(toks) < 3 || !p.vsDeclOK(toks[3:]) {
		p.push(nil, nil)
		return simple("badprog")
	}
	a, dt := p.get(toks[1])
	axis, err := strconv.Atoi(toks[2])
	if a == nil || err != nil || dt == nil {
		p.push(nil, nil)
		return simple("skip")
	}
	return p.finishRed(func() (*tensor.Dense, error) {
		return a.Reduce(addFn(dt), axis, reflect.Zero(dt.dt.Type).Interface())
	})
}
