import TensorModel.Proofs.Iter
import TensorModel.Proofs.Ltoi
import TensorModel.Ext.Assemble
/-! Helper lemmas for C10 (concatenation, stacking, repetition). -/
namespace TM
namespace Asm

/-! ### list lemmas -/

theorem blit_append {α} (w r c : List α) :
    blit (w ++ r) w.length c = w ++ c ++ r.drop c.length := by
  simp [blit, List.drop_append]

theorem blit_length {α} (dst c : List α) (n : Nat) (h : n + c.length ≤ dst.length) :
    (blit dst n c).length = dst.length := by
  simp [blit]; omega

/-- `i`-th block of `P` cells -/
def blk {α} (P i : Nat) (l : List α) : List α := (l.drop (i * P)).take P

theorem blk_length {α} (P i : Nat) (l : List α) (h : (i + 1) * P ≤ l.length) : (blk P i l).length = P := by
  simp [blk]; rw [Nat.add_mul] at h; omega

theorem blocks_flatten {α} (P : Nat) : ∀ (d : Nat) (l : List α), l.length = d * P →
    (List.range d).flatMap (fun i => blk P i l) = l := by
  intro d
  induction d with
  | zero => intro l h; simp at h; simp [h]
  | succ d ih =>
    intro l h
    rw [List.range_succ, List.flatMap_append]
    have h1 : (List.range d).flatMap (fun i => blk P i l) = (List.range d).flatMap (fun i => blk P i (l.take (d * P))) := by
      apply flatMap_congr'
      intro i hi
      simp only [List.mem_range] at hi
      simp only [blk]
      rw [List.drop_take, List.take_take]
      congr 1
      have : (i + 1) * P ≤ d * P := Nat.mul_le_mul_right P hi
      rw [Nat.add_mul] at this
      omega
    rw [h1, ih (l.take (d * P)) (by simp; rw [h, Nat.succ_mul]; omega)]
    simp [blk]
    have : (l.drop (d * P)).length ≤ P := by simp [h, Nat.succ_mul]
    rw [List.take_of_length_le this, List.take_append_drop]

/-! ### tabulation over all coordinates, outermost axis first -/

/-- the element list of `LA.tabulate` -/
def tabE {α} (sh : Shape) (f : List Int → Option α) : Option (List α) := (allCoords sh).mapM f

theorem tabulate_eq {α} (sh : Shape) (f : List Int → Option α) :
    LA.tabulate sh f = (tabE sh f).map (fun es => ⟨sh, es⟩) := rfl

theorem mapM_flatMap_opt {α β γ} (f : β → Option γ) (g : α → List β) : ∀ (l : List α),
    (l.flatMap g).mapM f = (l.mapM (fun a => (g a).mapM f)).map List.flatten := by
  intro l
  induction l with
  | nil => simp [List.mapM_nil]
  | cons x xs ih =>
    rw [List.flatMap_cons, List.mapM_append, List.mapM_cons, ih]
    cases h1 : (g x).mapM f <;> cases h2 : xs.mapM (fun a => (g a).mapM f) <;> simp

theorem mapM_congr_opt {α β} (f g : α → Option β) : ∀ (l : List α), (∀ a ∈ l, f a = g a) →
    l.mapM f = l.mapM g := by
  intro l
  induction l with
  | nil => intro _; rfl
  | cons x xs ih =>
    intro h
    rw [List.mapM_cons, List.mapM_cons, h x (by simp), ih (fun a ha => h a (by simp [ha]))]

theorem mapM_range_some {β} (E : Nat → β) (n : Nat) :
    (List.range n).mapM (fun i => some (E i)) = some ((List.range n).map E) := by
  have := @List.mapM_pure Option Nat β _ _ (List.range n) E
  exact this

theorem tabE_cons {α} (d : Int) (ds : Shape) (f : List Int → Option α) :
    tabE (d :: ds) f =
      ((List.range d.toNat).mapM (fun (i : Nat) => tabE ds (fun c => f ((i : Int) :: c)))).map List.flatten := by
  simp only [tabE, allCoords, rangeI]
  rw [mapM_flatMap_opt, List.mapM_map]
  congr 1
  apply congrArg (fun g => List.mapM g (List.range d.toNat))
  funext i
  simp only [Function.comp, List.mapM_map]
  rfl

theorem tabE_nil {α} (f : List Int → Option α) : tabE [] f = (f []).map (fun x => [x]) := by
  simp [tabE, allCoords, List.mapM_cons, List.mapM_nil]
  cases f [] <;> rfl

/-- if every row is defined, the tabulation is the concatenation of the rows -/
theorem tabE_cons_rows {α} (d : Int) (ds : Shape) (f : List Int → Option α) (E : Nat → List α)
    (h : ∀ i, i < d.toNat → tabE ds (fun c => f ((i : Int) :: c)) = some (E i)) :
    tabE (d :: ds) f = some ((List.range d.toNat).flatMap E) := by
  rw [tabE_cons]
  have : (List.range d.toNat).mapM (fun (i : Nat) => tabE ds (fun c => f ((i : Int) :: c))) =
      (List.range d.toNat).mapM (fun i => some (E i)) := by
    apply mapM_congr_opt
    intro i hi
    exact h i (by simpa using hi)
  rw [this, mapM_range_some]
  simp [List.flatMap_def]

/-! ### sub-arrays along the outermost axis -/

theorem prod_nonneg : ∀ (l : List Int), (∀ x ∈ l, 0 ≤ x) → 0 ≤ prod l
  | [], _ => by simp [prod]
  | x :: xs, h => by
    simp only [prod]
    exact Int.mul_nonneg (h x (by simp)) (prod_nonneg xs (fun d hd => h d (by simp [hd])))

theorem getElem?_blk {α} (P i r : Nat) (l : List α) (h : r < P) : (blk P i l)[r]? = l[i * P + r]? := by
  simp [blk, List.getElem?_take, h]

/-- element `(n, c…)` of an array is element `c…` of its `n`-th outer block -/
theorem at_cons {α} (d : Int) (ds : Shape) (e : List α) (n : Nat) (c : List Int) (hn : (n : Int) < d) :
    (⟨d :: ds, e⟩ : LA α).at ((n : Int) :: c) = (⟨ds, blk (prod ds).toNat n e⟩ : LA α).at c := by
  simp only [LA.at, inBox]
  have h0 : (0 : Int) ≤ (n : Int) := Int.natCast_nonneg n
  simp only [h0, hn, decide_true, Bool.true_and]
  cases hb : inBox ds c with
  | false => simp
  | true =>
    simp only [if_true]
    obtain ⟨r0, r1⟩ := rowRank_bounds' ds c hb
    rw [rowRank_cons]
    have hP : 0 < prod ds := by omega
    have hnn : 0 ≤ (n : Int) * prod ds := Int.mul_nonneg h0 (Int.le_of_lt hP)
    simp only [getI?]
    rw [if_neg (by omega), if_neg (by omega)]
    have e1 : ((n : Int) * prod ds + rowRank ds c).toNat = n * (prod ds).toNat + (rowRank ds c).toNat := by
      rw [Int.toNat_add hnn r0, Int.toNat_mul h0 (Int.le_of_lt hP)]; simp
    rw [e1, getElem?_blk]
    omega

theorem toNat_prod_cons (d : Int) (ds : Shape) (hd : 0 ≤ d) (hds : ∀ x ∈ ds, 0 ≤ x) :
    (prod (d :: ds)).toNat = d.toNat * (prod ds).toNat := by
  simp only [prod]
  exact Int.toNat_mul hd (prod_nonneg ds hds)

/-- tabulating an array's own `at` gives back its element list -/
theorem tabE_id {α} : ∀ (sh : Shape) (e : List α), (∀ x ∈ sh, 0 ≤ x) → e.length = (prod sh).toNat →
    tabE sh ((⟨sh, e⟩ : LA α).at) = some e
  | [], e, _, hl => by
    rw [tabE_nil]
    simp only [prod, Int.toNat_one] at hl
    match e, hl with
    | [x], _ => simp [LA.at, inBox, rowRank, dot, getI?]
  | d :: ds, e, hp, hl => by
    have hd : 0 ≤ d := hp d (by simp)
    have hds : ∀ x ∈ ds, 0 ≤ x := fun x hx => hp x (by simp [hx])
    rw [toNat_prod_cons d ds hd hds] at hl
    rw [tabE_cons_rows d ds _ (fun i => blk (prod ds).toNat i e)]
    · rw [blocks_flatten _ _ _ hl]
    · intro i hi
      have hi' : (i : Int) < d := by omega
      have : (fun c => (⟨d :: ds, e⟩ : LA α).at ((i : Int) :: c)) = (⟨ds, blk (prod ds).toNat i e⟩ : LA α).at := by
        funext c; exact at_cons d ds e i c hi'
      rw [this]
      apply tabE_id ds _ hds
      apply blk_length
      rw [hl]
      exact Nat.mul_le_mul_right _ hi

/-! ### M: the block-copy kernels in closed form -/

theorem copySliced_append (w r src : List Val) (ss se : Nat) (h1 : ss ≤ se) (h2 : se ≤ src.length)
    (h3 : se - ss ≤ r.length) :
    copySliced (w ++ r) (w.length : Int) ((w ++ r).length : Int) src (ss : Int) (se : Int) =
      .ok (w ++ (src.drop ss).take (se - ss) ++ r.drop (se - ss)) := by
  unfold copySliced
  have c1 : ¬ ((w.length : Int) < 0 ∨ ((w ++ r).length : Int) < (w.length : Int) ∨ ((w ++ r).length : Int) > ((w ++ r).length : Nat)) := by
    simp only [List.length_append, Int.natCast_add]; omega
  have c2 : ¬ ((ss : Int) < 0 ∨ (se : Int) < (ss : Int) ∨ (se : Int) > (src.length : Nat)) := by omega
  simp only [Bool.or_eq_true, decide_eq_true_eq] at *
  rw [if_neg (by simpa [or_assoc] using c1), if_neg (by simpa [or_assoc] using c2)]
  have hn : min (((w ++ r).length : Int) - (w.length : Int)) ((se : Int) - (ss : Int)) = ((se - ss : Nat) : Int) := by
    simp only [List.length_append, Int.natCast_add]; omega
  rw [hn]
  simp only [Int.toNat_natCast]
  have hl : ((src.drop ss).take (se - ss)).length = se - ss := by simp; omega
  have := blit_append w r ((src.drop ss).take (se - ss))
  rw [hl] at this
  rw [this]

theorem simpleStackRow_spec (A start : Nat) : ∀ (srcs : List (List Val)) (w r : List Val),
    (∀ s ∈ srcs, start + A ≤ s.length) → srcs.length * A ≤ r.length →
    simpleStackRow (A : Int) (start : Int) srcs (w.length : Int) (w ++ r) =
      .ok (((w.length + srcs.length * A : Nat) : Int),
           w ++ srcs.flatMap (fun s => (s.drop start).take A) ++ r.drop (srcs.length * A)) := by
  intro srcs
  induction srcs with
  | nil => intro w r _ _; simp [simpleStackRow]
  | cons s ss ih =>
    intro w r hs hr
    have hs0 := hs s (by simp)
    simp only [List.length_cons, Nat.succ_mul] at hr
    simp only [simpleStackRow]
    have e : ((start : Int) + (A : Int)) = ((start + A : Nat) : Int) := by simp
    rw [e, copySliced_append w r s start (start + A) (by omega) hs0 (by omega)]
    simp only [Nat.add_sub_cancel_left]
    show (do
      let dst ← (Except.ok (w ++ (s.drop start).take A ++ r.drop A) : Res (List Val))
      simpleStackRow (A : Int) (start : Int) ss ((w.length : Int) + (A : Int)) dst) = _
    have hm : min A (s.length - start) = A := by omega
    have hl : ((w ++ (s.drop start).take A).length : Int) = (w.length : Int) + (A : Int) := by
      simp [hm]
    simp only [bind, Except.bind]
    rw [← hl, ih (w ++ (s.drop start).take A) (r.drop A) (fun x hx => hs x (by simp [hx])) (by simp; omega)]
    simp only [List.length_append, List.length_take, List.length_drop, List.flatMap_cons, List.drop_drop,
      List.append_assoc, List.length_cons, Nat.succ_mul]
    rw [hm]
    have e1 : w.length + A + ss.length * A = w.length + (ss.length * A + A) := by omega
    have e2 : A + ss.length * A = ss.length * A + A := by omega
    rw [e1, e2]

/-- cells the block-copy loop of `denseSimpleStack` produces in passes `b0 … b0+n-1`: pass `b` takes
    block `b` (of `A` cells) of every operand in turn -/
def interleave {α} (A : Nat) (srcs : List (List α)) (b0 n : Nat) : List α :=
  (List.range n).flatMap (fun j => srcs.flatMap (fun s => (s.drop ((b0 + j) * A)).take A))

theorem interleave_succ {α} (A : Nat) (srcs : List (List α)) (b0 n : Nat) :
    interleave A srcs b0 (n + 1) =
      srcs.flatMap (fun s => (s.drop (b0 * A)).take A) ++ interleave A srcs (b0 + 1) n := by
  simp only [interleave, List.range_succ_eq_map, List.flatMap_cons, List.flatMap_map, Nat.add_zero]
  congr 1
  apply flatMap_congr'
  intro j _
  have : b0 + (j + 1) = b0 + 1 + j := by omega
  rw [this]

theorem simpleStackLoop_spec (A : Nat) (srcs : List (List Val)) : ∀ (n b : Nat) (w r : List Val),
    (∀ s ∈ srcs, (b + n) * A ≤ s.length) → n * (srcs.length * A) ≤ r.length →
    simpleStackLoop (A : Int) srcs n ((b * A : Nat) : Int) (w.length : Int) (w ++ r) =
      .ok (w ++ interleave A srcs b n ++ r.drop (n * (srcs.length * A))) := by
  intro n
  induction n with
  | zero => intro b w r _ _; simp [simpleStackLoop, interleave]
  | succ n ih =>
    intro b w r hs hr
    simp only [simpleStackLoop]
    have hrow : ∀ s ∈ srcs, b * A + A ≤ s.length := by
      intro s hs'
      have h1 := hs s hs'
      have h2 : (b + 1) * A ≤ (b + (n + 1)) * A := Nat.mul_le_mul_right A (by omega)
      rw [Nat.add_mul, Nat.one_mul] at h2
      omega
    rw [Nat.succ_mul] at hr
    rw [simpleStackRow_spec A (b * A) srcs w r hrow (by omega)]
    simp only [bind, Except.bind]
    have e1 : ((b * A : Nat) : Int) + (A : Int) = (((b + 1) * A : Nat) : Int) := by
      rw [Nat.add_mul, Nat.one_mul]; simp
    have e2 : ((w.length + srcs.length * A : Nat) : Int) =
        ((w ++ srcs.flatMap (fun s => (s.drop (b * A)).take A)).length : Int) := by
      congr 1
      simp only [List.length_append]
      congr 1
      clear hr ih hs
      induction srcs with
      | nil => simp
      | cons s ss ih2 =>
        have h0 := hrow s (by simp)
        simp only [List.flatMap_cons, List.length_append, List.length_take, List.length_drop, List.length_cons,
          Nat.succ_mul]
        rw [← ih2 (fun x hx => hrow x (by simp [hx]))]
        omega
    rw [e1, e2, ih (b + 1) _ (r.drop (srcs.length * A))
      (fun s hs' => by have := hs s hs'; rw [show b + 1 + n = b + (n + 1) by omega]; exact this)
      (by simp; omega)]
    rw [interleave_succ]
    simp only [List.append_assoc, List.drop_drop]
    have e3 : srcs.length * A + n * (srcs.length * A) = (n + 1) * (srcs.length * A) := by
      rw [Nat.succ_mul]; omega
    rw [e3]

/-! ### S: `stack` in closed form -/

/-- the coordinate function of `laStack` -/
def stackF {α} (k : Nat) (as : List (LA α)) (c : List Int) : Option α := do
  let i ← c[k]?
  let a ← as[i.toNat]?
  a.at (c.eraseIdx k)

theorem laStack_eq {α} (k : Nat) (as : List (LA α)) :
    laStack k as = (stackShape k (as.map (·.shape))).bind (fun sh => LA.tabulate sh (stackF k as)) := rfl

/-- element list of `stack` along a new axis at position `k` of arrays of shape `s` (given by their
    row-major listings): recursively over the outer axes -/
def stackE {α} : Nat → Shape → List (List α) → List α
  | 0, _, srcs => srcs.flatten
  | _ + 1, [], srcs => srcs.flatten
  | k + 1, d :: ds, srcs => (List.range d.toNat).flatMap (fun i => stackE k ds (srcs.map (blk (prod ds).toNat i)))

theorem flatten_eq_range {α} : ∀ (l : List (List α)),
    (List.range l.length).flatMap (fun i => l[i]?.getD []) = l.flatten
  | [] => by simp
  | x :: xs => by
    rw [List.length_cons, List.range_succ_eq_map, List.flatMap_cons, List.flatMap_map]
    simp only [List.getElem?_cons_zero, Option.getD_some, List.flatten_cons]
    congr 1
    have := flatten_eq_range xs
    rw [← this]
    apply flatMap_congr'
    intro i _
    simp

theorem insertAt_zero {α} (l : List α) (x : α) : insertAt l 0 x = x :: l := by simp [insertAt]
theorem insertAt_succ {α} (a : α) (l : List α) (k : Nat) (x : α) :
    insertAt (a :: l) (k + 1) x = a :: insertAt l k x := by simp [insertAt]

theorem stack_tab {α} : ∀ (k : Nat) (s : Shape) (as : List (LA α)), k ≤ s.length → (∀ x ∈ s, 0 ≤ x) →
    (∀ a ∈ as, a.shape = s ∧ a.elems.length = (prod s).toNat) →
    tabE (insertAt s k (as.length : Int)) (stackF k as) = some (stackE k s (as.map (·.elems)))
  | 0, s, as, _, hs, ha => by
    rw [insertAt_zero, tabE_cons_rows (as.length : Int) s _ (fun i => (as.map (·.elems))[i]?.getD [])]
    · simp only [Int.toNat_natCast, stackE]
      have := flatten_eq_range (as.map (·.elems))
      simpa using this
    · intro i hi
      simp only [Int.toNat_natCast] at hi
      have hget : as[i]? = some as[i] := List.getElem?_eq_getElem hi
      obtain ⟨h1, h2⟩ := ha as[i] (List.getElem_mem hi)
      have hf : (fun c => stackF 0 as ((i : Int) :: c)) = (⟨s, as[i].elems⟩ : LA α).at := by
        funext c
        simp only [stackF, List.getElem?_cons_zero, Int.toNat_natCast, hget, List.eraseIdx_cons_zero,
          Option.bind_eq_bind, Option.bind_some]
        rw [← h1]
      rw [hf, tabE_id s _ hs h2]
      simp [hget]
  | k + 1, [], as, hk, _, _ => by simp at hk
  | k + 1, d :: ds, as, hk, hs, ha => by
    have hd : 0 ≤ d := hs d (by simp)
    have hds : ∀ x ∈ ds, 0 ≤ x := fun x hx => hs x (by simp [hx])
    rw [insertAt_succ, tabE_cons_rows d _ _ (fun i => stackE k ds ((as.map (·.elems)).map (blk (prod ds).toNat i)))]
    · simp [stackE]
    · intro i hi
      have hi' : (i : Int) < d := by omega
      let sub : LA α → LA α := fun a => ⟨ds, blk (prod ds).toNat i a.elems⟩
      have hf : (fun c => stackF (k + 1) as ((i : Int) :: c)) = stackF k (as.map sub) := by
        funext c
        simp only [stackF, List.getElem?_cons_succ, List.eraseIdx_cons_succ, List.getElem?_map,
          Option.bind_eq_bind]
        cases hc : c[k]? with
        | none => simp
        | some j =>
          simp only [Option.bind_some]
          cases hj : as[j.toNat]? with
          | none => simp
          | some a =>
            simp only [Option.bind_some, Option.map_some]
            have hmem : a ∈ as := List.mem_of_getElem? hj
            obtain ⟨h1, _⟩ := ha a hmem
            have : a = ⟨d :: ds, a.elems⟩ := by cases a; simp_all
            rw [this, at_cons d ds a.elems i _ hi']
      rw [hf]
      have := stack_tab k ds (as.map sub) (by simpa using hk) hds (by
        intro a' ha'
        simp only [List.mem_map] at ha'
        obtain ⟨a, hmem, rfl⟩ := ha'
        obtain ⟨_, h2⟩ := ha a hmem
        refine ⟨rfl, ?_⟩
        apply blk_length
        rw [h2, toNat_prod_cons d ds hd hds]
        exact Nat.mul_le_mul_right _ hi)
      simp only [List.length_map, List.map_map] at this
      rw [this]
      simp only [List.map_map]
      rfl

theorem range_mul_flatMap {α} (g : Nat → List α) (a b : Nat) :
    (List.range (a * b)).flatMap g =
      (List.range a).flatMap (fun i => (List.range b).flatMap (fun j => g (i * b + j))) := by
  induction a with
  | zero => simp
  | succ a ih =>
    rw [Nat.succ_mul, List.range_add, List.flatMap_append, ih, List.range_succ, List.flatMap_append]
    simp [List.flatMap_map]

theorem prod_take_drop (k : Nat) (s : Shape) : prod s = prod (s.take k) * prod (s.drop k) := by
  rw [← prod_append, List.take_append_drop]

theorem interleave_blk {α} (A o' P i : Nat) (hP : P = o' * A) (srcs : List (List α)) :
    interleave A (srcs.map (blk P i)) 0 o' = interleave A srcs (i * o') o' := by
  simp only [interleave, List.flatMap_map]
  apply flatMap_congr'
  intro j hj
  simp only [List.mem_range] at hj
  apply flatMap_congr'
  intro x _
  simp only [blk, Nat.zero_add, List.drop_take, List.take_take, List.drop_drop]
  have h1 : (j + 1) * A ≤ o' * A := Nat.mul_le_mul_right A hj
  rw [Nat.add_mul, Nat.one_mul] at h1
  have h2 : min A (P - j * A) = A := by omega
  have h3 : i * P + j * A = (i * o' + j) * A := by
    rw [hP, Nat.add_mul, Nat.mul_assoc]
  rw [h2, h3]

theorem stackE_interleave {α} : ∀ (k : Nat) (s : Shape) (srcs : List (List α)), k ≤ s.length →
    (∀ x ∈ s, 0 ≤ x) → (∀ x ∈ srcs, x.length = (prod s).toNat) →
    stackE k s srcs = interleave (prod (s.drop k)).toNat srcs 0 (prod (s.take k)).toNat
  | 0, s, srcs, _, _, hl => by
    simp only [stackE, List.drop_zero, List.take_zero, prod, Int.toNat_one, interleave, List.range_one,
      List.flatMap_cons, List.flatMap_nil, List.append_nil, Nat.add_zero, Nat.zero_mul, List.drop_zero]
    rw [List.flatten_eq_flatMap]
    apply flatMap_congr'
    intro x hx
    simp [List.take_of_length_le (Nat.le_of_eq (hl x hx))]
  | k + 1, [], _, hk, _, _ => by simp at hk
  | k + 1, d :: ds, srcs, hk, hs, hl => by
    have hd : 0 ≤ d := hs d (by simp)
    have hds : ∀ x ∈ ds, 0 ≤ x := fun x hx => hs x (by simp [hx])
    have hk' : k ≤ ds.length := by simpa using hk
    have hnnT : ∀ x ∈ ds.take k, 0 ≤ x := fun x hx => hds x (List.mem_of_mem_take hx)
    have hnnD : ∀ x ∈ ds.drop k, 0 ≤ x := fun x hx => hds x (List.mem_of_mem_drop hx)
    have hP : (prod ds).toNat = (prod (ds.take k)).toNat * (prod (ds.drop k)).toNat := by
      rw [prod_take_drop k ds, Int.toNat_mul (prod_nonneg _ hnnT) (prod_nonneg _ hnnD)]
    simp only [stackE, List.take_succ_cons, List.drop_succ_cons]
    have ho : (prod (d :: ds.take k)).toNat = d.toNat * (prod (ds.take k)).toNat :=
      toNat_prod_cons d _ hd hnnT
    rw [ho, interleave, range_mul_flatMap]
    apply flatMap_congr'
    intro i hi
    simp only [List.mem_range] at hi
    rw [stackE_interleave k ds _ hk' hds (by
      intro x hx
      simp only [List.mem_map] at hx
      obtain ⟨y, hy, rfl⟩ := hx
      apply blk_length
      rw [hl y hy, toNat_prod_cons d ds hd hds]
      exact Nat.mul_le_mul_right _ hi)]
    rw [interleave_blk _ _ _ i hP]
    simp only [interleave, Nat.zero_add]

/-! ### M: the repeat kernel in closed form -/

/-- what one pass over the counts writes: `reps[j]` copies of the `j`-th block of `B` cells from `s0` on -/
def rowForm {α} (src : List α) (B : Nat) (reps : List Nat) (s0 : Nat) : List α :=
  (List.range reps.length).flatMap (fun j =>
    (List.replicate (reps[j]?.getD 0) ((src.drop (s0 + j * B)).take B)).flatten)

theorem rowForm_cons {α} (src : List α) (B : Nat) (r : Nat) (rs : List Nat) (s0 : Nat) :
    rowForm src B (r :: rs) s0 =
      (List.replicate r ((src.drop s0).take B)).flatten ++ rowForm src B rs (s0 + B) := by
  simp only [rowForm, List.length_cons, List.range_succ_eq_map, List.flatMap_cons, List.flatMap_map,
    List.getElem?_cons_zero, Option.getD_some, Nat.zero_mul, Nat.add_zero]
  congr 1
  apply flatMap_congr'
  intro j _
  simp only [List.getElem?_cons_succ]
  have : s0 + (j + 1) * B = s0 + B + j * B := by rw [Nat.succ_mul]; omega
  rw [this]

theorem flatten_replicate_length {α} (k : Nat) (c : List α) : (List.replicate k c).flatten.length = k * c.length := by
  induction k with
  | zero => simp
  | succ k ih => simp [List.replicate_succ, ih, Nat.succ_mul]; omega

theorem fastRepeatK_spec (src : List Val) (B s L : Nat) (hB : 0 < B) (hs : s + B ≤ src.length) :
    ∀ (k : Nat) (w r : List Val), L = (w ++ r).length → k * B ≤ r.length →
    fastRepeatK src src.length L (B : Int) (B : Int) (s : Int) k (w.length : Int) (w ++ r) =
      .ok (((w.length + k * B : Nat) : Int),
           w ++ (List.replicate k ((src.drop s).take B)).flatten ++ r.drop (k * B)) := by
  intro k
  induction k with
  | zero => intro w r _ _; simp [fastRepeatK]
  | succ k ih =>
    intro w r hL hr
    rw [Nat.succ_mul] at hr
    simp only [fastRepeatK]
    have hlen : (w ++ r).length = w.length + r.length := by simp
    have c1 : ¬ ((s : Int) ≥ (src.length : Nat) ∨ (w.length : Int) + (B : Int) > (L : Nat)) := by omega
    have c2 : ¬ ((w.length : Int) < 0 ∨ (B : Int) < 0 ∨ (w.length : Int) + (B : Int) > (L : Nat)) := by omega
    simp only [Bool.or_eq_true, decide_eq_true_eq] at *
    rw [if_neg (by simpa using c1), if_neg (by simpa [or_assoc] using c2)]
    simp only [Int.toNat_natCast, List.take_length]
    have hc : ((src.drop s).take B).length = B := by simp; omega
    have hb := blit_append w r ((src.drop s).take B)
    rw [hc] at hb
    rw [hb]
    have e1 : (w.length : Int) + (B : Int) = ((w ++ (src.drop s).take B).length : Int) := by
      simp [hc]
    rw [e1, ih (w ++ (src.drop s).take B) (r.drop B) (by simp [hc]; omega) (by simp; omega)]
    simp only [List.length_append, hc, List.replicate_succ, List.flatten_cons, List.append_assoc, List.drop_drop]
    have e2 : w.length + B + k * B = w.length + (k * B + B) := by omega
    have e3 : B + k * B = k * B + B := by omega
    rw [e2, e3, Nat.succ_mul]

theorem fastRepeatRowG_spec (src : List Val) (B L : Nat) (hB : 0 < B) :
    ∀ (reps : List Nat) (s : Nat) (w r : List Val), L = (w ++ r).length →
    s + reps.length * B ≤ src.length → sumN reps * B ≤ r.length →
    fastRepeatRowG src src.length L (B : Int) (B : Int) (reps.map Int.ofNat) (s : Int) (w.length : Int) (w ++ r) =
      .ok (((s + reps.length * B : Nat) : Int), ((w.length + sumN reps * B : Nat) : Int),
           w ++ rowForm src B reps s ++ r.drop (sumN reps * B)) := by
  intro reps
  induction reps with
  | nil => intro s w r _ _ _; simp [fastRepeatRowG, rowForm, sumN]
  | cons t ts ih =>
    intro s w r hL hs hr
    simp only [List.length_cons, Nat.succ_mul] at hs
    simp only [sumN, Nat.add_mul] at hr
    simp only [List.map_cons, fastRepeatRowG]
    have c1 : ¬ ((s : Int) < 0 ∨ (s : Int) > (src.length : Nat)) := by omega
    simp only [Bool.or_eq_true, decide_eq_true_eq] at *
    rw [if_neg (by simpa using c1)]
    have ht : (Int.ofNat t).toNat = t := by simp
    rw [ht, fastRepeatK_spec src B s L hB (by omega) t w r hL (by omega)]
    simp only [bind, Except.bind]
    have hcl : ((src.drop s).take B).length = B := by simp; omega
    have e1 : ((w.length + t * B : Nat) : Int) =
        ((w ++ (List.replicate t ((src.drop s).take B)).flatten).length : Int) := by
      simp [flatten_replicate_length, hcl]
    have e2 : (s : Int) + (B : Int) = ((s + B : Nat) : Int) := by simp
    have hL' : L = ((w ++ (List.replicate t ((src.drop s).take B)).flatten) ++ r.drop (t * B)).length := by
      rw [hL]
      simp only [List.length_append, flatten_replicate_length, hcl, List.length_drop]
      omega
    rw [e1, e2, ih (s + B) _ (r.drop (t * B)) hL' (by omega) (by simp; omega)]
    rw [rowForm_cons]
    simp only [List.length_append, flatten_replicate_length, hcl, List.append_assoc, List.drop_drop, sumN,
      List.length_cons]
    have e3 : s + B + ts.length * B = s + (ts.length + 1) * B := by rw [Nat.succ_mul]; omega
    have e4 : w.length + t * B + sumN ts * B = w.length + (t + sumN ts) * B := by rw [Nat.add_mul]; omega
    have e5 : t * B + sumN ts * B = (t + sumN ts) * B := by rw [Nat.add_mul]
    rw [e3, e4, e5]

theorem flatten_replicate_singleton {α} (k : Nat) (v : α) : (List.replicate k [v]).flatten = List.replicate k v := by
  induction k with
  | zero => simp
  | succ k ih => simp [List.replicate_succ, ih]

theorem fastRepeatRow1_spec (src : List Val) :
    ∀ (reps : List Nat) (s : Nat) (w r : List Val),
    s + reps.length ≤ src.length → sumN reps ≤ r.length →
    fastRepeatRow1 src (reps.map Int.ofNat) (s : Int) (w.length : Int) (w ++ r) =
      .ok (((s + reps.length : Nat) : Int), ((w.length + sumN reps : Nat) : Int),
           w ++ rowForm src 1 reps s ++ r.drop (sumN reps)) := by
  intro reps
  induction reps with
  | nil => intro s w r _ _; simp [fastRepeatRow1, rowForm, sumN]
  | cons t ts ih =>
    intro s w r hs hr
    simp only [List.length_cons] at hs
    simp only [sumN] at hr
    simp only [List.map_cons, fastRepeatRow1]
    have c1 : ¬ ((s : Int) < 0 ∨ (s : Int) + 1 > (src.length : Nat)) := by omega
    have c2 : ¬ ((Int.ofNat t) < 0 ∨ (w.length : Int) < 0 ∨ (w.length : Int) + Int.ofNat t > ((w ++ r).length : Nat)) := by
      simp only [List.length_append, Int.natCast_add, Int.ofNat_eq_natCast]; omega
    simp only [Bool.or_eq_true, decide_eq_true_eq] at *
    rw [if_neg (by simpa using c1), if_neg (by simpa [or_assoc] using c2)]
    have hlt : s < src.length := by omega
    simp only [Int.toNat_natCast, List.getElem?_eq_getElem hlt, Int.ofNat_eq_natCast]
    have hb := blit_append w r (List.replicate t src[s])
    simp only [List.length_replicate] at hb
    rw [hb]
    have e1 : (w.length : Int) + (t : Int) = ((w ++ List.replicate t src[s]).length : Int) := by simp
    have e2 : (s : Int) + 1 = ((s + 1 : Nat) : Int) := by simp
    rw [e1, e2, ih (s + 1) _ (r.drop t) (by omega) (by simp; omega)]
    rw [rowForm_cons]
    have hch : (src.drop s).take 1 = [src[s]] := by
      rw [List.take_one]
      simp [List.head?_drop, hlt]
    simp only [hch, flatten_replicate_singleton, List.length_append, List.length_replicate, List.append_assoc,
      List.drop_drop, sumN, List.length_cons]
    have e3 : s + 1 + ts.length = s + (ts.length + 1) := by omega
    have e4 : w.length + t + sumN ts = w.length + (t + sumN ts) := by omega
    rw [e3, e4]

/-- cells `fastCopyDenseRepeat` writes in outer passes `o0 … o0+n-1` -/
def repM {α} (src : List α) (B : Nat) (reps : List Nat) (o0 n : Nat) : List α :=
  (List.range n).flatMap (fun o => rowForm src B reps ((o0 + o) * (reps.length * B)))

theorem repM_succ {α} (src : List α) (B : Nat) (reps : List Nat) (o0 n : Nat) :
    repM src B reps o0 (n + 1) = rowForm src B reps (o0 * (reps.length * B)) ++ repM src B reps (o0 + 1) n := by
  simp only [repM, List.range_succ_eq_map, List.flatMap_cons, List.flatMap_map, Nat.add_zero]
  congr 1
  apply flatMap_congr'
  intro j _
  have : o0 + (j + 1) = o0 + 1 + j := by omega
  rw [this]

theorem rowForm_length {α} (src : List α) (B : Nat) : ∀ (reps : List Nat) (s0 : Nat),
    s0 + reps.length * B ≤ src.length → (rowForm src B reps s0).length = sumN reps * B
  | [], _, _ => by simp [rowForm, sumN]
  | t :: ts, s0, h => by
    simp only [List.length_cons, Nat.succ_mul] at h
    rw [rowForm_cons, List.length_append, flatten_replicate_length, rowForm_length src B ts (s0 + B) (by omega)]
    have : ((src.drop s0).take B).length = B := by simp; omega
    rw [this, sumN, Nat.add_mul]

theorem fastRepeat_spec (src : List Val) (B : Nat) (reps : List Nat) (hB : 0 < B) :
    ∀ (n o0 : Nat) (w r : List Val) (L : Nat), L = (w ++ r).length →
    (o0 + n) * (reps.length * B) ≤ src.length → n * (sumN reps * B) ≤ r.length →
    fastRepeat src src.length L (B : Int) (B : Int) (reps.map Int.ofNat) n
        ((o0 * (reps.length * B) : Nat) : Int) (w.length : Int) (w ++ r) =
      .ok (w ++ repM src B reps o0 n ++ r.drop (n * (sumN reps * B))) := by
  intro n
  induction n with
  | zero => intro o0 w r L _ _ _; simp [fastRepeat, repM]
  | succ n ih =>
    intro o0 w r L hL hs hr
    rw [Nat.succ_mul] at hr
    have hs1 : o0 * (reps.length * B) + reps.length * B ≤ src.length := by
      have h2 : (o0 + 1) * (reps.length * B) ≤ (o0 + (n + 1)) * (reps.length * B) :=
        Nat.mul_le_mul_right _ (by omega)
      rw [Nat.add_mul, Nat.one_mul] at h2
      omega
    have hrl := rowForm_length src B reps (o0 * (reps.length * B)) hs1
    simp only [fastRepeat]
    have hrow : (if ((B : Int) == 1 && (B : Int) == 1) = true
          then fastRepeatRow1 src (reps.map Int.ofNat) ((o0 * (reps.length * B) : Nat) : Int) (w.length : Int) (w ++ r)
          else fastRepeatRowG src src.length L (B : Int) (B : Int) (reps.map Int.ofNat) ((o0 * (reps.length * B) : Nat) : Int) (w.length : Int) (w ++ r)) =
        .ok ((((o0 + 1) * (reps.length * B) : Nat) : Int), ((w.length + sumN reps * B : Nat) : Int),
          w ++ rowForm src B reps (o0 * (reps.length * B)) ++ r.drop (sumN reps * B)) := by
      have e0 : o0 * (reps.length * B) + reps.length * B = (o0 + 1) * (reps.length * B) := by
        rw [Nat.add_mul, Nat.one_mul]
      by_cases h1 : B = 1
      · subst h1
        simp only [Nat.mul_one] at *
        rw [if_pos (by simp)]
        rw [fastRepeatRow1_spec src reps _ w r (by omega) (by omega), e0]
      · have : ((B : Int) == 1) = false := by
          simp only [beq_eq_false_iff_ne, ne_eq]; omega
        rw [this, if_neg (by simp)]
        rw [fastRepeatRowG_spec src B L hB reps _ w r hL hs1 (by omega), e0]
    rw [hrow]
    simp only [bind, Except.bind]
    have e1 : ((w.length + sumN reps * B : Nat) : Int) =
        ((w ++ rowForm src B reps (o0 * (reps.length * B))).length : Int) := by
      simp [hrl]
    have hL' : L = ((w ++ rowForm src B reps (o0 * (reps.length * B))) ++ r.drop (sumN reps * B)).length := by
      rw [hL]; simp only [List.length_append, hrl, List.length_drop]; omega
    rw [e1, ih (o0 + 1) _ (r.drop (sumN reps * B)) L hL'
      (by rw [show o0 + 1 + n = o0 + (n + 1) by omega]; exact hs) (by simp; omega)]
    rw [repM_succ]
    simp only [List.append_assoc, List.drop_drop]
    have e3 : sumN reps * B + n * (sumN reps * B) = (n + 1) * (sumN reps * B) := by rw [Nat.succ_mul]; omega
    rw [e3]

/-! ### S: `repeat` in closed form -/

/-- the coordinate function of `laRepeat` -/
def repF {α} (k : Nat) (reps : List Nat) (a : LA α) (c : List Int) : Option α := do
  let p ← c[k]?
  let j ← srcIndex reps p.toNat
  a.at (c.set k (j : Int))

theorem laRepeat_eq {α} (a : LA α) (k : Nat) (reps : List Nat) :
    laRepeat a k reps = (repeatShape a.shape k reps).bind (fun sh => LA.tabulate sh (repF k reps a)) := rfl

/-- element list of `repeat` along axis `k`, recursively over the outer axes: at the axis every block
    `j` is replicated `reps[j]` times -/
def repE {α} : Nat → Shape → List Nat → List α → List α
  | _, [], _, e => e
  | 0, d :: ds, reps, e =>
    (List.range d.toNat).flatMap (fun j => (List.replicate (reps[j]?.getD 0) (blk (prod ds).toNat j e)).flatten)
  | k + 1, d :: ds, reps, e => (List.range d.toNat).flatMap (fun i => repE k ds reps (blk (prod ds).toNat i e))

theorem srcIndex_some : ∀ (reps : List Nat) (p : Nat), p < sumN reps →
    ∃ j, srcIndex reps p = some j ∧ j < reps.length
  | [], p, h => by simp [sumN] at h
  | t :: ts, p, h => by
    simp only [srcIndex]
    by_cases hp : p < t
    · exact ⟨0, by simp [hp], by simp⟩
    · simp only [sumN] at h
      obtain ⟨j, hj, hl⟩ := srcIndex_some ts (p - t) (by omega)
      exact ⟨j + 1, by simp [hp, hj], by simp [hl]⟩

theorem flatMap_const {α} (t : Nat) (c : List α) : (List.range t).flatMap (fun _ => c) = (List.replicate t c).flatten := by
  induction t with
  | zero => simp
  | succ t ih =>
    rw [List.range_succ_eq_map, List.flatMap_cons, List.flatMap_map, List.replicate_succ, List.flatten_cons]
    congr 1

theorem srcIndex_flatMap {α} : ∀ (reps : List Nat) (G : Nat → List α),
    (List.range (sumN reps)).flatMap (fun p => match srcIndex reps p with | some j => G j | none => []) =
      (List.range reps.length).flatMap (fun j => (List.replicate (reps[j]?.getD 0) (G j)).flatten)
  | [], G => by simp [sumN]
  | t :: ts, G => by
    simp only [sumN, List.length_cons]
    rw [List.range_add, List.flatMap_append, List.flatMap_map, List.range_succ_eq_map, List.flatMap_cons,
      List.flatMap_map]
    congr 1
    · simp only [List.getElem?_cons_zero, Option.getD_some]
      rw [← flatMap_const]
      apply flatMap_congr'
      intro p hp
      simp only [List.mem_range] at hp
      simp [srcIndex, hp]
    · have := srcIndex_flatMap ts (fun j => G (j + 1))
      simp only [List.getElem?_cons_succ]
      rw [← this]
      apply flatMap_congr'
      intro q _
      simp only [srcIndex, Nat.not_lt.mpr (Nat.le_add_right t q), if_false, Nat.add_sub_cancel_left]
      cases srcIndex ts q <;> simp

theorem rep_tab {α} : ∀ (k : Nat) (s : Shape) (reps : List Nat) (e : List α), k < s.length →
    (∀ x ∈ s, 0 ≤ x) → e.length = (prod s).toNat → reps.length = (s[k]?.getD 0).toNat →
    tabE (s.set k (sumN reps : Int)) (repF k reps ⟨s, e⟩) = some (repE k s reps e)
  | _, [], _, _, hk, _, _, _ => by simp at hk
  | 0, d :: ds, reps, e, _, hs, hl, hr => by
    have hd : 0 ≤ d := hs d (by simp)
    have hds : ∀ x ∈ ds, 0 ≤ x := fun x hx => hs x (by simp [hx])
    simp only [List.getElem?_cons_zero, Option.getD_some] at hr
    rw [toNat_prod_cons d ds hd hds] at hl
    simp only [List.set_cons_zero]
    rw [tabE_cons_rows _ ds _ (fun p => match srcIndex reps p with
      | some j => blk (prod ds).toNat j e | none => [])]
    · simp only [Int.toNat_natCast, repE]
      rw [srcIndex_flatMap reps (fun j => blk (prod ds).toNat j e), hr]
    · intro p hp
      simp only [Int.toNat_natCast] at hp
      obtain ⟨j, hj, hjl⟩ := srcIndex_some reps p hp
      have hj' : (j : Int) < d := by omega
      have hf : (fun c => repF 0 reps (⟨d :: ds, e⟩ : LA α) ((p : Int) :: c)) =
          (⟨ds, blk (prod ds).toNat j e⟩ : LA α).at := by
        funext c
        simp only [repF, List.getElem?_cons_zero, Int.toNat_natCast, hj, List.set_cons_zero,
          Option.bind_eq_bind, Option.bind_some]
        exact at_cons d ds e j c hj'
      rw [hf, hj]
      apply tabE_id ds _ hds
      apply blk_length
      rw [hl]
      exact Nat.mul_le_mul_right _ (by omega)
  | k + 1, d :: ds, reps, e, hk, hs, hl, hr => by
    have hd : 0 ≤ d := hs d (by simp)
    have hds : ∀ x ∈ ds, 0 ≤ x := fun x hx => hs x (by simp [hx])
    simp only [List.getElem?_cons_succ] at hr
    rw [toNat_prod_cons d ds hd hds] at hl
    simp only [List.set_cons_succ]
    rw [tabE_cons_rows d _ _ (fun i => repE k ds reps (blk (prod ds).toNat i e))]
    · simp [repE]
    · intro i hi
      have hi' : (i : Int) < d := by omega
      have hf : (fun c => repF (k + 1) reps (⟨d :: ds, e⟩ : LA α) ((i : Int) :: c)) =
          repF k reps (⟨ds, blk (prod ds).toNat i e⟩ : LA α) := by
        funext c
        simp only [repF, List.getElem?_cons_succ, List.set_cons_succ, Option.bind_eq_bind]
        cases c[k]? with
        | none => simp
        | some p =>
          simp only [Option.bind_some]
          cases srcIndex reps p.toNat with
          | none => simp
          | some j =>
            simp only [Option.bind_some]
            exact at_cons d ds e i _ hi'
      rw [hf]
      apply rep_tab k ds reps _ (by simpa using hk) hds _ hr
      apply blk_length
      rw [hl]
      exact Nat.mul_le_mul_right _ hi

theorem rowForm_blk {α} (e : List α) (B P i o o' : Nat) (reps : List Nat) (hP : P = o' * (reps.length * B))
    (ho : o < o') :
    rowForm (blk P i e) B reps (o * (reps.length * B)) = rowForm e B reps ((i * o' + o) * (reps.length * B)) := by
  simp only [rowForm]
  apply flatMap_congr'
  intro j hj
  simp only [List.mem_range] at hj
  congr 2
  simp only [blk, List.drop_take, List.take_take, List.drop_drop]
  have h1 : (o + 1) * (reps.length * B) ≤ o' * (reps.length * B) := Nat.mul_le_mul_right _ ho
  have h2 : (j + 1) * B ≤ reps.length * B := Nat.mul_le_mul_right _ hj
  rw [Nat.add_mul, Nat.one_mul] at h1 h2
  have h3 : min B (P - (o * (reps.length * B) + j * B)) = B := by omega
  have h4 : i * P + (o * (reps.length * B) + j * B) = (i * o' + o) * (reps.length * B) + j * B := by
    rw [hP, Nat.add_mul, Nat.mul_assoc]; omega
  rw [h3, h4]

theorem prod_drop_getElem (s : Shape) (k : Nat) (h : k < s.length) :
    prod (s.drop k) = (s[k]?.getD 0) * prod (s.drop (k + 1)) := by
  rw [List.drop_eq_getElem_cons h]
  simp [prod, List.getElem?_eq_getElem h]

theorem repE_repM {α} : ∀ (k : Nat) (s : Shape) (reps : List Nat) (e : List α), k < s.length →
    (∀ x ∈ s, 0 ≤ x) → e.length = (prod s).toNat → reps.length = (s[k]?.getD 0).toNat →
    repE k s reps e = repM e (prod (s.drop (k + 1))).toNat reps 0 (prod (s.take k)).toNat
  | _, [], _, _, hk, _, _, _ => by simp at hk
  | 0, d :: ds, reps, e, _, _, _, hr => by
    simp only [List.getElem?_cons_zero, Option.getD_some] at hr
    simp only [repE, List.drop_succ_cons, List.drop_zero, List.take_zero, prod, Int.toNat_one, repM,
      List.range_one, List.flatMap_cons, List.flatMap_nil, List.append_nil, Nat.add_zero, Nat.zero_mul,
      rowForm, hr, blk, Nat.zero_add]
  | k + 1, d :: ds, reps, e, hk, hs, hl, hr => by
    have hd : 0 ≤ d := hs d (by simp)
    have hds : ∀ x ∈ ds, 0 ≤ x := fun x hx => hs x (by simp [hx])
    have hk' : k < ds.length := by simpa using hk
    simp only [List.getElem?_cons_succ] at hr
    have hnnT : ∀ x ∈ ds.take k, 0 ≤ x := fun x hx => hds x (List.mem_of_mem_take hx)
    have hnnD : ∀ x ∈ ds.drop (k + 1), 0 ≤ x := fun x hx => hds x (List.mem_of_mem_drop hx)
    have hk0 : 0 ≤ ds[k]?.getD 0 := by
      rw [List.getElem?_eq_getElem hk']; exact hds _ (List.getElem_mem hk')
    have hP : (prod ds).toNat =
        (prod (ds.take k)).toNat * (reps.length * (prod (ds.drop (k + 1))).toNat) := by
      rw [prod_take_drop k ds, prod_drop_getElem ds k hk',
        Int.toNat_mul (prod_nonneg _ hnnT) (Int.mul_nonneg hk0 (prod_nonneg _ hnnD)),
        Int.toNat_mul hk0 (prod_nonneg _ hnnD), hr]
    rw [toNat_prod_cons d ds hd hds] at hl
    simp only [repE, List.take_succ_cons, List.drop_succ_cons]
    rw [toNat_prod_cons d _ hd hnnT, repM, range_mul_flatMap]
    apply flatMap_congr'
    intro i hi
    simp only [List.mem_range] at hi
    rw [repE_repM k ds reps _ hk' hds (by
      apply blk_length
      rw [hl]
      exact Nat.mul_le_mul_right _ hi) hr]
    simp only [repM, Nat.zero_add]
    apply flatMap_congr'
    intro o ho
    simp only [List.mem_range] at ho
    exact rowForm_blk e _ _ i o _ reps hP ho

/-! ### shape calculators -/

/-- a model result agrees with S's optional result: same value, or an *error* (not a panic) where S refuses -/
def Agrees {α} (m : Res α) (o : Option α) : Prop :=
  match o with
  | some x => m = .ok x
  | none => ∃ tag, m = .error (.err tag)

theorem eqDims_spec : ∀ (a b : Shape), a.length = b.length →
    eqDims a b = if a = b then .ok a else .error (.err "dimMismatch")
  | [], [], _ => by simp [eqDims]
  | [], _ :: _, h => by simp at h
  | _ :: _, [], h => by simp at h
  | x :: xs, y :: ys, h => by
    simp only [List.length_cons, Nat.add_right_cancel_iff] at h
    simp only [eqDims]
    by_cases hxy : x = y
    · subst hxy
      simp only [bne_self_eq_false, Bool.false_eq_true, if_false, eqDims_spec xs ys h]
      by_cases hr : xs = ys
      · simp [hr, bind, Except.bind, pure, Except.pure]
      · simp [hr, bind, Except.bind, throwErr]
    · have : (x != y) = true := by simp [hxy]
      simp [this, hxy, throwErr]

theorem concatDims_spec : ∀ (k : Nat) (a b : Shape), a.length = b.length → k < a.length →
    concatDims k a b = if a.set k 0 = b.set k 0 then .ok (a.set k (a[k]?.getD 0 + b[k]?.getD 0))
      else .error (.err "dimMismatch")
  | _, [], _, _, hk => by simp at hk
  | _, _ :: _, [], h, _ => by simp at h
  | 0, x :: xs, y :: ys, h, _ => by
    simp only [List.length_cons, Nat.add_right_cancel_iff] at h
    simp only [concatDims, eqDims_spec xs ys h, List.set_cons_zero, List.getElem?_cons_zero, Option.getD_some]
    by_cases hr : xs = ys
    · simp [hr, bind, Except.bind, pure, Except.pure]
    · simp [hr, bind, Except.bind]
  | k + 1, x :: xs, y :: ys, h, hk => by
    simp only [List.length_cons, Nat.add_right_cancel_iff] at h
    simp only [List.length_cons, Nat.add_lt_add_iff_right] at hk
    simp only [concatDims, List.set_cons_succ, List.getElem?_cons_succ]
    by_cases hxy : x = y
    · subst hxy
      simp only [bne_self_eq_false, Bool.false_eq_true, if_false, concatDims_spec k xs ys h hk]
      by_cases hr : xs.set k 0 = ys.set k 0
      · simp [hr, bind, Except.bind, pure, Except.pure]
      · simp [hr, bind, Except.bind]
    · have : (x != y) = true := by simp [hxy]
      simp [this, hxy, throwErr]

theorem concat_fold (k n : Nat) : ∀ (ss : List Shape) (acc : Shape), acc.length = n → k < n →
    (∀ t ∈ ss, t.length = n) →
    ss.foldlM (fun acc shp => concatDims k acc shp) acc =
      if ss.all (fun t => t.set k 0 == acc.set k 0) = true
      then .ok (acc.set k (acc[k]?.getD 0 + sumI (ss.map (fun t => t[k]?.getD 0))))
      else .error (.err "dimMismatch")
  | [], acc, hl, hk, _ => by
    have : acc.set k (acc[k]?.getD 0) = acc := by
      rw [List.getElem?_eq_getElem (by omega)]; simp
    simp [sumI, this, pure, Except.pure]
  | t :: ts, acc, hl, hk, hs => by
    have ht : t.length = n := hs t (by simp)
    rw [List.foldlM_cons, concatDims_spec k acc t (by omega) (by omega)]
    by_cases he : acc.set k 0 = t.set k 0
    · simp only [he, if_true, bind, Except.bind]
      rw [concat_fold k n ts _ (by simp [hl]) hk (fun x hx => hs x (by simp [hx]))]
      simp only [List.set_set, List.all_cons, beq_self_eq_true, Bool.true_and, List.map_cons, sumI]
      have e1 : (acc.set k (acc[k]?.getD 0 + t[k]?.getD 0))[k]?.getD 0 = acc[k]?.getD 0 + t[k]?.getD 0 := by
        simp [List.getElem?_set, show k < acc.length by omega]
      rw [e1, Int.add_assoc, he]
    · have : (t.set k 0 == acc.set k 0) = false := by
        simp only [beq_eq_false_iff_ne, ne_eq]; exact fun h => he h.symm
      simp [he, this, bind, Except.bind]

theorem concatShape_cons (k : Nat) (s : Shape) (rest : List Shape) :
    concatShape k (s :: rest) =
      if (k < s.length ∧ rest.all (fun t => t.length == s.length && t.set k 0 == s.set k 0) = true)
      then some (s.set k (sumI ((s :: rest).map (fun t => t[k]?.getD 0)))) else none := by
  simp only [concatShape, Bool.and_eq_true, decide_eq_true_eq]

theorem shapeConcat_agrees (s : Shape) (axis : Int) (ss : List Shape) (hx : axis ≠ -1) :
    Agrees (shapeConcat s axis ss) (if axis < 0 then none else concatShape axis.toNat (s :: ss)) := by
  unfold shapeConcat
  by_cases hlen : (ss.any (fun shp => shp.length != s.length)) = true
  · -- some rank differs: M errs; S refuses
    have hS : (if axis < 0 then none else concatShape axis.toNat (s :: ss)) = none := by
      split
      · rfl
      · rw [concatShape_cons, if_neg]
        intro ⟨_, hall⟩
        simp only [List.any_eq_true, bne_iff_ne, ne_eq] at hlen
        obtain ⟨t, ht, hne⟩ := hlen
        simp only [List.all_eq_true, Bool.and_eq_true, beq_iff_eq] at hall
        exact hne (hall t ht).1
    rw [hS]
    exact ⟨"dimMismatch", by simp [hlen, throwErr, bind, Except.bind]⟩
  · have hall : ∀ t ∈ ss, t.length = s.length := by
      intro t ht
      simp only [List.any_eq_true, bne_iff_ne, ne_eq, not_exists, not_and, Decidable.not_not] at hlen
      exact hlen t ht
    simp only [hlen, Bool.false_eq_true, if_false, bind, Except.bind, pure, Except.pure]
    have ha : (if (axis == -1) = true then (0 : Int) else axis) = axis := by simp [hx]
    simp only [ha]
    by_cases hneg : axis < 0
    · simp only [hneg, decide_true, if_true]
      exact ⟨"invalidAxis", rfl⟩
    · simp only [hneg, decide_false, Bool.false_eq_true, if_false]
      by_cases hge : axis ≥ (s.length : Nat)
      · simp only [hge, decide_true, if_true]
        have : ¬ (axis.toNat < s.length) := by omega
        rw [concatShape_cons, if_neg (fun h => this h.1)]
        exact ⟨"invalidAxis", rfl⟩
      · simp only [hge, decide_false, Bool.false_eq_true, if_false]
        have hk : axis.toNat < s.length := by omega
        rw [concat_fold axis.toNat s.length ss s rfl hk hall, concatShape_cons]
        simp only [hk, true_and, List.map_cons, sumI]
        by_cases hok : (ss.all (fun t => t.set axis.toNat 0 == s.set axis.toNat 0)) = true
        · have hok' : (ss.all (fun t => t.length == s.length && t.set axis.toNat 0 == s.set axis.toNat 0)) = true := by
            simp only [List.all_eq_true, Bool.and_eq_true, beq_iff_eq] at hok ⊢
            exact fun t ht => ⟨hall t ht, hok t ht⟩
          simp only [hok, hok', if_true]
          rfl
        · have hok' : ¬ (ss.all (fun t => t.length == s.length && t.set axis.toNat 0 == s.set axis.toNat 0)) = true := by
            intro h
            apply hok
            simp only [List.all_eq_true, Bool.and_eq_true, beq_iff_eq] at h ⊢
            exact fun t ht => (h t ht).2
          simp only [hok, hok', if_false]
          exact ⟨"dimMismatch", rfl⟩

/-- for shapes of one rank `Shape.Eq` is plain equality (its scalar / vector clauses need different ranks) -/
theorem shapeEq_of_length_eq (o s : Shape) (h : o.length = s.length) : shapeEq o s = (o == s) := by
  unfold shapeEq
  by_cases hs : (isScalar o && isScalar s) = true
  · simp only [isScalar, Bool.and_eq_true, List.isEmpty_iff] at hs
    simp [hs.1, hs.2, isScalar]
  · have h21 : ¬ (o.length = 2 ∧ s.length = 1) := by omega
    have h12 : ¬ (o.length = 1 ∧ s.length = 2) := by omega
    have e1 : (isVector o && isVector s && o.length == 2 && s.length == 1) = false := by
      cases hq : (isVector o && isVector s && o.length == 2 && s.length == 1) with
      | false => rfl
      | true =>
        simp only [Bool.and_eq_true, beq_iff_eq] at hq
        exact absurd ⟨hq.1.2, hq.2⟩ h21
    have e2 : (isVector o && isVector s && o.length == 1 && s.length == 2) = false := by
      cases hq : (isVector o && isVector s && o.length == 1 && s.length == 2) with
      | false => rfl
      | true =>
        simp only [Bool.and_eq_true, beq_iff_eq] at hq
        exact absurd ⟨hq.1.2, hq.2⟩ h12
    simp only [hs, e1, e2, Bool.false_eq_true, if_false]

theorem stackNewShape_agrees (s : Shape) (axis : Int) (rest : List Shape) :
    Agrees (stackNewShape s axis rest) (if axis < 0 then none else stackShape axis.toNat (s :: rest)) := by
  unfold stackNewShape
  simp only [stackShape, Bool.and_eq_true, decide_eq_true_eq, Bool.or_eq_true]
  by_cases hneg : axis < 0
  · simp only [hneg, true_or, if_true]
    exact ⟨"dimMismatch", rfl⟩
  · by_cases h : axis ≥ (s.length : Int) + 1
    · have : ¬ axis.toNat ≤ s.length := by omega
      simp only [hneg, h, or_true, if_true, this, false_and, if_false]
      exact ⟨"dimMismatch", rfl⟩
    · have hle : axis.toNat ≤ s.length := by omega
      simp only [hneg, h, or_self, if_false, hle, true_and]
      -- the shape test of the code is S's `rest.all (· == s)`
      have hany : rest.any (fun o => o.length != s.length || !shapeEq o s) = !rest.all (· == s) := by
        rw [List.all_eq_not_any_not]
        simp only [Bool.not_not]
        congr 1
        funext o
        by_cases hl : o.length = s.length
        · simp [shapeEq_of_length_eq o s hl, hl]
        · have : (o == s) = false := by
            simp only [beq_eq_false_iff_ne, ne_eq]
            intro e; exact hl (by rw [e])
          simp [hl, this]
      rw [hany]
      by_cases hall : rest.all (· == s) = true
      · simp only [hall, Bool.not_true, Bool.false_eq_true, if_false, if_true, Agrees]
      · simp only [hall, Bool.not_eq_true] at hall ⊢
        simp only [hall, Bool.not_false, if_true, Bool.false_eq_true, if_false]
        exact ⟨"shapeMismatch", rfl⟩

theorem sumI_map_toNat : ∀ (l : List Int), (∀ x ∈ l, 0 ≤ x) → sumI l = (sumN (l.map Int.toNat) : Int)
  | [], _ => by simp [sumI, sumN]
  | x :: xs, h => by
    have hx := h x (by simp)
    simp only [sumI, List.map_cons, sumN, Int.natCast_add, sumI_map_toNat xs (fun y hy => h y (by simp [hy]))]
    omega

theorem natReps_some (reps : List Int) (n : List Nat) (h : natReps reps = some n) :
    (∀ x ∈ reps, 0 ≤ x) ∧ n = reps.map Int.toNat := by
  unfold natReps at h
  split at h
  · rename_i hall
    simp only [List.all_eq_true, decide_eq_true_eq] at hall
    simp only [Option.some.injEq] at h
    exact ⟨fun x hx => hall x hx, h.symm⟩
  · simp at h

theorem repeatShape_eq (sh : Shape) (ax : Nat) (reps : List Nat) (h : ax < sh.length) :
    repeatShape sh ax reps =
      if (reps.length : Int) = sh[ax]?.getD 0 then some (sh.set ax (sumN reps : Int)) else none := by
  simp only [repeatShape, List.getElem?_eq_getElem h, Option.getD_some, beq_iff_eq]

/-- the tail of `Shape.Repeat` against S's `repeatShape` once the axis is known to be inside -/
theorem repeatTail_agrees (newShape : Shape) (ax : Nat) (reps : List Int) (hax : ax < newShape.length)
    (hd : 0 ≤ newShape[ax]?.getD 0) (hr : ∀ x ∈ reps, 0 ≤ x) :
    let size := newShape[ax]?.getD 0
    let nreps := reps.map Int.toNat
    Agrees (Prod.fst <$> repeatTail size newShape (ax : Int) reps)
      (repeatShape newShape ax (if nreps.length == 1 then List.replicate size.toNat (nreps.headD 0) else nreps)) := by
  intro size nreps
  -- the broadcast counts on both sides
  let bM : List Int := if reps.length == 1 then List.replicate size.toNat (reps.headD 0) else reps
  let bS : List Nat := if nreps.length == 1 then List.replicate size.toNat (nreps.headD 0) else nreps
  have hb : bS = bM.map Int.toNat ∧ ∀ x ∈ bM, 0 ≤ x := by
    simp only [bS, bM, nreps, List.length_map]
    by_cases h1 : reps.length = 1
    · match reps, h1 with
      | [x], _ =>
        have hx := hr x (by simp)
        simp only [List.length_cons, List.length_nil, beq_self_eq_true, if_true, List.map_cons, List.map_nil,
          List.headD_cons, List.map_replicate, true_and]
        intro y hy
        rw [List.mem_replicate] at hy
        omega
    · have : (reps.length == 1) = false := by simp [h1]
      simp only [this, Bool.false_eq_true, if_false, true_and]
      exact hr
  have hlen : bS.length = bM.length := by rw [hb.1]; simp
  have hsum : sumI bM = (sumN bS : Int) := by rw [hb.1]; exact sumI_map_toNat bM hb.2
  show Agrees (Prod.fst <$> repeatTail size newShape (ax : Int) reps) (repeatShape newShape ax bS)
  rw [repeatShape_eq newShape ax bS hax]
  unfold repeatTail
  show Agrees (Prod.fst <$> (do
      if ((bM.length : Int) != size) = true then throwErr "broadcastError"
      let ns ← setI newShape (ax : Int) (sumI bM) "newShape[axis]"
      pure (ns, bM, size))) _
  by_cases hl : (bM.length : Int) = size
  · have : ((bM.length : Int) != size) = false := by simp [hl]
    have hset : setI newShape (ax : Int) (sumI bM) "newShape[axis]" = .ok (newShape.set ax (sumI bM)) := by
      unfold setI
      have : ¬ (((ax : Int) < 0) ∨ ((ax : Int) ≥ (newShape.length : Nat))) := by omega
      simp only [Bool.or_eq_true, decide_eq_true_eq]
      rw [if_neg this]
      simp
    simp only [this, Bool.false_eq_true, if_false, hset, bind, Except.bind, pure, Except.pure, Functor.map,
      Except.map]
    rw [hlen, if_pos hl, hsum]
    rfl
  · have : ((bM.length : Int) != size) = true := by simp [hl]
    simp only [this, if_true, throwErr, bind, Except.bind, Functor.map, Except.map]
    rw [hlen, if_neg hl]
    exact ⟨"broadcastError", rfl⟩

theorem vanilla_vector (s : Shape) (h : (isVector s && !isRowVec s && !isColVec s) = true) : s.length = 1 := by
  simp only [isVector, Bool.and_eq_true, Bool.or_eq_true, Bool.not_eq_true', beq_iff_eq] at h
  obtain ⟨⟨h1, h2⟩, h3⟩ := h
  rcases h1 with (h1 | h1) | h1
  · rw [h3] at h1; cases h1
  · rw [h2] at h1; cases h1
  · exact h1

theorem shapeRepeat_agrees (sh : Shape) (axis : Int) (reps : List Int) (hnn : ∀ d ∈ sh, 0 ≤ d)
    (r : Option Shape) (hS : specRepeatShape sh axis reps = some r) :
    Agrees (Prod.fst <$> shapeRepeat sh axis reps) r := by
  unfold specRepeatShape at hS
  cases hn : natReps reps with
  | none => simp [hn] at hS
  | some nreps =>
    obtain ⟨hr, hnr⟩ := natReps_some reps nreps hn
    simp only [hn] at hS
    by_cases hemp : sh.isEmpty = true
    · simp [hemp] at hS
    · simp only [hemp, Bool.false_eq_true, if_false] at hS
      by_cases hlow : axis < -1
      · -- below AllAxes: both sides refuse
        have hne : (axis == -1) = false := by simp; omega
        have h1 : (axis == 1) = false := by simp; omega
        have hneg : axis < 0 := by omega
        simp only [hne, Bool.false_eq_true, if_false, h1, Bool.and_false, hneg, decide_true, Bool.true_or,
          if_true, Option.some.injEq] at hS
        subst hS
        simp only [shapeRepeat, repeatHead, hlow, decide_true, if_true, throwErr, bind, Except.bind, Functor.map,
          Except.map]
        exact ⟨"invalidAxis", rfl⟩
      have hax : -1 ≤ axis := by omega
      by_cases hall : axis = -1
      · -- AllAxes: the flattened vector along axis 0
        subst hall
        have hT : 0 ≤ totalSize sh := prod_nonneg sh hnn
        simp only [beq_self_eq_true, if_true, List.length_cons, List.length_nil, Nat.zero_add,
          show ((0 : Int) == 1) = false by decide, Bool.and_false, Bool.false_eq_true, if_false,
          show ¬ ((0 : Int) < 0 ∨ (0 : Int) ≥ ((1 : Nat) : Int)) by omega, Bool.or_eq_true, decide_eq_true_eq,
          Int.toNat_zero, List.getElem?_cons_zero, Option.getD_some, Option.some.injEq] at hS
        have := repeatTail_agrees [totalSize sh] 0 reps (by simp) (by simpa using hT) hr
        simp only [List.getElem?_cons_zero, Option.getD_some, ← hnr] at this
        rw [hS] at this
        simp only [shapeRepeat, repeatHead, show ¬ ((-1 : Int) < -1) by decide, if_false, beq_self_eq_true, if_true,
          pure, Except.pure, bind, Except.bind]
        exact this
      · have hne : (axis == -1) = false := by simp [hall]
        simp only [hne, Bool.false_eq_true, if_false] at hS
        have hge : 0 ≤ axis := by omega
        by_cases hv : (sh.length == 1 && axis == 1) = true
        · simp [hv] at hS
        · simp only [hv, Bool.false_eq_true, if_false] at hS
          -- the vanilla-vector extension of the library is not taken
          have hvec : (isVector sh && !isRowVec sh && !isColVec sh && axis == 1) = false := by
            cases hq : (isVector sh && !isRowVec sh && !isColVec sh && axis == 1) with
            | false => rfl
            | true =>
              simp only [Bool.and_eq_true] at hq
              have := vanilla_vector sh (by simpa [Bool.and_eq_true] using hq.1)
              exfalso; apply hv; simp [this, hq.2]
          simp only [shapeRepeat, repeatHead, hlow, hne, Bool.false_eq_true, if_false, hemp, hvec]
          by_cases hout : axis ≥ (sh.length : Nat)
          · have : (axis < 0 ∨ axis ≥ (sh.length : Nat)) := Or.inr hout
            simp only [Bool.or_eq_true, decide_eq_true_eq, this, if_true, Option.some.injEq] at hS
            subst hS
            simp only [hout, decide_true, if_true, throwErr, bind, Except.bind, Functor.map, Except.map]
            exact ⟨"invalidAxis", rfl⟩
          · have hno : ¬ (axis < 0 ∨ axis ≥ (sh.length : Nat)) := by omega
            simp only [Bool.or_eq_true, decide_eq_true_eq, hno, if_false, Option.some.injEq] at hS
            have hlt : axis.toNat < sh.length := by omega
            have hidx : idx sh axis "s[axis]" = .ok (sh[axis.toNat]?.getD 0) := by
              simp only [idx, getI?, show ¬ axis < 0 by omega, if_false, List.getElem?_eq_getElem hlt,
                Option.getD_some]
            have hd0 : 0 ≤ sh[axis.toNat]?.getD 0 := by
              rw [List.getElem?_eq_getElem hlt]; exact hnn _ (List.getElem_mem hlt)
            have := repeatTail_agrees sh axis.toNat reps hlt hd0 hr
            simp only [← hnr, Int.toNat_of_nonneg hge] at this
            rw [hS] at this
            simp only [hout, decide_false, Bool.false_eq_true, if_false, hidx, bind, Except.bind, pure,
              Except.pure]
            exact this

/-! ### remaining pieces of the stack / repeat refinements -/

theorem simpleStack0Others_spec : ∀ (ots : List (List Val)) (w r : List Val), ots.flatten.length ≤ r.length →
    simpleStack0Others ots (w.length : Int) (w ++ r) = .ok (w ++ ots.flatten ++ r.drop ots.flatten.length)
  | [], w, r, _ => by simp [simpleStack0Others]
  | ot :: ots, w, r, h => by
    simp only [List.flatten_cons, List.length_append] at h
    simp only [simpleStack0Others]
    have := copySliced_append w r ot 0 ot.length (by omega) (by omega) (by omega)
    simp only [Nat.sub_zero, List.drop_zero, List.take_length, Int.natCast_zero] at this
    rw [this]
    simp only [bind, Except.bind]
    have e1 : (w.length : Int) + (ot.length : Int) = ((w ++ ot).length : Int) := by simp
    rw [e1, simpleStack0Others_spec ots (w ++ ot) (r.drop ot.length) (by simp only [List.length_drop]; omega)]
    simp only [List.flatten_cons, List.append_assoc, List.drop_drop, List.length_append]

theorem simpleStack0_spec (dst : List Val) (srcs : List (List Val)) (h : srcs.flatten.length = dst.length) :
    simpleStack0 dst srcs = .ok srcs.flatten := by
  cases srcs with
  | nil => simp at h; simp [simpleStack0, List.eq_nil_of_length_eq_zero h.symm]
  | cons t others =>
    simp only [List.flatten_cons, List.length_append] at h
    simp only [simpleStack0]
    have ht : t.take dst.length = t := List.take_of_length_le (by omega)
    have hb := blit_append [] dst t
    simp only [List.nil_append, List.length_nil] at hb
    rw [ht, hb]
    have := simpleStack0Others_spec others t (dst.drop t.length) (by simp only [List.length_drop]; omega)
    rw [this]
    have : (dst.drop t.length).drop others.flatten.length = [] := by
      apply List.drop_eq_nil_of_le; simp only [List.length_drop]; omega
    rw [this]
    simp only [List.append_nil, List.flatten_cons]

theorem calcStrides_getElem : ∀ (l : Shape) (k : Nat), k < l.length →
    (calcStrides l)[k]? = some (prod (l.drop (k + 1)))
  | [], _, h => by simp at h
  | _ :: xs, 0, _ => by simp [calcStrides]
  | _ :: xs, k + 1, h => by
    simp only [calcStrides, List.getElem?_cons_succ, List.drop_succ_cons]
    exact calcStrides_getElem xs k (by simpa using h)

theorem insertAt_drop {α} (s : List α) (k : Nat) (x : α) (h : k ≤ s.length) :
    (insertAt s k x).drop (k + 1) = s.drop k := by
  have h1 : (s.take k).length = k := by simp; omega
  simp [insertAt, List.drop_append, h1]

theorem insertAt_length {α} (s : List α) (k : Nat) (x : α) : (insertAt s k x).length = s.length + 1 := by
  simp [insertAt]; omega

/-- `retVal.Info().Strides()[axis]` of the stacked (row-major) result: the size of one operand block -/
theorem stack_axisStride (s : Shape) (k : Nat) (n : Int) (h : k ≤ s.length) :
    idx (calcStrides (insertAt s k n)) (k : Int) "strides[axis]" = .ok (prod (s.drop k)) := by
  have hl : k < (insertAt s k n).length := by rw [insertAt_length]; omega
  simp only [idx, getI?, show ¬ (k : Int) < 0 by omega, if_false, Int.toNat_natCast,
    calcStrides_getElem _ k hl, insertAt_drop s k n h]

theorem prod_insertAt (s : Shape) (k : Nat) (n : Int) : prod (insertAt s k n) = n * prod s := by
  simp only [insertAt, prod_append, prod]
  rw [prod_take_drop k s]
  simp only [Int.mul_one]
  rw [Int.mul_comm (prod (s.take k)) n, Int.mul_assoc]

theorem prod_set (s : Shape) (k : Nat) (x : Int) (h : k < s.length) :
    prod (s.set k x) = prod (s.take k) * (x * prod (s.drop (k + 1))) := by
  rw [List.set_eq_take_append_cons_drop, if_pos h, prod_append]
  simp [prod]

theorem stackIters_eq (N outer A : Nat) (hN : 0 < N) (hA : 0 < A) :
    stackIters (goDiv ((outer * (N * A) : Nat) : Int) (A : Int)) N = outer := by
  have h1 : goDiv ((outer * (N * A) : Nat) : Int) (A : Int) = ((outer * N : Nat) : Int) := by
    simp only [goDiv]
    have : ((outer * (N * A) : Nat) : Int) = ((outer * N : Nat) : Int) * (A : Int) := by
      simp only [Int.natCast_mul, Int.mul_assoc]
    rw [this, Int.mul_tdiv_cancel _ (by omega)]
  rw [h1]
  simp only [stackIters]
  have h2 : ¬ ((((outer * N : Nat) : Int) ≤ 0) ∨ N = 0) ∨ outer = 0 := by
    by_cases h : outer = 0
    · right; exact h
    · left
      have : 0 < outer * N := Nat.mul_pos (by omega) hN
      omega
  rcases h2 with h2 | h2
  · simp only [Bool.or_eq_true, decide_eq_true_eq, beq_iff_eq]
    rw [if_neg h2]
    simp only [Int.toNat_natCast]
    have : outer * N + N - 1 = N * outer + (N - 1) := by rw [Nat.mul_comm]; omega
    rw [this, Nat.mul_add_div hN, Nat.div_eq_of_lt (by omega)]
    omega
  · subst h2
    simp

/-! ### M: the iterator-driven stack kernel in closed form -/

/-- every offset the iterator still holds addresses a cell of the window -/
def VSrc.valid (v : VSrc) : Prop := v.len ≤ v.cells.length ∧ ∀ id ∈ v.offs, 0 ≤ id ∧ id < (v.len : Int)

/-- the cells the iterator will deliver, in its order -/
def VSrc.listing (v : VSrc) : List Val := v.offs.map (fun id => (v.cells[id.toNat]?).getD Val.zero)

theorem pullChunk_spec (sized : Bool) : ∀ (n : Nat) (v : VSrc) (acc : List Val), v.valid →
    pullChunk sized n v acc = .ok ({ v with offs := v.offs.drop n }, acc ++ v.listing.take n) := by
  intro n
  induction n with
  | zero => intro v acc _; simp [pullChunk]
  | succ n ih =>
    intro v acc hv
    obtain ⟨hlen, hoffs⟩ := hv
    cases ho : v.offs with
    | nil =>
      simp only [pullChunk, ho, VSrc.listing, List.drop_nil, List.map_nil, List.take_nil, List.append_nil]
      congr 2
      cases v; simp_all
    | cons id rest =>
      have hid := hoffs id (by simp [ho])
      have hlt : id.toNat < v.cells.length := by omega
      simp only [pullChunk, ho]
      have c : ¬ (id < 0 ∨ (sized = true ∧ id ≥ (v.len : Int)) ∨ (sized = false ∧ id ≥ (v.cells.length : Int))) := by
        omega
      simp only [Bool.or_eq_true, Bool.and_eq_true, decide_eq_true_eq, Bool.not_eq_true']
      rw [if_neg (by simpa [or_assoc] using c)]
      simp only [List.getElem?_eq_getElem hlt]
      have hv' : VSrc.valid { v with offs := rest } :=
        ⟨hlen, fun x hx => hoffs x (by simp [ho, hx])⟩
      rw [ih { v with offs := rest } (acc ++ [v.cells[id.toNat]]) hv']
      simp [VSrc.listing, ho, List.getElem?_eq_getElem hlt]

theorem valid_drop (v : VSrc) (n : Nat) (h : v.valid) : VSrc.valid { v with offs := v.offs.drop n } :=
  ⟨h.1, fun x hx => h.2 x (List.mem_of_mem_drop hx)⟩

theorem listing_drop (v : VSrc) (n : Nat) :
    VSrc.listing { v with offs := v.offs.drop n } = v.listing.drop n := by
  simp [VSrc.listing, List.map_drop]

theorem viewStackRow_spec (sized : Bool) (A : Nat) : ∀ (srcs : List VSrc) (acc : List Val),
    (∀ v ∈ srcs, v.valid) →
    viewStackRow sized A srcs acc =
      .ok (srcs.map (fun v => { v with offs := v.offs.drop A }),
           acc ++ srcs.flatMap (fun v => v.listing.take A)) := by
  intro srcs
  induction srcs with
  | nil => intro acc _; simp [viewStackRow]
  | cons v vs ih =>
    intro acc hv
    simp only [viewStackRow, pullChunk_spec sized A v acc (hv v (by simp)), bind, Except.bind,
      ih _ (fun x hx => hv x (by simp [hx])), pure, Except.pure, List.map_cons, List.flatMap_cons,
      List.append_assoc]

theorem viewStackLoop_spec (sized : Bool) (A : Nat) : ∀ (n b : Nat) (srcs0 : List VSrc) (acc : List Val),
    (∀ v ∈ srcs0, v.valid) →
    viewStackLoop sized A n (srcs0.map (fun v => { v with offs := v.offs.drop (b * A) })) acc =
      .ok (acc ++ interleave A (srcs0.map VSrc.listing) b n) := by
  intro n
  induction n with
  | zero => intro b srcs0 acc _; simp [viewStackLoop, interleave]
  | succ n ih =>
    intro b srcs0 acc hv
    simp only [viewStackLoop]
    rw [viewStackRow_spec sized A _ acc (by
      intro v hv'
      simp only [List.mem_map] at hv'
      obtain ⟨w, hw, rfl⟩ := hv'
      exact valid_drop w _ (hv w hw))]
    simp only [bind, Except.bind, List.map_map]
    have e1 : (srcs0.map ((fun v : VSrc => { v with offs := v.offs.drop A }) ∘
          (fun v : VSrc => { v with offs := v.offs.drop (b * A) }))) =
        srcs0.map (fun v => { v with offs := v.offs.drop ((b + 1) * A) }) := by
      apply List.map_congr_left
      intro v _
      simp only [Function.comp, List.drop_drop]
      congr 2
      rw [Nat.add_mul, Nat.one_mul]
    rw [e1, ih (b + 1) srcs0 _ hv, interleave_succ]
    simp only [List.append_assoc, List.flatMap_map]
    congr 3
    apply flatMap_congr'
    intro v _
    rw [listing_drop]

/-- passes beyond the operands' length pull nothing -/
theorem interleave_extra {α} (A : Nat) (srcs : List (List α)) (n m : Nat)
    (h : ∀ x ∈ srcs, x.length ≤ n * A) :
    interleave A srcs 0 (n + m) = interleave A srcs 0 n := by
  induction m with
  | zero => rfl
  | succ m ih =>
    rw [show n + (m + 1) = (n + m) + 1 by omega]
    simp only [interleave] at ih ⊢
    rw [List.range_succ, List.flatMap_append, ih]
    simp only [List.flatMap_cons, List.flatMap_nil, List.append_nil, Nat.zero_add]
    have : srcs.flatMap (fun s => (s.drop ((n + m) * A)).take A) = [] := by
      rw [List.flatMap_eq_nil_iff]
      intro x hx
      have h1 := h x hx
      have h2 : n * A ≤ (n + m) * A := Nat.mul_le_mul_right A (by omega)
      rw [List.drop_eq_nil_of_le (by omega)]
      simp
    rw [this, List.append_nil]

theorem interleave_length {α} (A : Nat) (srcs : List (List α)) : ∀ (n b : Nat),
    (∀ x ∈ srcs, (b + n) * A ≤ x.length) → (interleave A srcs b n).length = n * (srcs.length * A) := by
  intro n
  induction n with
  | zero => intro b _; simp [interleave]
  | succ n ih =>
    intro b h
    rw [interleave_succ, List.length_append, ih (b + 1) (fun x hx => by
      have := h x hx; rw [show b + 1 + n = b + (n + 1) by omega]; exact this)]
    have hrow : (srcs.flatMap (fun s => (s.drop (b * A)).take A)).length = srcs.length * A := by
      clear ih
      induction srcs with
      | nil => simp
      | cons x xs ih2 =>
        have hx := h x (by simp)
        have h2 : (b + 1) * A ≤ (b + (n + 1)) * A := Nat.mul_le_mul_right A (by omega)
        rw [Nat.add_mul, Nat.one_mul] at h2
        simp only [List.flatMap_cons, List.length_append, List.length_take, List.length_drop, List.length_cons,
          Nat.succ_mul]
        rw [ih2 (fun y hy => h y (by simp [hy]))]
        omega
    rw [hrow, Nat.succ_mul]
    omega

theorem goDiv_mul_toNat (m A : Nat) (hA : 0 < A) : (goDiv ((m * A : Nat) : Int) ((A : Nat) : Int)).toNat = m := by
  simp only [goDiv, Int.natCast_mul]
  rw [Int.mul_tdiv_cancel _ (by omega), Int.toNat_natCast]

/-! ### frame: only the fresh result buffer is written -/

theorem recycled_spec (st st1 : St) (dt : String) (sh : Shape) (r : Dense)
    (h : recycled st dt sh = .ok (st1, r)) :
    ∃ cells, st1.heap = st.heap.push cells ∧ r.win.buf = st.heap.size ∧ r.shape = sh := by
  unfold recycled at h
  split at h
  · simp [throwPanic] at h
  · simp only [Dense.fresh, St.alloc, Except.ok.injEq, Prod.mk.injEq] at h
    obtain ⟨h1, h2⟩ := h
    subst h1 h2
    exact ⟨_, rfl, rfl, rfl⟩

theorem writeCells_frame (st st' : St) (w : Win) (cells : List Val) (h : writeCells st w cells = .ok st') :
    st'.heap.size = st.heap.size ∧ ∀ b, b ≠ w.buf → st'.heap[b]? = st.heap[b]? := by
  unfold writeCells at h
  split at h
  · simp [throwPanic] at h
  · simp only [Except.ok.injEq] at h
    subst h
    refine ⟨by simp, ?_⟩
    intro b hb
    simp only [Array.set!_eq_setIfInBounds]
    rw [Array.getElem?_setIfInBounds_ne (Ne.symm hb)]

theorem bind_ok {α β} {a : Res α} {f : α → Res β} {y : β} (h : (a >>= f) = .ok y) :
    ∃ x, a = .ok x ∧ f x = .ok y := by
  cases a with
  | error e => simp [bind, Except.bind] at h
  | ok x => exact ⟨x, rfl, h⟩

/-! ### frame of the copies made through `copyDenseIter` (temporaries of `Repeat` / `RepeatReuse`) -/

/-- what a call that writes the buffer `buf` and may allocate leaves of the heap it found: no buffer
    disappears, and every buffer that existed, other than `buf`, is what it was -/
def Keeps (st st' : St) (buf : Nat) : Prop :=
  st.heap.size ≤ st'.heap.size ∧ ∀ b, b < st.heap.size → b ≠ buf → st'.heap[b]? = st.heap[b]?

theorem Keeps.refl (st : St) (buf : Nat) : Keeps st st buf := ⟨Nat.le_refl _, fun _ _ _ => rfl⟩

/-- two calls in a row; the second writes the same buffer or one that did not exist at the start -/
theorem Keeps.trans {st st1 st2 : St} {b1 b2 : Nat} (h1 : Keeps st st1 b1) (h2 : Keeps st1 st2 b2)
    (hb : b2 = b1 ∨ st.heap.size ≤ b2) : Keeps st st2 b1 := by
  refine ⟨Nat.le_trans h1.1 h2.1, ?_⟩
  intro b hb1 hne
  have hne2 : b ≠ b2 := by rcases hb with h | h <;> omega
  rw [h2.2 b (Nat.lt_of_lt_of_le hb1 h1.1) hne2, h1.2 b hb1 hne]

theorem Keeps.of_eq {st st' : St} {buf : Nat} (hs : st'.heap.size = st.heap.size)
    (hf : ∀ b, b ≠ buf → st'.heap[b]? = st.heap[b]?) : Keeps st st' buf :=
  ⟨by omega, fun b _ hb => hf b hb⟩

theorem set_keeps {s s' : St} {w : Win} {i : Int} {v : Val} (h : s.set w i v = .ok s') :
    s'.heap.size = s.heap.size ∧ ∀ b, b ≠ w.buf → s'.heap[b]? = s.heap[b]? := by
  unfold St.set at h
  split at h
  · simp [throwPanic] at h
  · split at h
    · simp [throwPanic] at h
    · split at h
      · simp only [Except.ok.injEq] at h
        subst h
        refine ⟨by simp, fun b hb => ?_⟩
        simp only [Array.set!_eq_setIfInBounds]
        rw [Array.getElem?_setIfInBounds_ne (Ne.symm hb)]
      · simp [throwPanic] at h

theorem mset_heap {s s' : St} {w : Win} {i : Int} {v : Bool} (h : s.mset w i v = .ok s') : s'.heap = s.heap := by
  unfold St.mset at h
  split at h
  · simp [throwPanic] at h
  · split at h
    · simp [throwPanic] at h
    · split at h
      · simp only [Except.ok.injEq] at h
        subst h
        rfl
      · simp [throwPanic] at h

theorem rawCopy_wr_keeps (dst : Win) : ∀ (vals : List Val) (s s' : St) (j : Int),
    Dense.rawCopy.wr dst s j vals = .ok s' →
      s'.heap.size = s.heap.size ∧ ∀ b, b ≠ dst.buf → s'.heap[b]? = s.heap[b]?
  | [], s, s', j, h => by
    simp only [Dense.rawCopy.wr, Except.ok.injEq] at h
    subst h
    exact ⟨rfl, fun _ _ => rfl⟩
  | v :: vs, s, s', j, h => by
    simp only [Dense.rawCopy.wr, bind, Except.bind] at h
    cases h1 : s.set dst j v with
    | error e => rw [h1] at h; cases h
    | ok s1 =>
      rw [h1] at h
      obtain ⟨a1, a2⟩ := set_keeps h1
      obtain ⟨b1, b2⟩ := rawCopy_wr_keeps dst vs s1 s' (j + 1) h
      exact ⟨b1.trans a1, fun b hb => (b2 b hb).trans (a2 b hb)⟩

theorem rawCopy_keeps {s s' : St} {dst src : Win} (h : Dense.rawCopy s dst src = .ok s') :
    s'.heap.size = s.heap.size ∧ ∀ b, b ≠ dst.buf → s'.heap[b]? = s.heap[b]? := by
  unfold Dense.rawCopy at h
  simp only [bind, Except.bind] at h
  cases hv : (rangeI (min dst.len src.len)).mapM (fun i => s.get src i) with
  | error e => simp [hv] at h
  | ok vals =>
    simp only [hv] at h
    exact rawCopy_wr_keeps dst vals s s' 0 h

theorem copyIterOffsets_keeps (dst src : Win) : ∀ (is js : List Int) (s s' : St),
    Dense.copyIterOffsets s dst src is js = .ok s' →
      s'.heap.size = s.heap.size ∧ ∀ b, b ≠ dst.buf → s'.heap[b]? = s.heap[b]?
  | [], _, s, s', h => by
    simp only [Dense.copyIterOffsets, Except.ok.injEq] at h
    subst h
    exact ⟨rfl, fun _ _ => rfl⟩
  | _ :: _, [], s, s', h => by
    simp only [Dense.copyIterOffsets, Except.ok.injEq] at h
    subst h
    exact ⟨rfl, fun _ _ => rfl⟩
  | i :: is, j :: js, s, s', h => by
    simp only [Dense.copyIterOffsets] at h
    split at h
    · simp [throwPanic] at h
    · simp only [bind, Except.bind] at h
      cases hs : s.heap[src.buf]? with
      | none => simp [hs, throwPanic] at h
      | some bs =>
        simp only [hs] at h
        cases hv : bs[src.off + j.toNat]? with
        | none => simp [hv, throwPanic] at h
        | some v =>
          simp only [hv, pure, Except.pure] at h
          cases hd : s.heap[dst.buf]? with
          | none => simp [hd, throwPanic] at h
          | some b =>
            simp only [hd] at h
            split at h
            · obtain ⟨a1, a2⟩ := copyIterOffsets_keeps dst src is js _ s' h
              refine ⟨by rw [a1]; simp, fun b' hb' => ?_⟩
              rw [a2 b' hb']
              simp only [Array.set!_eq_setIfInBounds]
              rw [Array.getElem?_setIfInBounds_ne (Ne.symm hb')]
            · simp [throwPanic] at h

theorem copyMask_wr_heap (dm : Win) (n : Nat) : ∀ (vals : List Bool) (s s' : St) (j : Int),
    Dense.copyMask.wr dm n s j vals = .ok s' → s'.heap = s.heap
  | [], s, s', j, h => by
    simp only [Dense.copyMask.wr, Except.ok.injEq] at h
    subst h
    rfl
  | v :: vs, s, s', j, h => by
    simp only [Dense.copyMask.wr, bind, Except.bind] at h
    split at h
    · simp only [Except.ok.injEq] at h
      subst h
      rfl
    · cases h1 : s.mset dm j v with
      | error e => rw [h1] at h; cases h
      | ok s1 =>
        rw [h1] at h
        exact (copyMask_wr_heap dm n vs s1 s' (j + 1) h).trans (mset_heap h1)

theorem copyMaskOffsets_heap (dm sm : Win) : ∀ (is js : List Int) (s s' : St),
    Dense.copyMaskOffsets s dm sm is js = .ok s' → s'.heap = s.heap
  | [], _, s, s', h => by
    simp only [Dense.copyMaskOffsets, Except.ok.injEq] at h
    subst h
    rfl
  | _ :: _, [], s, s', h => by
    simp only [Dense.copyMaskOffsets, Except.ok.injEq] at h
    subst h
    rfl
  | i :: is, j :: js, s, s', h => by
    simp only [Dense.copyMaskOffsets, bind, Except.bind] at h
    cases hv : s.mget sm j with
    | error e => rw [hv] at h; cases h
    | ok v =>
      rw [hv] at h
      cases h1 : s.mset dm i v with
      | error e => simp only [h1] at h; cases h
      | ok s1 =>
        simp only [h1] at h
        exact (copyMaskOffsets_heap dm sm is js s1 s' h).trans (mset_heap h1)

theorem copyMask_heap {s s' : St} {dst src d' : Dense} (h : Dense.copyMask s dst src = .ok (s', d')) :
    s'.heap = s.heap ∧ d'.win = dst.win := by
  unfold Dense.copyMask at h
  cases hsm : src.mask with
  | none =>
    simp only [hsm, pure, Except.pure, Except.ok.injEq, Prod.mk.injEq] at h
    obtain ⟨rfl, rfl⟩ := h
    exact ⟨rfl, rfl⟩
  | some sm =>
    simp only [hsm] at h
    split at h
    · simp only [pure, Except.pure, Except.ok.injEq, Prod.mk.injEq] at h
      obtain ⟨rfl, rfl⟩ := h
      exact ⟨rfl, rfl⟩
    · simp only [bind, Except.bind] at h
      cases hv : (rangeI sm.len).mapM (fun i => s.mget sm i) with
      | error e => simp [hv] at h
      | ok svals =>
        simp only [hv] at h
        cases hdm : dst.mask with
        | none =>
          simp only [hdm] at h
          split at h
          · simp only [St.allocMask, pure, Except.pure, Except.ok.injEq, Prod.mk.injEq] at h
            obtain ⟨rfl, rfl⟩ := h
            exact ⟨rfl, rfl⟩
          · simp only [pure, Except.pure, Except.ok.injEq, Prod.mk.injEq] at h
            obtain ⟨rfl, rfl⟩ := h
            exact ⟨rfl, rfl⟩
        | some dm =>
          simp only [hdm] at h
          split at h
          · simp only [St.allocMask, pure, Except.pure, Except.ok.injEq, Prod.mk.injEq] at h
            obtain ⟨rfl, rfl⟩ := h
            exact ⟨rfl, rfl⟩
          · cases hw : Dense.copyMask.wr dm (min dm.len sm.len) s 0 svals with
            | error e => simp [hw] at h
            | ok s1 =>
              simp only [hw, pure, Except.pure, Except.ok.injEq, Prod.mk.injEq] at h
              obtain ⟨rfl, rfl⟩ := h
              exact ⟨copyMask_wr_heap dm _ svals s s1 0 hw, rfl⟩

theorem maskGrow_heap (s : St) (dst : Dense) (dm0 : Win) (s0 : St) (d0 : Dense) (dm : Win)
    (hx : (if dm0.len < dst.win.len then do
        let old ← (rangeI dm0.len).mapM (fun i => s.mget dm0 i)
        let (s, b) := s.allocMask (old ++ List.replicate (dst.win.len - dm0.len) false).toArray
        let dm : Win := ⟨b, 0, dst.win.len, dst.win.len⟩
        pure (s, { dst with mask := some dm }, dm)
      else pure (s, dst, dm0) : Res (St × Dense × Win)) = .ok (s0, d0, dm)) : s0.heap = s.heap := by
  split at hx
  · simp only [bind, Except.bind] at hx
    cases hv : (rangeI dm0.len).mapM (fun i => s.mget dm0 i) with
    | error e => simp [hv] at hx
    | ok old =>
      simp only [hv, St.allocMask, pure, Except.pure, Except.ok.injEq, Prod.mk.injEq] at hx
      obtain ⟨rfl, _⟩ := hx
      rfl
  · simp only [pure, Except.pure, Except.ok.injEq, Prod.mk.injEq] at hx
    obtain ⟨rfl, _⟩ := hx
    rfl

theorem copyMaskIter_heap {s s' : St} {dst src d' : Dense} {doffs soffs : List Int}
    (h : Dense.copyMaskIter s dst src doffs soffs = .ok (s', d')) : s'.heap = s.heap := by
  unfold Dense.copyMaskIter at h
  split at h
  · simp only [pure, Except.pure, Except.ok.injEq, Prod.mk.injEq] at h
    obtain ⟨rfl, _⟩ := h
    rfl
  · obtain ⟨⟨s0, d0, dm⟩, hx, h⟩ := bind_ok h
    obtain ⟨s1, hc, h⟩ := bind_ok h
    simp only [pure, Except.pure, Except.ok.injEq, Prod.mk.injEq] at h
    obtain ⟨rfl, _⟩ := h
    exact (copyMaskOffsets_heap _ _ _ _ _ _ hc).trans (maskGrow_heap _ _ _ _ _ _ hx)
/-- `copyDenseIter(dst, src, nil, nil)` writes the destination's buffer only and allocates no data buffer -/
theorem copyDenseIter_keeps {s s' : St} {dst src d' : Dense} (h : Dense.copyDenseIter s dst src = .ok (s', d')) :
    s'.heap.size = s.heap.size ∧ ∀ b, b ≠ dst.win.buf → s'.heap[b]? = s.heap[b]? := by
  unfold Dense.copyDenseIter at h
  split at h
  · unfold Dense.copyDense at h
    obtain ⟨⟨s1, d1⟩, h1, h⟩ := bind_ok h
    obtain ⟨s2, h2, h⟩ := bind_ok h
    simp only [pure, Except.pure, Except.ok.injEq, Prod.mk.injEq] at h
    obtain ⟨rfl, _⟩ := h
    obtain ⟨e1, ew⟩ := copyMask_heap h1
    obtain ⟨a1, a2⟩ := rawCopy_keeps h2
    rw [ew] at a2
    rw [e1] at a1 a2
    exact ⟨a1, a2⟩
  · obtain ⟨s1, h1, h⟩ := bind_ok h
    obtain ⟨a1, a2⟩ := copyIterOffsets_keeps _ _ _ _ _ _ h1
    have e := copyMaskIter_heap h
    rw [e]
    exact ⟨a1, a2⟩

/-- the head of `denseRepeat`: whatever the layout of the source, nothing that existed is written — a
    source that has to be copied is copied into a buffer of its own -/
theorem repeatSource_keeps {st st1 : St} {t t1 : Dense} (h : repeatSource st t = .ok (st1, t1)) :
    st.heap.size ≤ st1.heap.size ∧ ∀ b, b < st.heap.size → st1.heap[b]? = st.heap[b]? := by
  unfold repeatSource at h
  split at h
  · simp only [pure, Except.pure, Except.ok.injEq, Prod.mk.injEq] at h
    obtain ⟨rfl, _⟩ := h
    exact ⟨Nat.le_refl _, fun _ _ => rfl⟩
  · obtain ⟨⟨s0, tmp⟩, h0, h⟩ := bind_ok h
    obtain ⟨cells, hheap, hbuf, _⟩ := recycled_spec st s0 t.dt t.shape tmp h0
    obtain ⟨a1, a2⟩ := copyDenseIter_keeps h
    have hsz : s0.heap.size = st.heap.size + 1 := by rw [hheap]; simp
    refine ⟨by omega, fun b hb => ?_⟩
    rw [a2 b (by show b ≠ tmp.win.buf; omega), hheap, Array.getElem?_push_lt hb]
    simp

/-- `denseRepeat` writes the storage of its destination and of its own temporary, nothing else -/
theorem denseRepeat_frame (st st' : St) (t d : Dense) (newShape : Shape) (axis size : Int) (reps : List Int)
    (h : denseRepeat st t d newShape axis size reps = .ok st') : Keeps st st' d.win.buf := by
  unfold denseRepeat at h
  simp only [pure, Except.pure, bind, Except.bind, throwPanic] at h
  split at h
  · cases h
  · split at h
    · cases h
    · split at h
      · cases h
      · rename_i x hsrc
        obtain ⟨st1, t1⟩ := x
        obtain ⟨k1, k2⟩ := repeatSource_keeps hsrc
        simp only at h
        split at h
        · cases h
        · split at h
          · cases h
          · split at h
            · cases h
            · split at h
              · cases h
              · obtain ⟨w1, w2⟩ := writeCells_frame _ st' d.win _ h
                refine ⟨by omega, fun b hb hne => ?_⟩
                rw [w2 b hne, k2 b hb]

theorem repeatNew_frame (st st' : St) (t d : Dense) (axis : Int) (reps : List Int)
    (h : repeatNew st t axis reps = .ok (st', d)) :
    d.win.buf = st.heap.size ∧ ∀ b, b < st.heap.size → st'.heap[b]? = st.heap[b]? := by
  unfold repeatNew at h
  obtain ⟨⟨newShape, newReps, size⟩, _, h⟩ := bind_ok h
  obtain ⟨⟨st1, rr⟩, h1, h⟩ := bind_ok h
  obtain ⟨st2, h2, h⟩ := bind_ok h
  simp only [pure, Except.pure, Except.ok.injEq, Prod.mk.injEq] at h
  obtain ⟨rfl, rfl⟩ := h
  obtain ⟨cells, hheap, hbuf, _⟩ := recycled_spec st st1 t.dt newShape rr h1
  obtain ⟨_, hfr⟩ := denseRepeat_frame st1 st2 t rr newShape _ size newReps h2
  have hsz : st1.heap.size = st.heap.size + 1 := by rw [hheap]; simp
  refine ⟨hbuf, ?_⟩
  intro b hb
  rw [hfr b (by omega) (by omega), hheap, Array.getElem?_push_lt hb]
  simp

/-- `RepeatReuse`, whatever the layouts of the source and of the reuse tensor: of the buffers that existed
    only the reuse tensor's is written (a reuse tensor that is not stored in row-major order is filled by
    `copyDenseIter` from a temporary of its own) -/
theorem repeatReuse_frame (st st' : St) (t reuse : Dense) (axis : Int) (reps : List Int)
    (h : repeatReuse st t reuse axis reps = .ok st') : Keeps st st' reuse.win.buf := by
  unfold repeatReuse at h
  obtain ⟨⟨newShape, newReps, size⟩, _, h⟩ := bind_ok h
  simp only [bind, Except.bind, throwErr, throwPanic, pure, Except.pure] at h
  split at h
  · cases h
  · split at h
    · split at h
      · cases h
      · split at h
        · cases h
        · rename_i x h0
          obtain ⟨s0, tmp⟩ := x
          obtain ⟨cells, hheap, hbuf, _⟩ := recycled_spec st s0 t.dt newShape tmp h0
          have hsz : s0.heap.size = st.heap.size + 1 := by rw [hheap]; simp
          simp only at h
          split at h
          · cases h
          · rename_i s1 h1
            have k1 := denseRepeat_frame s0 s1 t tmp newShape _ size newReps h1
            split at h
            · cases h
            · split at h
              · cases h
              · rename_i y h2
                obtain ⟨s2, d2⟩ := y
                simp only [Except.ok.injEq] at h
                subst h
                obtain ⟨c1, c2⟩ := copyDenseIter_keeps h2
                refine ⟨by have := k1.1; omega, fun b hb hne => ?_⟩
                rw [c2 b hne, k1.2 b (by omega) (by omega), hheap, Array.getElem?_push_lt hb]
                simp
    · exact denseRepeat_frame st st' t reuse newShape _ size newReps h

theorem stackDense_frame (st st' : St) (t d : Dense) (axis : Int) (others : List Dense)
    (h : stackDense st t axis others = .ok (st', d)) :
    d.win.buf = st.heap.size ∧ ∀ b, b < st.heap.size → st'.heap[b]? = st.heap[b]? := by
  unfold stackDense at h
  obtain ⟨newShape, _, h⟩ := bind_ok h
  obtain ⟨⟨st1, r0⟩, h1, h⟩ := bind_ok h
  obtain ⟨cells, hheap, hbuf, _⟩ := recycled_spec st st1 t.dt newShape r0 h1
  simp only [pure, Except.pure, bind, Except.bind, throwPanic] at h
  split at h
  · cases h
  · split at h
    · cases h
    · split at h
      · cases h
      · split at h
        · cases h
        · rename_i st2 hw
          simp only [Except.ok.injEq, Prod.mk.injEq] at h
          obtain ⟨rfl, rfl⟩ := h
          obtain ⟨_, hfr⟩ := writeCells_frame st1 st2 _ _ hw
          refine ⟨hbuf, ?_⟩
          intro b hb
          have hne : b ≠ r0.win.buf := by omega
          rw [hfr b hne, hheap, Array.getElem?_push_lt hb]
          simp

end Asm
end TM
