#!/usr/bin/env python3
"""Merges findings.d/*.json (contributed by operation-family modules) into known_findings.json (by id)."""
import glob, json, os
V = os.path.dirname(os.path.dirname(os.path.abspath(__file__)))
main = json.load(open(os.path.join(V, "known_findings.json")))
byid = {f["id"]: f for f in main}
for p in sorted(glob.glob(os.path.join(V, "findings.d", "*.json"))):
    for f in json.load(open(p)):
        if f["id"] in byid:
            byid[f["id"]].update(f)
        else:
            main.append(f); byid[f["id"]] = f
json.dump(main, open(os.path.join(V, "known_findings.json"), "w"), indent=1)
print(len(main), "findings")
