import TensorModel.Proofs.CopyCoord
import TensorModel.Props.C17compat
/-! `copyDenseIter` into a fresh row-major tensor of the source's shape (the temporaries of `Repeat` /
    `RepeatReuse`, the contiguous copies the BLAS wrappers make of non-contiguous views) is a copy by
    coordinate. -/
namespace TM

/-- `r0` is a row-major tensor of `t`'s shape over a new, zeroed buffer (what `recycledDense` returns), and
    `copyDenseIter(r0, t, nil, nil)` takes the iterator path (the source needs its iterator, or the data orders
    differ): the call succeeds with `r0`, which then holds at every coordinate `c` (its own row-major address)
    the source's element at `c` (the source's strided address); no cell that existed before is changed. Any
    rank, any strides, unmasked source. -/
theorem freshCopy_by_coordinate (st st' : St) (t r0 r : Dense)
    (hsh0 : r0.ap.shape = t.ap.shape) (hstr0 : r0.ap.strides = calcStrides t.ap.shape)
    (hwin0 : r0.win = ⟨st.heap.size, 0, (prod t.ap.shape).toNat, (prod t.ap.shape).toNat⟩)
    (hfast : (!r0.requiresIterator && !t.requiresIterator && Dense.sameOrder r0 t) = false)
    (hnm : t.mask = none) (hlen0 : t.win.len ≠ 0)
    (hl : t.ap.strides.length = t.ap.shape.length) (hp : ∀ d ∈ t.ap.shape, 0 < d)
    (hcap : t.win.len ≤ t.win.cap) (hbuf : t.win.buf < st.heap.size)
    (hr : ∀ c ∈ allCoords t.ap.shape, 0 ≤ dot c t.ap.strides ∧ dot c t.ap.strides < (t.win.len : Int))
    (hs : Has st t.win.buf t.win.off t.win.len)
    (h : Dense.copyDenseIter { st with heap := st.heap.push (Array.replicate (prod t.ap.shape).toNat Val.zero) } r0 t
          = .ok (st', r)) :
    r = r0 ∧
    (∀ c ∈ allCoords t.ap.shape,
      cell st' st.heap.size (rowRank t.ap.shape c).toNat =
        some (cellD st t.win.buf (t.win.off + (dot c t.ap.strides).toNat))) ∧
    (∀ b' k', b' < st.heap.size → cell st' b' k' = cell st b' k') := by
  have hmask : t.isMasked = false := by
    unfold Dense.isMasked; rw [hnm]; simpa using hlen0
  generalize hst1 : ({ st with heap := st.heap.push (Array.replicate (prod t.ap.shape).toNat Val.zero) } : St) = st1 at h
  have hst1' : st1 = { st with heap := st.heap.push (Array.replicate (prod t.ap.shape).toNat Val.zero) } := hst1.symm
  unfold Dense.copyDenseIter at h
  simp only [hfast, Bool.false_eq_true, if_false, bind, Except.bind] at h
  have hdot : ∀ c, dot c r0.ap.strides = rowRank t.ap.shape c := by intro c; rw [hstr0]; rfl
  obtain ⟨s2, h2, _, hv, hf⟩ := copyIterOffsets_by_coordinate st1 r0 t t.ap.shape hsh0 rfl
    (by rw [hstr0, calcStrides_length]) hl hp (by rw [hwin0]; exact Nat.ne_of_gt hbuf)
    (by rw [hwin0]; exact Nat.le_refl _) hcap
    (by
      intro c hc
      rw [hdot, hwin0]
      have hb := rowRank_bounds' t.ap.shape c (C17compat.allCoords_inBox _ _ hc)
      have hpp : 0 ≤ prod t.ap.shape := by omega
      simp only
      omega)
    hr
    (by
      have : (fun c => dot c r0.ap.strides) = rowRank t.ap.shape := by funext c; exact hdot c
      rw [this, C17compat.allCoords_map_rowRank _ hp]
      exact rangeI_pairwise _)
    (by
      rw [hwin0, hst1']
      intro i hi
      simp only [Nat.zero_add]
      rw [cell_push_new]
      have hi' : i < (prod t.ap.shape).toNat := hi
      simp [hi'])
    (by rw [hst1']; exact hs.push hbuf _)
  rw [h2] at h
  simp only [Dense.copyMaskIter, hmask, Bool.not_false, if_true, pure, Except.pure, Except.ok.injEq, Prod.mk.injEq] at h
  obtain ⟨rfl, rfl⟩ := h
  refine ⟨rfl, ?_, ?_⟩
  · intro c hc
    have := hv c hc
    rw [hdot, hwin0] at this
    simp only [Nat.zero_add] at this
    refine this.trans ?_
    rw [hst1']
    congr 1
    unfold cellD
    rw [cell_push_lt _ _ _ _ hbuf]
  · intro b' k' hb'
    rw [hf b' k' (Or.inl (by rw [hwin0]; exact Nat.ne_of_lt hb')), hst1', cell_push_lt _ _ _ _ hb']

end TM
