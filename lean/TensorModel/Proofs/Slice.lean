import TensorModel.Run
/-! Helper lemmas for C02 (slicing). -/
namespace TM

end TM
