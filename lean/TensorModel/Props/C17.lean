/-
  C17 — every element-type specialisation computes the same function.

  Regenerate:  (cd /verif/tools/gox && go run . -repo /repo -out /verif/lean/TensorModel/Generated)
  Check:       (cd /verif/lean && lake build TensorModel.Props.C17)

  Everything here is re-checked whenever `tools/gox` regenerates `Generated/*.lean` from the Go
  sources.  Finite obligations are `decide +kernel` facts about the regenerated tables:

  * `kernels_conform`   every generated per-type kernel is, after gox's purely syntactic
                        abstraction, *equal* to the type-generic template of its family at its
                        own element type (Templates.kernelTemplates);
  * `dispatch_conform`  every `case T:` arm of every `func (e E) M(...)` is the reference arm of
                        `M` at `T` (own accessor, own-suffix kernels, argument wiring), and the
                        frame (prelude / `default:` / epilogue) is the reference frame;
  * `no_opaque`         nothing in the tables lies outside the MiniGo subset;
  * `types_complete`    the set of types with a kernel / an arm is exactly the set of types
                        the type-generic definition supports; dispatch arms only call kernels
                        that exist for the arm's type (`arms_call_existing_kernels`);
  * `unmatched`         the list of functions not covered by a template: empty.

  The semantic theorems about the templates themselves are in `TM.C17.Sem` (bottom).
-/
import TensorModel.Templates
import TensorModel.Generated.Kernels
import TensorModel.Generated.Dispatch
namespace TM.C17
open TM.MiniGo TM.Templates TM.Generated

/-- all kernel families / dispatcher methods of the regenerated tables -/
def kfams : List KFam := kfamsChunks.flatten
def dmeths : List DMethod := dmethsChunks.flatten

theorem all_of_chunks {α : Type} (P : α → Prop) (cs : List (List α)) (n : Nat) (hn : cs.length ≤ n)
    (h : ∀ k, k < n → ∀ x ∈ cs.getD k [], P x) : ∀ x ∈ cs.flatten, P x := by
  intro x hx
  obtain ⟨c, hc, hxc⟩ := List.mem_flatten.1 hx
  obtain ⟨k, hk, rfl⟩ := List.mem_iff_getElem.1 hc
  have e : cs.getD k [] = cs[k] := by simp [List.getD, List.getElem?_eq_getElem hk]
  exact h k (Nat.lt_of_lt_of_le hk hn) x (e ▸ hxc)

/-! ## kernels: one obligation per chunk of ≤ 250 functions (chunks beyond the last are empty) -/

theorem kernels_ok_0 : ∀ f ∈ kfamsChunks.getD 0 [], famOK f = true := by decide +kernel
theorem kernels_ok_1 : ∀ f ∈ kfamsChunks.getD 1 [], famOK f = true := by decide +kernel
theorem kernels_ok_2 : ∀ f ∈ kfamsChunks.getD 2 [], famOK f = true := by decide +kernel
theorem kernels_ok_3 : ∀ f ∈ kfamsChunks.getD 3 [], famOK f = true := by decide +kernel
theorem kernels_ok_4 : ∀ f ∈ kfamsChunks.getD 4 [], famOK f = true := by decide +kernel
theorem kernels_ok_5 : ∀ f ∈ kfamsChunks.getD 5 [], famOK f = true := by decide +kernel
theorem kernels_ok_6 : ∀ f ∈ kfamsChunks.getD 6 [], famOK f = true := by decide +kernel
theorem kernels_ok_7 : ∀ f ∈ kfamsChunks.getD 7 [], famOK f = true := by decide +kernel
theorem kernels_ok_8 : ∀ f ∈ kfamsChunks.getD 8 [], famOK f = true := by decide +kernel
theorem kernels_ok_9 : ∀ f ∈ kfamsChunks.getD 9 [], famOK f = true := by decide +kernel
theorem kernels_ok_10 : ∀ f ∈ kfamsChunks.getD 10 [], famOK f = true := by decide +kernel
theorem kernels_ok_11 : ∀ f ∈ kfamsChunks.getD 11 [], famOK f = true := by decide +kernel
theorem kernels_ok_12 : ∀ f ∈ kfamsChunks.getD 12 [], famOK f = true := by decide +kernel
theorem kernels_ok_13 : ∀ f ∈ kfamsChunks.getD 13 [], famOK f = true := by decide +kernel
theorem kernels_ok_14 : ∀ f ∈ kfamsChunks.getD 14 [], famOK f = true := by decide +kernel
theorem kernels_ok_15 : ∀ f ∈ kfamsChunks.getD 15 [], famOK f = true := by decide +kernel
theorem kernels_ok_16 : ∀ f ∈ kfamsChunks.getD 16 [], famOK f = true := by decide +kernel
theorem kernels_ok_17 : ∀ f ∈ kfamsChunks.getD 17 [], famOK f = true := by decide +kernel
theorem kernels_ok_18 : ∀ f ∈ kfamsChunks.getD 18 [], famOK f = true := by decide +kernel
theorem kernels_ok_19 : ∀ f ∈ kfamsChunks.getD 19 [], famOK f = true := by decide +kernel
theorem kernels_ok_20 : ∀ f ∈ kfamsChunks.getD 20 [], famOK f = true := by decide +kernel
theorem kernels_ok_21 : ∀ f ∈ kfamsChunks.getD 21 [], famOK f = true := by decide +kernel
theorem kernels_ok_22 : ∀ f ∈ kfamsChunks.getD 22 [], famOK f = true := by decide +kernel
theorem kernels_ok_23 : ∀ f ∈ kfamsChunks.getD 23 [], famOK f = true := by decide +kernel
theorem kernels_chunks_bound : kfamsChunks.length ≤ 24 := by decide

theorem kernels_ok : ∀ f ∈ kfams, famOK f = true :=
  all_of_chunks _ _ 24 kernels_chunks_bound fun k hk => by
    match k, hk with
    | 0, _ => exact kernels_ok_0
    | 1, _ => exact kernels_ok_1
    | 2, _ => exact kernels_ok_2
    | 3, _ => exact kernels_ok_3
    | 4, _ => exact kernels_ok_4
    | 5, _ => exact kernels_ok_5
    | 6, _ => exact kernels_ok_6
    | 7, _ => exact kernels_ok_7
    | 8, _ => exact kernels_ok_8
    | 9, _ => exact kernels_ok_9
    | 10, _ => exact kernels_ok_10
    | 11, _ => exact kernels_ok_11
    | 12, _ => exact kernels_ok_12
    | 13, _ => exact kernels_ok_13
    | 14, _ => exact kernels_ok_14
    | 15, _ => exact kernels_ok_15
    | 16, _ => exact kernels_ok_16
    | 17, _ => exact kernels_ok_17
    | 18, _ => exact kernels_ok_18
    | 19, _ => exact kernels_ok_19
    | 20, _ => exact kernels_ok_20
    | 21, _ => exact kernels_ok_21
    | 22, _ => exact kernels_ok_22
    | 23, _ => exact kernels_ok_23
    | k + 24, h => exact absurd h (by omega)

theorem kernels_conform : ∀ f ∈ kfams, famConforms f = true :=
  fun f hf => ((famOK_iff f).1 (kernels_ok f hf)).1
/-- the set of types having a kernel of a family is exactly the set the definition supports -/
theorem kernel_types_complete : ∀ f ∈ kfams, famComplete f = true :=
  fun f hf => ((famOK_iff f).1 (kernels_ok f hf)).2

/-- Readable form: every generated kernel `base ++ suffix` *is* the template of `base` at the
class of its own element type (as MiniGo terms, after gox's abstraction). -/
theorem kernels_are_instances : ∀ f ∈ kfams, ∀ m ∈ f.members,
    ∃ t ti, lookup f.base kernelTemplates = some t ∧ tyBySuffix m.1 = some ti ∧
      expectedAt t ti.cls = some m.2 := by
  intro f hf m hm
  have h := kernels_conform f hf
  unfold famConforms at h
  split at h
  · rename_i t ht
    have hm' := List.all_eq_true.1 h m hm
    unfold memberConforms at hm'
    split at hm'
    · rename_i ti hti
      split at hm'
      · rename_i e he
        exact ⟨t, ti, ht, hti, by rw [he, beqFn_sound _ _ hm']⟩
      · exact absurd hm' (by simp)
    · exact absurd hm' (by simp)
  · exact absurd h (by simp)

/-! ## dispatchers -/

theorem dispatch_ok_0 : ∀ m ∈ dmethsChunks.getD 0 [], methodOK m = true := by decide +kernel
theorem dispatch_ok_1 : ∀ m ∈ dmethsChunks.getD 1 [], methodOK m = true := by decide +kernel
theorem dispatch_ok_2 : ∀ m ∈ dmethsChunks.getD 2 [], methodOK m = true := by decide +kernel
theorem dispatch_ok_3 : ∀ m ∈ dmethsChunks.getD 3 [], methodOK m = true := by decide +kernel
theorem dispatch_ok_4 : ∀ m ∈ dmethsChunks.getD 4 [], methodOK m = true := by decide +kernel
theorem dispatch_ok_5 : ∀ m ∈ dmethsChunks.getD 5 [], methodOK m = true := by decide +kernel
theorem dispatch_ok_6 : ∀ m ∈ dmethsChunks.getD 6 [], methodOK m = true := by decide +kernel
theorem dispatch_ok_7 : ∀ m ∈ dmethsChunks.getD 7 [], methodOK m = true := by decide +kernel
theorem dispatch_ok_8 : ∀ m ∈ dmethsChunks.getD 8 [], methodOK m = true := by decide +kernel
theorem dispatch_ok_9 : ∀ m ∈ dmethsChunks.getD 9 [], methodOK m = true := by decide +kernel
theorem dispatch_ok_10 : ∀ m ∈ dmethsChunks.getD 10 [], methodOK m = true := by decide +kernel
theorem dispatch_ok_11 : ∀ m ∈ dmethsChunks.getD 11 [], methodOK m = true := by decide +kernel
theorem dispatch_chunks_bound : dmethsChunks.length ≤ 12 := by decide

theorem dispatch_ok : ∀ m ∈ dmeths, methodOK m = true :=
  all_of_chunks _ _ 12 dispatch_chunks_bound fun k hk => by
    match k, hk with
    | 0, _ => exact dispatch_ok_0
    | 1, _ => exact dispatch_ok_1
    | 2, _ => exact dispatch_ok_2
    | 3, _ => exact dispatch_ok_3
    | 4, _ => exact dispatch_ok_4
    | 5, _ => exact dispatch_ok_5
    | 6, _ => exact dispatch_ok_6
    | 7, _ => exact dispatch_ok_7
    | 8, _ => exact dispatch_ok_8
    | 9, _ => exact dispatch_ok_9
    | 10, _ => exact dispatch_ok_10
    | 11, _ => exact dispatch_ok_11
    | k + 12, h => exact absurd h (by omega)

theorem dispatch_conform : ∀ m ∈ dmeths, methodConforms m = true :=
  fun m hm => ((methodOK_iff m).1 (dispatch_ok m hm)).1
/-- the set of types having an arm in a dispatcher is exactly the set the definition supports -/
theorem dispatch_types_complete : ∀ m ∈ dmeths, methodComplete m = true :=
  fun m hm => ((methodOK_iff m).1 (dispatch_ok m hm)).2

/-- Readable form: every `case T:` arm is the reference arm of its method at `T`, and the frame
is the reference frame (modulo the text of string literals). -/
theorem arms_are_instances : ∀ m ∈ dmeths, ∃ d, lookup m.name dispatchTemplates = some d ∧
    normFn m.frame = d.frame ∧
    ∀ a ∈ m.arms, ∃ ti, tyByCase a.1 = some ti ∧ expectedArm d ti.cls = some a.2 := by
  intro m hm
  have h := dispatch_conform m hm
  unfold methodConforms at h
  split at h
  · rename_i d hd
    rw [Bool.and_eq_true] at h
    refine ⟨d, hd, beqFn_sound _ _ h.1, fun a ha => ?_⟩
    have ha' := List.all_eq_true.1 h.2 a ha
    unfold armConforms at ha'
    split at ha'
    · rename_i ti hti
      split at ha'
      · rename_i e he
        exact ⟨ti, hti, by rw [he, beqSs_sound _ _ ha']⟩
      · exact absurd ha' (by simp)
    · exact absurd ha' (by simp)
  · exact absurd h (by simp)

/-! ## nothing outside the MiniGo subset -/
theorem no_opaque_kernels : ∀ b ∈ kbodys, b.clean = true := by decide +kernel
theorem no_opaque_frames : ∀ b ∈ dframes, b.clean = true := by decide +kernel
theorem no_opaque_arms : ∀ b ∈ darms, b.clean = true := by decide +kernel
theorem no_opaque : (∀ b ∈ kbodys, b.clean = true) ∧ (∀ b ∈ dframes, b.clean = true) ∧
    (∀ b ∈ darms, b.clean = true) := ⟨no_opaque_kernels, no_opaque_frames, no_opaque_arms⟩

/-! ## "claims to support" = "has an arm" = "has kernels" = the type-generic definition -/

/-- no template family / method is missing from the sources, none occurs twice -/
theorem families_complete :
    sameSet (kfams.map (·.base)) (kernelTemplates.map (·.1)) = true := by decide +kernel
theorem methods_complete :
    sameSet (dmeths.map (·.name)) (dispatchTemplates.map (·.1)) = true := by decide +kernel

theorem types_complete :
    (∀ f ∈ kfams, famComplete f = true) ∧ (∀ m ∈ dmeths, methodComplete m = true) ∧
    sameSet (kfams.map (·.base)) (kernelTemplates.map (·.1)) = true ∧
    sameSet (dmeths.map (·.name)) (dispatchTemplates.map (·.1)) = true :=
  ⟨kernel_types_complete, dispatch_types_complete, families_complete, methods_complete⟩

/-- "has an arm" ⇒ "has kernels": wherever a dispatcher has a reference arm (= by
`dispatch_types_complete` a `case` in the sources), every typed kernel that arm calls has a
template at that type (= by `kernel_types_complete` a generated function).  Template-level fact,
proved in Templates.lean. -/
theorem arms_call_existing_kernels :
    ∀ d ∈ dispatchTemplates, ∀ c ∈ allCls,
      (match d.2.arm c with
       | some a => (kernelCallees a).all (kernelExistsAt c)
       | none => true) = true := TM.Templates.arms_call_existing_kernels

/-! ## diagnosis
When an obligation above fails, `tools/gox/diagnose.lean` lists the offending Go functions and
dispatcher arms (`Templates.nonconformingKernels / nonconformingArms`):
`cd /verif/lean && lake build TensorModel.Generated.Kernels TensorModel.Generated.Dispatch && lake env lean ../tools/gox/diagnose.lean` -/

/-! ## functions not brought under a template: none -/
def unmatched : List String := []
theorem unmatched_exact : (kfams.filter fun f => !famConforms f).map (·.base) = unmatched := by
  have : kfams.filter (fun f => !famConforms f) = [] :=
    List.filter_eq_nil_iff.2 fun f hf => by simp [kernels_conform f hf]
  simp [this, unmatched]
def unmatchedMethods : List String := []
theorem unmatchedMethods_exact : (dmeths.filter fun m => !methodConforms m).map (·.name) = unmatchedMethods := by
  have : dmeths.filter (fun m => !methodConforms m) = [] :=
    List.filter_eq_nil_iff.2 fun m hm => by simp [dispatch_conform m hm]
  simp [this, unmatchedMethods]


/-! ## semantics of the templates themselves (all slice lengths)

Proved in Templates.lean §7 about `TM.MiniGo.Sem.exec` applied to the template ASTs; the operator
is the uninterpreted `BinDef.sem I d` (token / callee names are not interpreted).  `st` binds the
parameters: `p0, p1, p2` slices or scalars, `"p2.NextValidity"`, `"p3.NextValidity"` iterators.

PARTIAL: semantic theorems exist for the plain binary skeletons vv / sv / vs / incr / iter-vv.
The guarded integer division, the comparison-`Same`, min/max, unary, map, reduce and arg
skeletons are tied to the sources by conformance only. -/
namespace Sem
open TM.MiniGo.Sem TM.Templates.SemT
variable {α : Type}

/-- vv: `a[i] = a[i] ∘ b[i]`, result `zipWith` (needs `len a ≤ len b`, as Go's re-slice does) -/
theorem sem_vv (I : Interp α) (d : BinDef) (fuel : Nat) (st : St α)
    (hlen : (st.sl "p0").length ≤ (st.sl "p1").length) :
    ∃ st', run I fuel (binKernel shVV (.store d "=") false) st = some (st', .norm) ∧
      st'.sl "p0" = List.zipWith (BinDef.sem I d) (st.sl "p0") (st.sl "p1") :=
  SemT.sem_vv I d fuel st hlen

/-- sv: scalar on the LEFT, `b[i] = s ∘ b[i]` -/
theorem sem_sv (I : Interp α) (d : BinDef) (fuel : Nat) (st : St α) :
    ∃ st', run I fuel (binKernel shSV (.store d "=") false) st = some (st', .norm) ∧
      st'.sl "p1" = (st.sl "p1").map (fun y => BinDef.sem I d (st.sc "p0") y) :=
  SemT.sem_sv I d fuel st

/-- vs: scalar on the RIGHT, `a[i] = a[i] ∘ s` -/
theorem sem_vs (I : Interp α) (d : BinDef) (fuel : Nat) (st : St α) :
    ∃ st', run I fuel (binKernel shVS (.store d "=") false) st = some (st', .norm) ∧
      st'.sl "p0" = (st.sl "p0").map (fun x => BinDef.sem I d x (st.sc "p1")) :=
  SemT.sem_vs I d fuel st

/-- incr: `incr[i] = incr[i] + (a[i] ∘ b[i])` for all `i < len a` -/
theorem sem_incr (I : Interp α) (d : BinDef) (fuel : Nat) (st : St α)
    (hb : (st.sl "p0").length ≤ (st.sl "p1").length) (hc : (st.sl "p0").length ≤ (st.sl "p2").length) :
    ∃ st', run I fuel (binKernel (shVV3 sT) (.store d "+=") false) st = some (st', .norm) ∧
      (st'.sl "p2").length = (st.sl "p0").length ∧
      ∀ k (hk : k < (st.sl "p0").length),
        (st'.sl "p2")[k]? = some (I.op "+" ((st.sl "p2")[k]'(Nat.lt_of_lt_of_le hk hc))
            (BinDef.sem I d ((st.sl "p0")[k]) ((st.sl "p1")[k]'(Nat.lt_of_lt_of_le hk hb)))) :=
  SemT.sem_incr I d fuel st hb hc

/-- iter-vv, general form (validity flags honoured): the result is `iterSpec` -/
theorem sem_iter_vv_fold (I : Interp α) (d : BinDef) (fuel : Nat) (st : St α) (r : List α)
    (hspec : iterSpec (BinDef.sem I d) (st.sl "p1") (st.it "p2.NextValidity") (st.it "p3.NextValidity") (st.sl "p0") = some r)
    (hfuel : (st.it "p2.NextValidity").length < fuel) :
    ∃ st', run I fuel (binKernel shIter (.store d "=") false) st = some (st', .ret) ∧ st'.sl "p0" = r :=
  SemT.sem_iter_vv_fold I d fuel st r hspec hfuel

/-- iter-vv on offset lists `ia`, `ib` without duplicates in `ia`: cell `ia[k]` of `a` becomes
`a[ia[k]] ∘ b[ib[k]]` for `k < min |ia| |ib|`, the other cells are unchanged -/
theorem sem_iter_vv (I : Interp α) (d : BinDef) (fuel : Nat) (st : St α) (ia ib : List Nat)
    (h2 : st.it "p2.NextValidity" = ia.map (·, true)) (h3 : st.it "p3.NextValidity" = ib.map (·, true))
    (hnd : ia.Nodup) (hia : ∀ i ∈ ia, i < (st.sl "p0").length) (hib : ∀ j ∈ ib, j < (st.sl "p1").length)
    (hfuel : ia.length < fuel) :
    ∃ st', run I fuel (binKernel shIter (.store d "=") false) st = some (st', .ret) ∧
      (st'.sl "p0").length = (st.sl "p0").length ∧
      (∀ (k i j : Nat), ia[k]? = some i → ib[k]? = some j →
          ∃ x y, (st.sl "p0")[i]? = some x ∧ (st.sl "p1")[j]? = some y ∧
                 (st'.sl "p0")[i]? = some (BinDef.sem I d x y)) ∧
      (∀ (i : Nat), (∀ (k : Nat), k < ib.length → ia[k]? ≠ some i) → (st'.sl "p0")[i]? = (st.sl "p0")[i]?) :=
  SemT.sem_iter_vv I d fuel st ia ib h2 h3 hnd hia hib hfuel
end Sem

end TM.C17
