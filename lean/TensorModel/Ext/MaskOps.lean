import TensorModel.Ext.Mask
import TensorModel.Ext.Reduce
/-!
  Family **MaskOps** (property C15, the parts no step of family Mask exercises): the mask *setters*
  (`SetMaskAt`, `SetMaskAtIndex`, `ResetMask`, `MaskFromSlice`, `MaskFromDense`, the constructor
  option `WithMask`) and the arg-reductions / reductions of *masked* tensors.

  M mirrors `dense_matop.go:SetMaskAt/SetMaskAtIndex` (validate, then make the mask on demand), `dense.go:ResetMask/MaskFromSlice/MaskFromDense/
  makeMask/fix`, `consopt.go:WithMask`, `tensor.go:New`, the masked branches of
  `defaultengine_argmethods.go:arg{max,min}DenseTensor` (with `flatArgNeedsIterator`), `internal/execution/eng_argmethods.go:
  Arg{max,min}IterMasked / Arg{max,min}FlatMasked` and the kernels `Arg{max,min}Masked<T>` of
  `generic_argmethods.go`. Sum/Max/Min of masked tensors go through `Red.engReduce` unchanged (the
  engine has no masked branch: a masked operand "requires an iterator" and is refused by `prepReduce`;
  the all-axes shortcut folds the raw window).

  The arg kernel is a *pure, type-generic list function* (`argMaskedGo`), the specification is a fold over
  the valid elements (`specArgValid`); `Props/C15ops.lean` relates them for every length.

  S (what the property says):
  * a mask setter changes exactly the named bit(s); elements are untouched; bits of cells that are not
    elements of the tensor (the rest of a parent) are untouched. A bit is *named* by coordinates
    (`SetMaskAt`), or by a data index = position in the tensor's own data order (`SetMaskAtIndex`, the entries of
    `MaskFromSlice` / `WithMask`; S speaks about data indices only for tensors whose data order is determined by
    their logical order: standard row-major layout, possibly under a pending lazy transpose). Malformed names
    (wrong arity, out of range) are refused. Sizes that do not match: the property is silent.
  * `Argmax/Argmin` of a masked tensor: first index of the extreme among the VALID elements along the
    axis (flat: of the whole logical array, row-major position). **A lane without a valid element: the
    property is silent — S prints `?` for that lane and defines no result object.** NaN among the valid
    elements: silent (as in C08).
  * `Sum/Max/Min` of a masked tensor: C08 allows refusing an unsupported operand; when a result is
    delivered, every result position whose lane has no masked element holds the C08 fold; S is silent on the others.

  Steps (Go side `tools/harness/ext_maskops.go`):
    `marg <argmax|argmin> <fn|meth> $a <axis|all> [vs=n]`     pushes the result
    `mred <sum|max|min> <fn|meth> $a <axes|-> [vs=n]`         pushes the result
    `msetat $a <0|1> <coords|->`                              SetMaskAt(v, coords...)
    `mseti $a <0|1> <i>`                                      SetMaskAtIndex(v, i)
    `mreset $a <0|1|->`                                       ResetMask(v) / ResetMask()
    `mfromslice $a <ty> <digits|->`                           MaskFromSlice([]ty{…}); ty = element type name,
                                                              `uptr` ([]uintptr: no arm), `scalar` (an int), `nil`
    `mfromdense $a [$b|nil …]`                                a.MaskFromDense(b, …)
    `mcons <dt> <shape|-> <opts> <ty> <digits|->`             New(opts…): S = WithShape, B = WithBacking, M = WithMask
                                                              (Of(dt) first when B is absent); pushes the tensor
-/
namespace TM
namespace MaskOps
open Mask (maskBits memsetMask makeMask maskAt bitLit rootMask setRootMask sLMask RootMask insertAt)

/-! ## the masked arg kernel (pure, type-generic) -/

section kernel
variable {α : Type}

/-- `if !set { f = v; max = i; set = true; continue }; if v > f { max = i; f = v }` -/
def stepBest (better : α → α → Bool) (cur : Option (Nat × α)) (y : Nat × α) : Option (Nat × α) :=
  match cur with
  | none => some y
  | some b => if better y.2 b.2 then some y else some b

/-- `Arg{max,min}Masked<T>(a, mask)`: the loop from position `i` with loop state `cur`
    (`none` = `set == false`) over the remaining `(a[i], mask[i])` pairs. `stop` is the float early
    return (`NaN` or the infinity of the searched direction); without a valid element the result is 0. -/
def argMaskedGo (better : α → α → Bool) (stop : α → Bool) : Nat → Option (Nat × α) → List (α × Bool) → Nat
  | _, cur, [] => match cur with | some b => b.1 | none => 0
  | i, cur, (v, m) :: rest =>
    if m then argMaskedGo better stop (i + 1) cur rest
    else if stop v then i
    else argMaskedGo better stop (i + 1) (stepBest better cur (i, v)) rest

/-- S: the valid elements of a lane with their positions -/
def validIdx : Nat → List (α × Bool) → List (Nat × α)
  | _, [] => []
  | i, (v, m) :: rest => if m then validIdx (i + 1) rest else (i, v) :: validIdx (i + 1) rest

/-- S: fold over the valid elements keeping the first strictly best one; `none` = no valid element
    (the property is silent) -/
def specArgValid (better : α → α → Bool) (row : List (α × Bool)) : Option Nat :=
  ((validIdx 0 row).foldl (stepBest better) none).map (·.1)

end kernel

def betterK (isMax : Bool) (a b : Red.Key) : Bool := if isMax then a.gt b else a.lt b
def stopK (isMax isFloat : Bool) (v : Red.Key) : Bool :=
  isFloat && (v.isNaN || v == .num (if isMax then Red.infKey else -Red.infKey))

/-- the kernel on the model's value keys; `mask` is at least as long as `ks` (checked by the callers) -/
def argMaskedK (isMax isFloat : Bool) (ks : List Red.Key) (mask : List Bool) : Nat :=
  argMaskedGo (betterK isMax) (stopK isMax isFloat) 0 none (ks.zip mask)

/-- consecutive runs of `n` entries (`Red.argChunks` for any element type) -/
def laneChunks {β} (n : Nat) (l : List β) : List (List β) := Red.chunks n (l.length / n) l

/-- `E.Arg{max,min}IterMasked(typ, data, mask, it, lastSize)`: every run of `lastSize` elements in iterator
    order is handed to the kernel together with the mask bits collected along the same run
    (`newMask = append(newMask, mask[next])`, `Arg{max,min}Masked<T>(tmp, newMask)`): `cells` and `laneMask` are the
    data and the mask bits in iterator order, lane `k` is judged by its own bits. -/
def argIterMasked (isMax isFloat : Bool) (lastSize : Nat) (cells : List Red.Key) (laneMask : List Bool) : List Nat :=
  List.zipWith (argMaskedK isMax isFloat) (Red.argChunks lastSize cells) (laneChunks lastSize laneMask)

/-- `flatArgNeedsIterator(t)`: the raw window of a masked tensor, left to right, is not known to be the row-major
    listing of its elements — `RequiresIterator` without the clause for masks, or column-major -/
def flatMaskedViaIter (t : Dense) : Bool :=
  t.ap.o.col || (t.win.len != 1 && (t.ap.o.nonContig || t.old.isSome))

/-- `StdEng.arg{max,min}DenseTensor(t, axis)`, masked branches; everything else is `Red.engArg`. -/
def engArgMasked (st : St) (isMax : Bool) (vs : Nat) (t : Dense) (axis : Int) : Res Red.ArgRes := do
  match t.mask with
  | none => Red.engArg st isMax vs t axis
  | some m =>
    if !t.isMasked then Red.engArg st isMax vs t axis else
    if !ordTypes.contains t.dt then throwErr "typeclass"
    if axis ≥ t.dims then throwErr "dimMismatch"
    let fl := Red.isFloatDt t.dt
    if axis == -1 then
      if flatMaskedViaIter t then
        -- `E.Arg{max,min}IterMasked(typ, dataA, mt.Mask(), IteratorFromDense(t), TotalSize)`: one run of all the
        -- elements and their mask bits, in iterator order
        let offs := t.offsets
        let cells ← offs.mapM (fun i => st.get t.win i)
        let laneBits ← offs.mapM (fun i => st.mget m i)
        match cells.mapM (Red.knownKey vs t.dt) with
        | none => return .unknown
        | some ks =>
          let i := (argIterMasked isMax fl (totalSize t.shape).toNat ks laneBits).headD 0
          let (st, r) := Dense.fresh st "i" [] false #[Val.lit s!"k{i}:i"]
          return .ok st r
      else
      -- `e.E.Arg{max,min}FlatMasked(typ, dataA, mt.Mask())`: raw window and raw mask, left to right
      let cells ← t.rawCells st
      let bits ← maskBits st m
      match cells.mapM (Red.knownKey vs t.dt) with
      | none => return .unknown
      | some ks =>
        let i := argMaskedK isMax fl ks bits
        let (st, r) := Dense.fresh st "i" [] false #[Val.lit s!"k{i}:i"]
        return .ok st r
    else
      let axes ← (match Red.argAxes t.dims axis with
        | some a => pure a
        | none => throwPanic "axes index out of range" : Res (List Int))
      let newAP ← (match ← t.ap.T axes with
        | .noop _ _ => pure t.ap
        | .ok ap _ => pure ap : Res AP)
      let offs := Red.loadedOffsets t newAP
      let lastSize ← (match newAP.shape.getLast? with
        | some d => pure d
        | none => throwPanic "it.Shape()[len-1]" : Res Int)
      let newShape := newAP.shape.dropLast
      let cells ← offs.mapM (fun i => st.get t.win i)
      -- `newMask = append(newMask, mask[next])`
      let laneBits ← offs.mapM (fun i => st.mget m i)
      if lastSize ≤ 0 then throwPanic "unmodelled: empty axis" else
      match cells.mapM (Red.knownKey vs t.dt) with
      | none => return .unknown
      | some ks =>
        let idxs := argIterMasked isMax fl lastSize.toNat ks laneBits
        let vals := idxs.map (fun i => Val.lit s!"k{i}:i")
        let (st, r) ← Dense.newRow st "i" newShape vals.toArray
        return .ok st r

/-! ## the setters -/

/-- the store both setters end with: `if !t.IsMasked() { if !v { return nil }; t.makeMask() }; t.mask[i] = v` — a tensor
    without mask is given one when a bit is to be set; clearing a bit of a tensor without mask changes nothing -/
def storeMaskBit (s : St) (t : Dense) (v : Bool) (i : Int) : Res (St × Dense) := do
  if !t.isMasked && !v then return (s, t)
  let (s, t) ← (if !t.isMasked then makeMask s t else pure (s, t) : Res (St × Dense))
  match t.mask with
  | some m => do pure (← s.mset m i v, t)  -- `t.mask[i] = v`
  | none => pure (s, t)

/-- `SetMaskAtIndex(v, i)`: the index is checked against the data window first (an error, masked or not) -/
def setMaskAtIndex (s : St) (t : Dense) (v : Bool) (i : Int) : Res (St × Dense) :=
  if i < 0 || i ≥ (t.win.len : Int) then throwErr "SetMaskAtIndex: index out of range" else
  storeMaskBit s t v i

/-- `SetMaskAt(v, coords...)`: arity and range are checked like those of `At`, masked or not -/
def setMaskAt (s : St) (t : Dense) (v : Bool) (c : List Int) : Res (St × Dense) := do
  if c.length != t.dims then throwErr "dimMismatch"
  let i ← ltoi t.shape t.strides c
  storeMaskBit s t v i

/-- `ResetMask(val...)`: `if !t.IsMasked() { t.makeMask() }`, then the fill: the bits of the tensor's own elements for a
    view or a pending transpose (walk of `newFlatIterator(&t.AP)`), `memsetBools(t.mask, fillValue)` otherwise
    (`Dense.resetMaskBits`, shared with `Zero()`) -/
def resetMask (s : St) (t : Dense) (val : Option Bool) : Res (St × Dense) := do
  let (s, t) ← (if !t.isMasked then makeMask s t else pure (s, t) : Res (St × Dense))
  match t.mask with
  | some m => do pure (← t.resetMaskBits s m (val.getD false), t)
  | none => pure (s, t)

/-- the argument of `MaskFromSlice` / `WithMask` as the type switch sees it -/
inductive MaskSrc where
  | bools (l : List Bool)        -- `[]bool`
  | nums (nz : List Bool)        -- a numeric or string slice: `v != 0` / `v != ""` per entry
  | other                        -- no arm (`[]uintptr`, a non-slice, `nil` passed to the method)
deriving Repr, Inhabited

/-- the per-type loop: `for i, v := range m { if v != 0 { t.mask[i] = true }; if i >= n { return } }` —
    the bound is tested *after* the store -/
def numLoop (s : St) (m : Win) (n : Nat) : Nat → List Bool → Res St
  | _, [] => pure s
  | i, nz :: rest => do
    let s ← (if nz then s.mset m (i : Int) true else pure s : Res St)
    if i ≥ n then pure s else numLoop s m n (i + 1) rest

/-- `copy(t.mask, m)` -/
def copyBools (s : St) (m : Win) (l : List Bool) : Res St :=
  ((l.take m.len).zip (rangeI m.len)).foldlM (fun s (v, j) => s.mset m j v) s

/-- `MaskFromSlice(x)`: `t.makeMask()` unconditionally (sized by the *shape*, cleared), then the arm of `x` -/
def maskFromSlice (s : St) (t : Dense) (x : MaskSrc) : Res (St × Dense) := do
  let (s, t) ← makeMask s t
  let m : Win := t.mask.getD ⟨0, 0, 0, 0⟩
  match x with
  | .bools l => do pure (← copyBools s m l, t)
  | .nums nz => do pure (← numLoop s m m.len 0 nz, t)
  | .other => pure (s, t)

/-- one operand of `MaskFromDense`: `for j := range t.mask { t.mask[j] = t.mask[j] || tt.mask[j%n] }`
    (sequential on the state: `tt` may be `t` itself or share its mask buffer) -/
def orInto (s : St) (tm ttm : Win) : Res St :=
  (rangeI tm.len).foldlM (fun s j => do
    if ttm.len == 0 then throwPanic "integer divide by zero"
    let a ← s.mget tm j
    let b ← s.mget ttm (j % (ttm.len : Int))
    s.mset tm j (a || b)) s

/-- `t.MaskFromDense(tts...)`; `tts` are object ids (`none` = a nil pointer), `self` is the id of `t` -/
def maskFromDense (s : St) (objs : Array Dense) (self : Nat) (t : Dense) (tts : List (Option Nat)) : Res (St × Dense) := do
  let get (t : Dense) (i : Nat) : Option Dense := if i == self then some t else objs[i]?
  let has := tts.map (fun o => match o.bind (get t) with | some d => d.isMasked | none => false)
  if !has.any id then return (s, t)
  let mlen := match t.mask with | some m => m.len | none => 0
  -- `if len(t.mask) < t.len() { t.makeMask() }`
  let (s, t) ← (if mlen < t.win.len then makeMask s t else pure (s, t) : Res (St × Dense))
  match t.mask with
  | none => pure (s, t)
  | some tm =>
    let s ← (tts.zip has).foldlM (fun s (o, h) =>
      if !h then pure s else
      match (o.bind (get t)).bind (·.mask) with
      | some ttm => orInto s tm ttm
      | none => pure s) s
    pure (s, t)

/-! ## `New(opts...)` with `WithMask` -/

/-- the half-built tensor while the construction options run: `nil` shape, no data, no mask at first -/
structure ConsSt where
  shape : Option Shape := none
  hasData : Bool := false
  mask : Option Win := none
deriving Inhabited

/-- one construction option: `S` = `WithShape(dims…)`, `B` = `WithBacking(backing)`, `M` = `WithMask(x)` -/
def consOpt (dt : String) (dims : Shape) (n : Nat) (x : Option MaskSrc) (s : St) (c : ConsSt) (o : Char) : Res (St × ConsSt) :=
  if o == 'S' then pure (s, { c with shape := some dims })
  else if o == 'B' then pure (s, { c with hasData := true })
  else if o == 'M' then
    match x with
    | none => pure (s, c)                                  -- `if x == nil { return }`
    | some x => do
      -- `tt.MaskFromSlice(x)` on the half-built tensor: `makeMask` sizes by the backing once `WithBacking` has run
      -- (`n` cells), by `t.shape.TotalSize()` before (nil shape: 1)
      let tmp : Dense := { ap := { shape := c.shape.getD [], strides := [], fin := false },
                           win := ⟨0, 0, if c.hasData then n else 0, 0⟩, dt := dt, mask := c.mask }
      let (s, tmp) ← maskFromSlice s tmp x
      pure (s, { c with mask := tmp.mask })
  else throwPanic "unknown option"

/-- `fix()`: the shape and the data length are settled, then `if len(t.mask) != t.len() { t.mask = t.mask[:0] }` -/
def consFix (c : ConsSt) (n : Nat) : Shape × Nat × Option Win :=
  let (shape, len) : Shape × Nat :=
    match c.shape, c.hasData with
    | none, false => ([], 1)                              -- IsScalar && Raw == nil: makeArray(1)
    | some sh, false => (sh, if sh.isEmpty then 1 else (totalSize sh).toNat)
    | none, true => (if n == 1 then [] else [(n : Int)], n) -- Shape() == nil && Raw != nil
    | some sh, true => (sh, n)
  (shape, len, c.mask.map (fun m => if m.len != len then { m with len := 0 } else m))

/-- `New(opts…)`: the options run in the order given on a borrowed `*Dense`, then `fix()` and `sanity()`.
    `n` = number of cells of the backing; `Of(dt)` is given first when there is no backing. -/
def consNew (s : St) (dt : String) (dims : Shape) (n : Nat) (cells : Array Val) (opts : List Char) (x : Option MaskSrc) :
    Res (St × Dense) := do
  let (s, c) ← opts.foldlM (fun (acc : St × ConsSt) o => consOpt dt dims n x acc.1 acc.2 o) (s, {})
  let (shape, len, mask) := consFix c n
  let data : Array Val := if c.hasData then cells else Array.replicate len Val.zero
  -- sanity()
  if !shape.isEmpty && (len : Int) != totalSize shape then throwPanic "sanity check failed" else
  let (s, b) := s.alloc data
  pure (s, { ap := { shape := shape, strides := calcStrides shape, fin := true }, win := ⟨b, 0, len, len⟩, dt := dt, mask := mask })

/-! ## parsing -/

def parseBit (tok : String) : Option Bool := if tok == "1" then some true else if tok == "0" then some false else none

def parseDigits (s : String) : Option (List Nat) :=
  if s == "-" then some [] else s.toList.mapM (fun c => if c.isDigit then some (c.toNat - '0'.toNat) else none)

def sliceTypes : List String := ["b", "i", "i8", "i16", "i32", "i64", "u", "u8", "u16", "u32", "u64", "f32", "f64", "c64", "c128", "str"]

/-- `none` = malformed; `some none` = the untyped `nil` -/
def parseSrc (ty vals : String) : Option (Option MaskSrc) :=
  match parseDigits vals with
  | none => none
  | some ds =>
    if ty == "nil" then some none
    else if ty == "b" then some (some (.bools (ds.map (· != 0))))
    else if ty == "uptr" || ty == "scalar" then some (some .other)
    else if sliceTypes.contains ty then some (some (.nums (ds.map (· != 0))))
    else none

/-- logical mask after a step, as the `lmask=` field -/
def lmaskField (s : St) (t : Dense) : String := s!" lmask={Mask.lmaskStr s t}"

/-! ## observation helpers shared by M and the harness: which result positions the property speaks about -/

def validAt (st : St) (t : Dense) (c : List Int) : Bool :=
  match maskAt st t c with | .ok b => !b | .error _ => false

/-- per result position of an arg-reduction: does its lane hold a valid element? -/
def argLanesValid (st : St) (t : Dense) (axis : Int) : List Bool :=
  if axis == -1 then [(allCoords t.shape).any (validAt st t)]
  else
    let ax := axis.toNat
    let d := (t.shape[ax]?.getD 0).toNat
    (allCoords (t.shape.eraseIdx ax)).map (fun c => (rangeI d).any (fun i => validAt st t (insertAt c ax i)))

/-- erase the (distinct, valid) axes from a coordinate / shape -/
def eraseAxes {β} (l : List β) (axes : List Nat) : List β :=
  ((l.zip (List.range l.length)).filter (fun (_, i) => !axes.contains i)).map (·.1)

/-- per result position of a reduction along `axes`: does its lane hold a masked element? -/
def redLanesMasked (sh : Shape) (axes : List Nat) (lm : List Bool) : List Bool :=
  let ins := (allCoords sh).zip lm
  (allCoords (eraseAxes sh axes)).map (fun c => ins.any (fun (ci, m) => m && eraseAxes ci axes == c))

def showOptVals (l : List (Option Val)) : String :=
  if l.isEmpty then "-" else String.intercalate "," (l.map (fun v => match v with | some v => v.toStr | none => "?"))

/-- the axes a `mred` step reduces, as S understands them (`-` = all) -/
def redAxes (along : List Int) (rank : Nat) : Option (List Nat) :=
  if along.isEmpty then some (List.range rank) else (Red.validAxes along rank).map List.reverse

/-! ## M steps -/

def mutLine (ps : PState) (id : Nat) (r : Res (St × Dense)) : PState × StepOut :=
  match r with
  | .ok (st, d) => ({ ps with st := st }.setObj id d, .fields s!"r=ok{lmaskField st d}")
  | .error (.err _) =>
    (ps, .fields s!"r=err{match ps.ds[id]? with | some d => lmaskField ps.st d | none => ""}")
  | .error (.panic _) => (ps, .stop "r=panic")

def stepM (ps : PState) (_ : Nat) (toks : List String) : PState × StepOut :=
  match toks with
  | "marg" :: opn :: via :: a :: axis :: rest =>
    if !Red.restOk rest then (ps.failVar, .fields "r=badprog") else
    match ps.obj a, Red.parseAxis axis with
    | some (_, t), some ax =>
      if (opn != "argmax" && opn != "argmin") || (via != "fn" && via != "meth") then (ps.failVar, .fields "r=badprog") else
      match engArgMasked ps.st (opn == "argmax") ((Red.vsOf rest).getD 0) t ax with
      | .ok (.ok st d) =>
        let res := match d.rawCells st with | .ok l => l | .error _ => []
        let lanes := argLanesValid ps.st t ax
        let vres := List.zipWith (fun (v : Val) (ok : Bool) => if ok then some v else none) res lanes
        ({ ps with st := st }.newVar d,
          .fields s!"r=ok ident=new shape={showInts d.shape} res={showVals res} vres={showOptVals vres}")
      | .ok .unknown => (ps.failVar, .fields "r=unknown-values")
      | .error (.err _) => (ps.failVar, .fields "r=err")
      | .error (.panic _) => (ps.failVar, .stop "r=panic")
    | _, _ => (ps.failVar, .fields "r=skip")
  | "mred" :: opn :: via :: a :: axes :: rest =>
    if !Red.restOk rest then (ps.failVar, .fields "r=badprog") else
    match ps.obj a, parseIntList axes with
    | some (_, t), some along =>
      match Red.opOf opn with
      | some op =>
        if via != "fn" && via != "meth" then (ps.failVar, .fields "r=badprog") else
        let out := Red.engReduce ps.st op t along
        match out.res with
        | .ok d =>
          let st := out.st
          let cs := allCoords d.shape
          let res : List Val := cs.filterMap (fun c => match d.at_ st c with | .ok v => some v | .error _ => none)
          let lm := (allCoords t.shape).map (fun c => !validAt ps.st t c)
          let flags := match redAxes along t.dims with
            | some axs => redLanesMasked t.shape axs lm
            | none => res.map (fun _ => false)
          let vres := List.zipWith (fun (v : Val) (m : Bool) => if m then none else some v) res flags
          ({ ps with st := st }.newVar d,
            .fields s!"r=ok ident=new shape={showInts d.shape} along={showInts out.along} vres={showOptVals vres}")
        | .error (.err _) => ({ ps with st := out.st }.failVar, .fields s!"r=err along={showInts out.along}")
        | .error (.panic _) => ({ ps with st := out.st }.failVar, .stop s!"r=panic along={showInts out.along}")
      | none => (ps.failVar, .fields "r=badprog")
    | _, _ => (ps.failVar, .fields "r=skip")
  | ["msetat", a, v, coords] =>
    match ps.obj a, parseBit v, parseIntList coords with
    | some (id, t), some v, some c => mutLine ps id (setMaskAt ps.st t v c)
    | none, _, _ => (ps, .fields "r=skip")
    | _, _, _ => (ps, .fields "r=badprog")
  | ["mseti", a, v, i] =>
    match ps.obj a, parseBit v, i.toInt? with
    | some (id, t), some v, some i => mutLine ps id (setMaskAtIndex ps.st t v i)
    | none, _, _ => (ps, .fields "r=skip")
    | _, _, _ => (ps, .fields "r=badprog")
  | ["mreset", a, v] =>
    match ps.obj a, (if v == "-" then some none else (parseBit v).map some) with
    | some (id, t), some v => mutLine ps id (resetMask ps.st t v)
    | none, _ => (ps, .fields "r=skip")
    | _, _ => (ps, .fields "r=badprog")
  | ["mfromslice", a, ty, vals] =>
    match ps.obj a, parseSrc ty vals with
    | some (id, t), some x => mutLine ps id (maskFromSlice ps.st t (x.getD .other))
    | none, _ => (ps, .fields "r=skip")
    | _, _ => (ps, .fields "r=badprog")
  | "mfromdense" :: a :: argToks =>
    match ps.obj a with
    | some (id, t) =>
      let args : List (Option (Option Nat)) := argToks.map (fun tok =>
        if tok == "nil" then some none else (ps.obj tok).map (fun x => some x.1))
      if args.any Option.isNone then (ps, .fields "r=skip") else
      mutLine ps id (maskFromDense ps.st ps.ds id t (args.map Option.join))
    | none => (ps, .fields "r=skip")
  | ["mcons", dt, shape, opts, ty, vals] =>
    match parseIntList shape, parseSrc ty vals with
    | some dims, some x =>
      let os := opts.toList
      if dims.any (· < 0) || !os.all (fun c => c == 'S' || c == 'B' || c == 'M') || os.eraseDups.length != os.length ||
         !sliceTypes.contains dt then
        (ps.failVar, .fields "r=badprog") else
      let n := (totalSize dims).toNat
      let bid := ps.nnew
      let ps := { ps with nnew := ps.nnew + 1 }
      let cells : Array Val := (Array.range n).map (fun i => Val.src bid i)
      match consNew ps.st dt dims n cells os x with
      | .error (.panic _) =>
        -- the program stops here on both sides. A placeholder object is bound to the variable only so that the
        -- driver has an object to attach the step's known-defect tags to (`Run.lean` reports tags per object);
        -- nothing can observe it.
        let ph : Dense := { ap := { shape := [], strides := [], fin := true }, win := ⟨0, 0, 0, 0⟩, dt := dt }
        (ps.newVar ph, .stop "r=panic")
      | r => finishNew ps r
    | _, _ => (ps.failVar, .fields "r=badprog")
  | "marg" :: _ => (ps.failVar, .fields "r=badprog")
  | "mred" :: _ => (ps.failVar, .fields "r=badprog")
  | "mcons" :: _ => (ps.failVar, .fields "r=badprog")
  | _ => (ps, .fields "r=badprog")

/-! ## S -/

/-- the tensor is in standard row-major layout (possibly under a pending lazy transpose): its data order is
    determined by its logical order. Used only to delimit where S speaks about *data indices*. -/
def stdLayout (d : Dense) : Bool :=
  let ap := d.old.getD d.ap
  !ap.o.col && ap.strides == calcStrides ap.shape && (d.win.len : Int) == totalSize ap.shape

def consecutive : List Nat → Bool
  | a :: b :: rest => b == a + 1 && consecutive (b :: rest)
  | _ => true

/-- the cells of an object in data order (`none`: S does not speak about data indices of this tensor) -/
def dataOrder (o : SObj) (d : Dense) : Option (List Nat) :=
  if !stdLayout d then none else
  let cells : Option (List Nat) := match o.pending with
    | .none => some o.idx.elems
    | .one b => some b.elems
    | .ambiguous => none
  cells.bind (fun cs => if consecutive cs then some cs else none)

/-- bits of a root as a full list; the flag tells that the root had no mask -/
def rootBits (ss : SState) (root : Nat) : Option (List Bool × Bool) :=
  match rootMask ss root with
  | .unknown => none
  | .unmasked n => some (List.replicate n false, true)
  | .masked _ bits => some (bits, false)

def othersShare (ss : SState) (id : Nat) (o : SObj) : Bool :=
  (List.range ss.objs.size).any (fun j => j != id && (match ss.objs[j]? with
    | some (some o') => o'.root == o.root | _ => false))

/-- install the new bits of a root. A tensor without mask that shares its storage with other tensors gets a mask
    of its own: the property does not say what the others see, the root's mask becomes unknown. -/
def commit (ss : SState) (id : Nat) (o : SObj) (wasUnmasked : Bool) (bits : List Bool) : SState :=
  if wasUnmasked && othersShare ss id o then setRootMask ss o.root .unknown
  else setRootMask ss o.root (.masked bits.length bits)

def lmaskOf (o : SObj) (bits : List Bool) : String :=
  Mask.showBitTerms (o.idx.elems.map (fun k => bits[k]?.getD false))

def setCells (bits : List Bool) (cells : List Nat) (vals : List Bool) : List Bool :=
  (cells.zip vals).foldl (fun b (k, v) => b.set k v) bits

def stepS (psBefore psAfter : PState) (ss : SState) (_ : Nat) (toks : List String) (mres : String) : SOut :=
  let ss := ss.sync psBefore.ds.size
  let newId := psBefore.ds.size
  let fin := finS psAfter
  /- a setter on object `id`: `f bits` = the new bits of the root, or `none` = must be refused -/
  let setter (a : String) (f : Nat → SObj → Dense → List Bool → Option (Option (List Bool))) : SOut :=
    match sObj psBefore ss a, psBefore.obj a with
    | some (id, o), some (_, d) =>
      match rootBits ss o.root with
      | none => fin ss none
      | some (bits, wasUn) =>
        match f id o d bits with
        | none => fin (setRootMask ss o.root .unknown) none            -- the property is silent
        | some none => fin ss (some s!"r=err|panic")                    -- malformed: refused, nothing changes
        | some (some bits') =>
          let line := s!"r=ok lmask={lmaskOf o bits'}"
          if mres != "ok" then fin ss (some line) else fin (commit ss id o wasUn bits') (some line)
    | _, _ => fin ss none
  match toks with
  | "marg" :: opn :: _ :: a :: axis :: rest =>
    match Red.parseAxis axis, sObj psBefore ss a, psBefore.obj a with
    | some ax, some (_, o), some (_, d) =>
      if !Red.restOk rest || (opn != "argmax" && opn != "argmin") then fin ss none else
      if !ordTypes.contains d.dt then fin ss none else
      let isMax := opn == "argmax"
      let vs := (Red.vsOf rest).getD 0
      let rank := o.idx.shape.length
      if !(ax == -1 || (0 ≤ ax && ax < rank)) then fin ss none else
      if o.idx.shape.any (· ≤ 0) then fin ss none else
      match sLMask ss o, (o.elems ss).bind (fun es => es.mapM (Red.knownKey vs d.dt)) with
      | some lm, some ks =>
        let row := ks.zip lm
        if row.any (fun (k, m) => !m && k.isNaN) then fin ss none else
        let (shape', res) : Shape × List (Option Nat) :=
          if ax == -1 then ([], [specArgValid (betterK isMax) row])
          else
            let sh := Red.natShape o.idx.shape
            let F : List (Red.Key × Bool) → Red.Key × Bool := fun lane =>
              match specArgValid (betterK isMax) lane with
              | some i => (.num i, false)
              | none => (.num 0, true)
            let r := Red.specAxis F sh ax.toNat row
            ((sh.eraseIdx ax.toNat).map Int.ofNat, r.map (fun (k, silent) =>
              if silent then none else match k with | .num q => some q.toNat | _ => none))
        let vres := res.map (fun r => r.map (fun i => Val.lit s!"k{i}:i"))
        let line := s!"r=ok shape={showInts shape'} vres={showOptVals vres}"
        if mres != "ok" then fin ss (some (if Red.mayRefuse o false then "r=err|panic" else line)) else
        if res.all Option.isSome then
          Red.pushObj psAfter ss newId shape' (vres.filterMap id) line
        else fin ss (some line)
      | _, _ => fin ss none
    | _, _, _ => fin ss none
  | "mred" :: opn :: _ :: a :: axes :: rest =>
    match parseIntList axes, Red.opOf opn, sObj psBefore ss a, psBefore.obj a with
    | some along, some op, some (_, o), some (_, d) =>
      if !Red.restOk rest || !op.types.contains d.dt then fin ss none else
      let fname := if opn == "sum" then "add" else if opn == "max" then "maxb" else "minb"
      let rank := o.idx.shape.length
      match redAxes along rank, sLMask ss o, o.elems ss with
      | some axs, some lm, some es =>
        if o.idx.shape.any (· ≤ 0) then fin ss none else
        let desc := (Red.sortInts (axs.map Int.ofNat)).reverse.map Int.toNat
        let (sh', vals) := Red.specAxes (Red.canonF fname) (Red.natShape o.idx.shape) desc es
        let shape' : Shape := sh'.map Int.ofNat
        let flags := redLanesMasked o.idx.shape axs lm
        let isMaskedRoot := match rootMask ss o.root with | .masked _ _ => true | _ => false
        if mres != "ok" then
          fin ss (some (if isMaskedRoot || Red.mayRefuse o false then "r=err|panic" else s!"r=ok shape={showInts shape'}"))
        else if Red.exactDomain d.dt (Red.vsOf rest) es then
          let vres := List.zipWith (fun (v : Val) (m : Bool) => if m then none else some v) vals flags
          let line := s!"r=ok shape={showInts shape'} vres={showOptVals vres}"
          if flags.any id then fin ss (some line) else Red.pushObj psAfter ss newId shape' vals line
        else fin ss (some s!"r=ok shape={showInts shape'}")
      | _, _, _ => fin ss none
    | _, _, _, _ => fin ss none
  | ["msetat", a, v, coords] =>
    match parseBit v, parseIntList coords with
    | some v, some c =>
      setter a (fun _ o _ bits =>
        match o.idx.at c with
        | none => some none                                  -- wrong arity / out of range
        | some k => some (some (bits.set k v)))
    | _, _ => fin ss none
  | ["mseti", a, v, i] =>
    match parseBit v, i.toInt? with
    | some v, some i =>
      setter a (fun _ o d bits =>
        match dataOrder o d with
        | none => none
        | some cells =>
          match getI? cells i with
          | none => some none                                -- outside the tensor's data
          | some k => some (some (bits.set k v)))
    | _, _ => fin ss none
  | ["mreset", a, v] =>
    match (if v == "-" then some false else parseBit v) with
    | some v => setter a (fun _ o _ bits => some (some (setCells bits o.idx.elems (o.idx.elems.map (fun _ => v)))))
    | none => fin ss none
  | ["mfromslice", a, ty, vals] =>
    match parseSrc ty vals with
    | some (some (.bools l)) | some (some (.nums l)) =>
      setter a (fun _ o d bits =>
        match dataOrder o d with
        | none => none
        | some cells => if cells.length != l.length then none else some (some (setCells bits cells l)))
    | _ => setter a (fun _ _ _ _ => none)
  | "mfromdense" :: a :: argToks =>
    let args := argToks.filter (· != "nil")
    let argObjs := args.map (fun tok => (sObj psBefore ss tok).map (·.2))
    setter a (fun _ o _ bits =>
      let own := o.idx.elems.map (fun k => bits[k]?.getD false)
      let acc : Option (List Bool) := argObjs.foldl (fun acc ao => do
        let cur ← acc
        let ao ← ao
        if ao.idx.shape != o.idx.shape then none else
        let lm ← sLMask ss ao
        pure (List.zipWith (· || ·) cur lm)) (some own)
      acc.map (fun lm => some (setCells bits o.idx.elems lm)))
  | ["mcons", _, shape, opts, ty, vals] =>
    match parseIntList shape, parseSrc ty vals with
    | some dims, some x =>
      let os := opts.toList
      if dims.any (· < 0) || !os.all (fun c => c == 'S' || c == 'B' || c == 'M') || os.eraseDups.length != os.length then fin ss none else
      if psAfter.vars.size == psBefore.vars.size then fin ss none else
      -- without WithShape and WithBacking nothing tells a size: a scalar is built
      let n := if os.contains 'S' || os.contains 'B' then (totalSize dims).toNat else 1
      if n == 0 then fin ss none else
      let bid := psBefore.nnew
      let cells : Array Val := if os.contains 'B' then (Array.range n).map (fun i => Val.src bid i) else Array.replicate n Val.zero
      let sh : Shape := if os.contains 'S' then dims else if n == 1 then [] else [(n : Int)]
      let src : Option MaskSrc := if os.contains 'M' then x else none
      let trailer : Option (Array Val) := match src with
        | none => some (Array.replicate n (Val.lit "0") ++ #[Val.lit "UT"])
        | some (.bools l) | some (.nums l) =>
          if l.length == n then some ((l.map (fun b => Val.lit (if b then "1" else "0"))).toArray ++ #[Val.lit "MT"]) else none
        | some .other => none
      match trailer with
      | some tr =>
        let root := ss.store.size
        let ss' := { ss with store := ss.store.push (cells ++ tr) }
        let ss' := { ss' with objs := (ss'.sync newId).objs.push (some { root := root, idx := ⟨sh, List.range n⟩ }) }
        if mres != "ok" then fin ss (some "r=ok") else fin ss' (some "r=ok")
      | none => fin ss none
    | _, _ => fin ss none
  | _ => fin ss none

/-! ## known-defect regions (see findings.d/maskops.json) -/

/-- F115: `WithMask` runs `MaskFromSlice` on the half-built tensor: when neither `WithShape` nor `WithBacking` precedes
    it the mask is sized for a scalar, filled (a non-bool mask panics on a non-zero second entry) and dropped by `fix()`.
    (After `WithBacking` the mask is sized by the backing since `makeMask` looks at the data.) -/
def Excl_withMaskNoShape (opts : List Char) (n : Nat) : Bool :=
  opts.contains 'M' && !(opts.takeWhile (· != 'M')).contains 'S' && !(opts.takeWhile (· != 'M')).contains 'B' && n != 1

/-- F116: `MaskFromDense` combines the masks by *storage index* (`t.mask[j] || tt.mask[j%n]`). Region: the receiver
    or a masked operand is not stored in its logical order (lazily transposed, view with gaps). -/
def Excl_fromDenseStorage (t : Dense) (tts : List Dense) : Bool :=
  (t :: tts.filter (·.isMasked)).any (fun d => d.offsets != rangeI d.win.len)

def excl (ps : PState) (toks : List String) : List String × Bool :=
  let tag (b : Bool) (s : String) : List String := if b then [s] else []
  match toks with
  | "marg" :: _ :: _ :: a :: axis :: _ =>
    match ps.obj a, Red.parseAxis axis with
    | some (_, t), some ax =>
      if ax == -1 then ([], false)
      else
        (tag (Excl_shortStrides t) "F24", false)
    | _, _ => ([], false)
  | ["msetat", a, v, coords] =>
    match ps.obj a, parseBit v, parseIntList coords with
    | some (_, t), some _, some _ => (tag (Excl_shortStrides t) "F24", true)
    | _, _, _ => ([], false)
  | ["mseti", a, v, i] =>
    match ps.obj a, parseBit v, i.toInt? with
    | some _, some _, some _ => ([], true)
    | _, _, _ => ([], false)
  | ["mreset", a, _] =>
    match ps.obj a with
    | some _ => ([], true)
    | none => ([], false)
  | ["mfromslice", a, _, _] =>
    match ps.obj a with
    | some _ => ([], true)
    | none => ([], false)
  | "mfromdense" :: a :: argToks =>
    match ps.obj a with
    | some (_, t) =>
      let tts := argToks.filterMap (fun tok => (ps.obj tok).map (·.2))
      (tag (Excl_fromDenseStorage t tts) "F116", true)
    | none => ([], false)
  | ["mcons", _, shape, opts, _, _] =>
    match parseIntList shape with
    | some dims =>
      let os := opts.toList
      let n := if os.contains 'S' || os.contains 'B' then (totalSize dims).toNat else 1
      (tag (Excl_withMaskNoShape os n) "F115", false)
    | none => ([], false)
  | _ => ([], false)

end MaskOps

def maskOpsFamily : Family :=
  { name := "MaskOps",
    keys := ["marg", "mred", "msetat", "mseti", "mreset", "mfromslice", "mfromdense", "mcons"],
    stepM := MaskOps.stepM, stepS := MaskOps.stepS, excl := MaskOps.excl }

end TM
