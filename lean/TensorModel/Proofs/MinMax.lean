import TensorModel.Proofs.Kernels
import TensorModel.Ext.MinMax
/-!
  Helper lemmas about the model of `MinBetween` / `MaxBetween` (`Ext/MinMax.lean`): which code path the engine method
  takes on the raw path, and what it writes. The property theorems are in `Props/C06.lean` (values, layout of the
  result) and `Props/C07.lean` (option modes).
-/
set_option linter.unusedSimpArgs false
namespace TM

/-- `E.MinBetween(t, a, b)` on operands of equal length: the vector-vector kernel `a[i] = op a[i] b[i]` -/
theorem eMM_VV (st : St) (op : String) (a b : Win) (h : a.len = 1 ↔ b.len = 1) :
    eMM st op a b = kVV st a b (fun x y => .app2 op x y) := by
  by_cases ha : a.len = 1
  · simp [eMM, isSc, ha, h.mp ha]
  · have hb : b.len ≠ 1 := fun hb => ha (h.mpr hb)
    simp [eMM, isSc, ha, hb]

/-- the checks of `binaryCheck` for the ordered types -/
structure MMOK (a b : Dense) : Prop where
  ta : ordTypes.contains a.dt = true
  dt : a.dt = b.dt
  sh : shapeEq a.shape b.shape = true

theorem MMOK.tb {a b : Dense} (h : MMOK a b) : ordTypes.contains b.dt = true := h.dt ▸ h.ta
theorem MMOK.ne {a b : Dense} (h : MMOK a b) : (a.dt != b.dt) = false := by simp [h.dt]

/-- `UseUnsafe()`, raw path: the kernel runs in place in `a` (finding F11, repaired: no result tensor is allocated) -/
theorem engMMVV_raw_unsafe (st : St) (op : String) (a b : Dense) (hc : MMOK a b)
    (hia : a.requiresIterator = false) (hib : b.requiresIterator = false) (hord : sameOrd a b = true) :
    engMMVV st op a b { unsafe_ := true } = (do
      let s ← eMM st op a.win b.win
      pure ⟨s, none, .a⟩) := by
  unfold engMMVV
  simp only [hc.ta, hc.tb, hc.ne, hc.sh, hfo_none, prepAliasVV_none, prepAliasT_none, hia, hib, hord, bind, Except.bind, pure,
    Except.pure, Bool.not_true, Bool.false_eq_true, if_false, Bool.or_false, Bool.and_false, Bool.not_false,
    Bool.and_true, if_true, Bool.false_and, Bool.true_and, Bool.or_self, Bool.false_or, Bool.or_true]

/-- safe mode, raw path: a fresh tensor of the operand's shape *and data order* receives a copy of `a`, then the kernel
    runs in place in it (finding F36, repaired) -/
theorem engMMVV_raw_safe (st : St) (op : String) (a b : Dense) (hc : MMOK a b)
    (hia : a.requiresIterator = false) (hib : b.requiresIterator = false) (hord : sameOrd a b = true) :
    engMMVV st op a b {} = (do
      let s ← Dense.rawCopy (allocZero st (denseLen a.shape)) (freshOf st a.dt a.shape a.ap.o.col).win a.win
      let s ← eMM s op (freshOf st a.dt a.shape a.ap.o.col).win b.win
      pure ⟨s, none, .fresh (freshOf st a.dt a.shape a.ap.o.col)⟩) := by
  unfold engMMVV
  simp only [hc.ta, hc.tb, hc.ne, hc.sh, hfo_none, prepAliasVV_none, prepAliasT_none, hia, hib, hord, newDenseZero_eq, bind, Except.bind, pure,
    Except.pure, Bool.not_true, Bool.false_eq_true, if_false, Bool.or_false, Bool.and_false, Bool.not_false,
    Bool.and_true, if_true, Bool.false_and, Bool.true_and, Bool.or_self, Bool.false_or, Bool.or_true]

theorem engMMVV_unsafe' (st : St) (op : String) (a b : Dense) (hc : MMOK a b)
    (hia : a.requiresIterator = false) (hib : b.requiresIterator = false) (hord : sameOrd a b = true)
    (hne : a.win.buf ≠ b.win.buf) (hlen : a.win.len = b.win.len) (hcap : a.win.len ≤ b.win.cap)
    (hA : InBuf st a.win.buf a.win.off a.win.len) (hB : InBuf st b.win.buf b.win.off a.win.len) :
    ∃ st', engMMVV st op a b { unsafe_ := true } = .ok ⟨st', none, .a⟩ ∧
      Writes st st' a.win.buf a.win.off a.win.len (fun i =>
        .app2 op (cellD st a.win.buf (a.win.off + i)) (cellD st b.win.buf (b.win.off + i))) := by
  rw [engMMVV_raw_unsafe st op a b hc hia hib hord, eMM_VV _ _ _ _ (by rw [hlen])]
  obtain ⟨s2, h2, w2⟩ := kVV_spec st a.win b.win (fun x y => .app2 op x y) hne hcap hA.has hB.has
  exact ⟨s2, by simp only [h2, bind, Except.bind]; rfl, w2⟩

theorem engMMVV_safe' (st : St) (op : String) (a b : Dense) (hc : MMOK a b)
    (hia : a.requiresIterator = false) (hib : b.requiresIterator = false) (hord : sameOrd a b = true)
    (hlen : a.win.len = b.win.len) (hcap : a.win.len ≤ b.win.cap) (hsz : a.win.len = denseLen a.shape)
    (hA : InBuf st a.win.buf a.win.off a.win.len) (hB : InBuf st b.win.buf b.win.off a.win.len) :
    ∃ st', engMMVV st op a b {} = .ok ⟨st', none, .fresh (freshOf st a.dt a.shape a.ap.o.col)⟩ ∧
      st'.mheap = st.mheap ∧
      (∀ i, i < a.win.len → cell st' st.heap.size i =
        some (.app2 op (cellD st a.win.buf (a.win.off + i)) (cellD st b.win.buf (b.win.off + i)))) ∧
      (∀ b' k, b' < st.heap.size → cell st' b' k = cell st b' k) := by
  rw [engMMVV_raw_safe st op a b hc hia hib hord]
  have hmin : min (freshOf st a.dt a.shape a.ap.o.col).win.len a.win.len = a.win.len := by
    simp only [freshOf, ← hsz, Nat.min_self]
  obtain ⟨s1, h1, w1⟩ := rawCopy_total (allocZero st (denseLen a.shape)) (freshOf st a.dt a.shape a.ap.o.col).win a.win
    (by rw [hmin]; exact hA.has.allocZero hA.lt _)
    (by rw [hmin]; simp only [freshOf]; rw [← hsz]; exact allocZero_has st _)
  rw [hmin] at w1
  simp only [h1, bind, Except.bind]
  rw [eMM_VV _ _ _ _ (by simp only [freshOf, ← hsz, hlen])]
  obtain ⟨s2, h2, w2⟩ := kVV_spec s1 (freshOf st a.dt a.shape a.ap.o.col).win b.win (fun x y => .app2 op x y)
    (by simp only [freshOf]; exact (Nat.ne_of_lt hB.lt).symm)
    (by simp only [freshOf, ← hsz]; exact hcap)
    (by simp only [freshOf, ← hsz]; exact w1.has (by rw [hsz]; exact allocZero_has st _))
    (by simp only [freshOf, ← hsz]; exact w1.has (hB.has.allocZero hB.lt _))
  simp only [freshOf, ← hsz] at h2 w1 w2 ⊢
  refine ⟨s2, by simp only [h2]; rfl, w2.mheap.trans w1.mheap, ?_, ?_⟩
  · intro i hi
    have := w2.val i hi
    simp only [Nat.zero_add] at this
    have h1v := w1.val i hi
    simp only [Nat.zero_add] at h1v
    rw [this, cellD_of_some h1v,
      w1.cellD_other (Nat.ne_of_lt hB.lt), allocZero_cellD_lt _ _ _ _ hA.lt, allocZero_cellD_lt _ _ _ _ hB.lt]
  · intro b' k hb'
    rw [w2.other (Nat.ne_of_lt hb'), w1.other (Nat.ne_of_lt hb'), allocZero_cell_lt _ _ _ _ hb']

/-! ### scalar on the left, iterator path (finding F31, repaired) -/

/-- `E.MinBetweenIter(t, a, b, ait, bit)` with a one-element `a`: the scalar-vector kernel over `b` with `b`'s iterator;
    the kernel's form `if a < b[i] { b[i] = a }` is `minb b[i] a` -/
theorem eMMIter_SV (st : St) (op : String) (a b : Win) (ia ib : ItS) (ha : a.len = 1) (hb : b.len ≠ 1) :
    eMMIter st op a b ia ib = (do kIterSV st (← st.rd a 1 0) b (fun a0 bi => .app2 op bi a0) ib) := by
  simp [eMMIter, isSc, ha, hb]

/-- which path `MinBetweenScalar(t, s, leftTensor = false)` takes in safe mode for an operand that needs an iterator -/
theorem engMMScalar_iter_left (st : St) (op : String) (t : Dense) (sc : ScalarArg)
    (hta : ordTypes.contains t.dt = true) (hdt : t.dt = sc.dt) (hsrc : sc.src = none) (hit : t.requiresIterator = true)
    (hnsc : isScalar t.shape = false) (hs1 : sc.win.len = 1) (hmt : t.mask = none) :
    engMMScalar st op t sc false {} = (do
      let s ← Dense.copyIterOffsets (allocZero st (denseLen t.shape)) (freshOf st t.dt t.shape t.ap.o.col).win t.win
        (freshOf st t.dt t.shape t.ap.o.col).offsets t.offsets
      let s ← eMMIter s op sc.win (freshOf st t.dt t.shape t.ap.o.col).win []
        ((freshOf st t.dt t.shape t.ap.o.col).offsets.map (·, true))
      pure ⟨s, none, .fresh (freshOf st t.dt t.shape t.ap.o.col)⟩) := by
  have hne : (t.dt != sc.dt) = false := by simp [hdt]
  have hl : (sc.win.len != 1) = false := by simp [hs1]
  have hmf : (freshOf st t.dt t.shape t.ap.o.col).mask = none := rfl
  unfold engMMScalar
  simp only [hta, hne, ScalarArg.refresh_none _ _ hsrc, hfo_none, prepAliasVV_none, prepAliasT_none, hit, hnsc, hl, newDenseZero_eq, itStream_nomask _ _ hmt, itStream_nomask _ _ hmf,
    map_true_fst, bind, Except.bind, pure, Except.pure,
    Bool.not_true, Bool.false_eq_true, if_false, Bool.or_false, Bool.and_false, Bool.not_false,
    Bool.and_true, if_true, Bool.true_or, Bool.false_and, Bool.true_and, Bool.or_true]

/-- **F31 repaired** for `MinBetween` / `MaxBetween` with the scalar on the left of an operand that needs an iterator:
    the fresh tensor of the operand's shape and data order holds, at the `k`-th offset of its own iterator, `op t[k-th] s`
    (the operand's `k`-th logical element); every existing buffer is unchanged -/
theorem engMMScalar_iter_left' (st : St) (op : String) (t : Dense) (sc : ScalarArg)
    (hta : ordTypes.contains t.dt = true) (hdt : t.dt = sc.dt) (hsrc : sc.src = none) (hit : t.requiresIterator = true)
    (hnsc : isScalar t.shape = false) (hs1 : sc.win.len = 1) (hmt : t.mask = none)
    (hl1 : denseLen t.shape ≠ 1) (hct : t.win.len ≤ t.win.cap)
    (hor : ∀ i ∈ (freshOf st t.dt t.shape t.ap.o.col).offsets, 0 ≤ i ∧ i < (denseLen t.shape : Int))
    (hot : ∀ j ∈ t.offsets, 0 ≤ j ∧ j < (t.win.len : Int))
    (hnd : (freshOf st t.dt t.shape t.ap.o.col).offsets.Nodup)
    (hT : InBuf st t.win.buf t.win.off t.win.len) (hS : InBuf st sc.win.buf sc.win.off 1) :
    ∃ st', engMMScalar st op t sc false {} = .ok ⟨st', none, .fresh (freshOf st t.dt t.shape t.ap.o.col)⟩ ∧
      st'.mheap = st.mheap ∧
      (∀ (k : Nat) m j, (freshOf st t.dt t.shape t.ap.o.col).offsets[k]? = some m → t.offsets[k]? = some j →
        cell st' st.heap.size m.toNat =
          some (.app2 op (cellD st t.win.buf (t.win.off + j.toNat)) (cellD st sc.win.buf sc.win.off))) ∧
      (∀ b' k', b' < st.heap.size → cell st' b' k' = cell st b' k') := by
  rw [engMMScalar_iter_left st op t sc hta hdt hsrc hit hnsc hs1 hmt]
  obtain ⟨s2, h2, hm2, hv2, hf2⟩ := copyIter_then_kIterSV (allocZero st (denseLen t.shape)) t.win
    (freshOf st t.dt t.shape t.ap.o.col).win sc.win (fun a0 bi => .app2 op bi a0)
    (freshOf st t.dt t.shape t.ap.o.col).offsets t.offsets
    (by simp only [freshOf]; exact (Nat.ne_of_lt hT.lt).symm) (by simp only [freshOf]; exact (Nat.ne_of_lt hS.lt).symm)
    (by simp only [freshOf]; exact Nat.le_refl _) hct (by simpa only [freshOf] using hor) hot hnd
    (by simp only [freshOf]; exact allocZero_has st _) (hT.has.allocZero hT.lt _) (hS.has.allocZero hS.lt _)
  refine ⟨s2, ?_, hm2, ?_, ?_⟩
  · simp only [bind, Except.bind] at h2 ⊢
    cases hc : Dense.copyIterOffsets (allocZero st (denseLen t.shape)) (freshOf st t.dt t.shape t.ap.o.col).win t.win
        (freshOf st t.dt t.shape t.ap.o.col).offsets t.offsets with
    | error e => rw [hc] at h2; cases h2
    | ok s1 =>
      rw [hc] at h2
      simp only [] at h2 ⊢
      rw [eMMIter_SV _ _ _ _ _ _ hs1 (by simp only [freshOf]; exact hl1)]
      simp only [bind, Except.bind]
      cases hrd : s1.rd sc.win 1 0 with
      | error e => rw [hrd] at h2; cases h2
      | ok v => rw [hrd] at h2; simp only [] at h2 ⊢; rw [h2]; rfl
  · intro k m j hm hj
    have := hv2 k m j hm hj
    simp only [freshOf, Nat.zero_add] at this
    rw [this, allocZero_cellD_lt _ _ _ _ hS.lt, allocZero_cellD_lt _ _ _ _ hT.lt]
  · intro b' k' hb'
    rw [hf2 _ _ (by simp only [freshOf]; exact Nat.ne_of_lt hb'), allocZero_cell_lt _ _ _ _ hb']

end TM
