import TensorModel.Excl
/-! Runs one program under M and S side by side and produces the output lines of the protocol. -/
namespace TM

structure Taint where
  obj : Array (List String) := #[]
  buf : Array (List String) := #[]
deriving Inhabited

def Taint.ofObj (t : Taint) (ps : PState) (id : Nat) : List String :=
  let a := t.obj[id]?.getD []
  let b := match ps.ds[id]? with
    | some d => t.buf[d.win.buf]?.getD []
    | none => []
  (a ++ b).eraseDups

def addAt (arr : Array (List String)) (i : Nat) (tags : List String) : Array (List String) :=
  let arr := if arr.size ≤ i then arr ++ Array.replicate (i + 1 - arr.size) [] else arr
  arr.modify i (fun l => (l ++ tags).eraseDups)

/-- Excl tags raised by a step (evaluated on M's state *before* the step), with the scope they
    taint: the object only, or also its whole buffer (storage damage). -/
def exclTags (ps : PState) (toks : List String) : List String × Bool :=
  match toks with
  | ["slice", v, spec] =>
    match ps.obj v, parseSlList spec with
    | some (_, t), some sls =>
      ((if Excl_leadStep t.ap.shape sls then ["F2"] else []) ++
       (if Excl_oneCellScalar t sls then ["F25"] else []) ++
       (if Excl_shortStrides t then ["F24"] else []), false)
    | _, _ => ([], false)
  | ["T", v, axes] =>
    match ps.obj v, parseIntList axes with
    | some (_, t), some ax =>
      let mat := T_materialises t ax
      ((if mat && Excl_transposeView t then ["F5"] else []) ++
       (if mat && Excl_transposeCol t then ["F6"] else []) ++
       (if Excl_shortStrides t then ["F24"] else []) ++
       (if Excl_vectorT t ax then ["F28"] else []), mat)
    | _, _ => ([], false)
  | ["safeT", v, axes] =>
    match ps.obj v, parseIntList axes with
    | some (_, t), some ax => ((if Excl_vectorT t ax then ["F28"] else []) ++ (if Excl_shortStrides t then ["F24"] else []), false)
    | _, _ => ([], false)
  | ["transpose", v] =>
    match ps.obj v with
    | some (_, t) =>
      ((if Excl_transposeView t then ["F5"] else []) ++ (if Excl_transposeCol t then ["F6"] else []), true)
    | _ => ([], false)
  | ["iter", v, _] =>
    match ps.obj v with
    | some (_, t) => ((if Excl_shortStrides t then ["F24"] else []), false)
    | _ => ([], false)
  | ["calcS", v, spec] =>
    match ps.obj v, parseSlList spec with
    | some (_, t), some sls =>
      ((if Excl_shapeSFloor t.ap.shape sls then ["F3"] else []) ++
       (if Excl_oneCellScalar t sls then ["F25"] else []), false)
    | _, _ => ([], false)
  | ["reshape", v, _] =>
    match ps.obj v with
    | some (_, t) =>
      ((if Excl_reshapeLongWindow t then ["F16"] else []) ++
       (if Excl_transposeView t then ["F5"] else []) ++ (if Excl_transposeCol t then ["F6"] else []) ++
       (if Excl_shortStrides t then ["F24"] else []), true)
    | _ => ([], false)
  | _ => ([], false)

/-- the object a step observes / mutates (first `$k` argument) and the object it creates -/
def stepTarget (ps : PState) (toks : List String) : Option Nat :=
  (toks.filterMap (fun t => (ps.obj t).map (·.1))).head?

def mResClass (o : StepOut) : String :=
  let f := match o with | .fields f => f | .stop f => f
  if f.startsWith "r=ok" then "ok" else if f.startsWith "r=err" then "err"
  else if f.startsWith "r=panic" then "panic" else "obs"

def runProgram (line : String) : List String :=
  match line.splitOn " ; " with
  | [] => []
  | pid :: steps =>
    let rec go (ps : PState) (ss : SState) (tn : Taint) (i : Nat) : List String → List String → List String
      | [], acc => acc.reverse
      | s :: rest, acc =>
        let toks := (s.splitOn " ").filter (· != "")
        if (toks.head?.getD "").startsWith "vset=" then go ps ss tn (i + 1) rest acc else
        let (tags, bufScope) := exclTags ps toks
        let target := stepTarget ps toks
        let (ps', mo) := stepM ps i toks
        let so := stepS ps ps' ss i toks (mResClass mo)
        -- defects visible on the object a step creates
        let postTags : List String :=
          if ps'.ds.size > ps.ds.size then
            match ps'.ds[ps.ds.size]? with
            | some d => (if Excl_shortStrides d then ["F24"] else []) ++ (if Excl_contigFlagWrong d then ["F27"] else [])
            | none => []
          else match target with
            | some id => (match ps'.ds[id]? with
              | some d => if Excl_shortStrides d then ["F24"] else []
              | none => [])
            | none => []
        let tags := tags ++ postTags
        -- taint: the target object, a newly created object (inherits the target's taints), the buffer
        let tn := match target with
          | some id =>
            let inherited := tn.ofObj ps id
            let tn := { tn with obj := addAt tn.obj id tags }
            let tn := if ps'.ds.size > ps.ds.size then { tn with obj := addAt tn.obj ps.ds.size (inherited ++ tags) } else tn
            if bufScope && !tags.isEmpty then
              match ps.ds[id]? with
              | some d => { tn with buf := addAt tn.buf d.win.buf tags }
              | none => tn
            else tn
          | none => tn
        -- writes through a tainted object taint its buffer; copies from a tainted source taint the destination
        let writes := ["memset", "zero", "setat", "copy", "copyto", "transpose", "reshape"].contains (toks.head?.getD "")
        let tn := if writes then
            let objs := toks.filterMap (fun t => (ps.obj t).map (·.1))
            let all := (objs.flatMap (fun id => tn.ofObj ps id)).eraseDups
            if all.isEmpty then tn else
              objs.foldl (fun tn id => match ps.ds[id]? with
                | some d => { tn with buf := addAt tn.buf d.win.buf all, obj := addAt tn.obj id all }
                | none => tn) tn
          else tn
        let excuse := match target with
          | some id => tn.ofObj ps' id ++ (if ps'.ds.size > ps.ds.size then tn.ofObj ps' ps.ds.size else [])
          | none => if ps'.ds.size > ps.ds.size then tn.ofObj ps' ps.ds.size else []
        let excuse := excuse.eraseDups
        let (mf, stop) := match mo with | .fields f => (f, false) | .stop f => (f, true)
        let acc := s!"{pid}.{i} M {mf}" :: acc
        let acc := match so.line with
          | some l => s!"{pid}.{i} S {l}" :: acc
          | none => acc
        let acc := if excuse.isEmpty then acc else s!"{pid}.{i} X {String.intercalate " " excuse}" :: acc
        if stop then acc.reverse else go ps' so.s tn (i + 1) rest acc
    go {} {} {} 0 steps []

end TM
