import TensorModel.Ext.Hooks
/-!
  Family `Compat` (C17): the generated per-type *conversion* code.

  * `tensor.ToMat64(t, opts...)` (`dense_compat.go`: `ToMat64`, the per-type bulk arms of
    `convToFloat64s`, the per-element type switch `convToFloat64`) — step `tomat $a [unsafe]`;
  * `tensor.FromMat64(m, As(dt), [UseUnsafe])` (`convFromFloat64s`, one arm per type) — step
    `frommat <dt> <r>,<c> <vset> [unsafe]`;
  * the typed native accessors `native.Vector<T> / Matrix<T> / Tensor3<T>`
    (`native/iterator_native.go`, `checkNativeIterable`) — step `native $a <vec|mat|t3> [<dt>]`.

  Scalar function names (evaluated by the harness with Go's own conversions, `ext_compat.go`):
  * `tof64`   — the type-generic definition, which is literally `convToFloat64` (per-element path):
                `float64(x)`; complex: `float64(real(x))`;
  * `tof64b`  — what the float32 arm of the *bulk* routine `convToFloat64s` computes: NaN ↦ `math.NaN()`,
                ±Inf ↦ `math.Inf(±1)`, else `float64(v)` (the same value, a NaN is a NaN). The arms of every other
                element type are, as source text, the per-element conversion: `float64(v)` for the integer types,
                `float64(real(v))` / `real(v)` for the complex types (the former finding F91: they used to answer NaN /
                +Inf when *any* component was NaN / infinite) — the model gives them the name `tof64` (`bulkFn`);
  * `cvt.<dt>`  — the type-generic definition of float64 → T: Go's conversion `T(v)`; complex: `complex(T'(v), 0)`;
  * `cvtm.<dt>` — what the arm of `convFromFloat64s` computes where it is not that expression: integers:
                NaN/±Inf ↦ 0, else `T(v)`; float32: NaN/±Inf special-cased to the same values. The complex arms are
                `complex(T'(v), 0)` for every value (the former finding F92: NaN ↦ NaN+NaN·i, ±Inf ↦ +Inf+Inf·i): the
                model gives them the name `cvt.<dt>` (`fromFn`).
-/
namespace TM
namespace Compat

/-- element types `convToFloat64s` / `convToFloat64` / `convFromFloat64s` have an arm for -/
def convTypes : List String := numberTypes

/-! ### ToMat64 -/

inductive MatPath where
  | copyF64   -- `data = make; copy(data, t.Float64s())`
  | bulk      -- `data = convToFloat64s(t)`
  | iter      -- flat iterator + `convToFloat64(t.Get(next))`
deriving Repr, DecidableEq, Inhabited

/-- `rawIsRowMajor` of `ToMat64`: the tensor is neither a view nor lazily transposed, is not column-major
    and its storage window holds exactly r·c cells — the window read left to right is then the row-major
    listing of the elements -/
def rawIsRowMajor (t : Dense) (r c : Int) : Bool :=
  !t.isMaterializable && !t.ap.o.col && (t.win.len : Int) == r * c

/-- the `switch` of `ToMat64` -/
def toMatPath (dt : String) (safe rawRowMajor : Bool) : MatPath :=
  if dt == "f64" && safe && rawRowMajor then .copyF64
  else if rawRowMajor then .bulk
  else .iter

structure MatOut where
  rows : Int
  cols : Int
  data : List Val
  /-- the matrix' backing slice *is* the tensor's storage window -/
  alias : Bool
deriving Inhabited

/-- the scalar function the arm of `convToFloat64s` for element type `dt` applies to a cell: the identity for
    float64 (the window itself is returned), the special-casing loop for float32, and for every other type — the
    integer and the complex types — the expression of the per-element switch `convToFloat64` -/
def bulkFn (dt : String) : Val → Val :=
  if dt == "f64" then id else if dt == "f32" then Val.app1 "tof64b" else Val.app1 "tof64"

/-- the scalar function the arm of `convFromFloat64s` for element type `dt` applies to a matrix entry: for the
    complex types `complex(T'(v), 0)`, which is the type-generic conversion; the integer and float32 arms
    special-case the non-finite values -/
def fromFn (dt : String) : Val → Val :=
  if dt == "c64" || dt == "c128" then Val.app1 s!"cvt.{dt}" else Val.app1 s!"cvtm.{dt}"

/-- `convToFloat64s(t)`: the arm of the element type over the raw storage window (storage order).
    Float64: the window itself is returned. -/
def convToFloat64s (st : St) (t : Dense) : Res (List Val × Bool) :=
  if !convTypes.contains t.dt then throwPanic "Cannot convert *Dense to []float64"
  else do
    let raw ← t.rawCells st
    if t.dt == "f64" then pure (raw, true)
    else pure (raw.map (bulkFn t.dt), false)

/-- the iterator arm: `for next, err = it.Next(); err == nil; … { data = append(data, convToFloat64(t.Get(next))) }` -/
def convIter (st : St) (t : Dense) : Res (List Val) :=
  t.offsets.mapM (fun i => do
    let v ← st.get t.win i
    if !convTypes.contains t.dt then throwPanic "Cannot convert to float64"
    else pure (Val.app1 "tof64" v))

/-- `mat.NewDense(r, c, data)` -/
def newDense (r c : Int) (data : List Val) (dataIsNil : Bool) : Res (List Val) :=
  if r ≤ 0 || c ≤ 0 then throwPanic "mat: zero length / negative dimension"
  else if dataIsNil then pure (List.replicate (r * c).toNat (Val.app1 "tof64" Val.zero))
  else if (data.length : Int) != r * c then throwPanic "mat: dimension mismatch"
  else pure data

/-- `ToMat64(t, opts...)` -/
def toMat64 (st : St) (t : Dense) (safe : Bool) : Res MatOut := do
  -- `t.IsNativelyAccessible()` holds for every engine modelled
  match t.shape with
  | [r, c] =>
    match toMatPath t.dt safe (rawIsRowMajor t r c) with
    | .copyF64 =>
      let raw ← t.rawCells st
      let data ← newDense r c raw false
      pure ⟨r, c, data, false⟩
    | .bulk =>
      let (vals, alias) ← convToFloat64s st t
      let data ← newDense r c vals false
      pure ⟨r, c, data, alias⟩
    | .iter =>
      let vals ← convIter st t
      -- `var data []float64` stays nil when the iterator yields nothing
      let data ← newDense r c vals vals.isEmpty
      pure ⟨r, c, data, false⟩
  | _ => throwErr "Cannot convert *Dense to *mat.Dense. Expected number of dimensions: <=2"

/-! ### FromMat64 -/

structure FromOut where
  st : St
  d : Dense
  alias : Bool

/-- `FromMat64(m, As(dt), [UseUnsafe])`; `cells` = `m.RawMatrix().Data` (a contiguous r×c matrix). -/
def fromMat64 (s : St) (dt : String) (r c : Int) (cells : Array Val) (safe : Bool) : Res FromOut := do
  -- the matrix' own backing array
  let (s, mb) := s.alloc cells
  if !convTypes.contains dt then throwPanic "Unsupported Dtype - cannot convert float64"
  else if dt == "f64" then
    if safe then
      let (s, d) ← Dense.newRow s "f64" [r, c] cells
      pure ⟨s, d, false⟩
    else
      if (cells.size : Int) != totalSize [r, c] then throwPanic "sanity: shape mismatch" else
      pure ⟨s, { ap := { shape := [r, c], strides := calcStrides [r, c], fin := true },
                 win := ⟨mb, 0, cells.size, cells.size⟩, dt := "f64" }, true⟩
  else
    let (s, d) ← Dense.newRow s dt [r, c] (cells.map (fromFn dt))
    pure ⟨s, d, false⟩

/-! ### native accessors -/

def nativeRank : String → Option Nat
  | "vec" => some 1
  | "mat" => some 2
  | "t3" => some 3
  | _ => none

/-- `checkNativeIterable(t, dims, dt)` — the same four tests for every element type -/
def checkNativeIterable (t : Dense) (dims : Nat) (accDt : String) : Res Unit :=
  if t.dims != dims then throwErr "Expected number of dimension"
  else if (t.ap.o.col && !t.ap.o.nonContig) || t.requiresIterator then
    throwErr "NYI: native matrix for colmajor or unpacked matrices"
  else if t.dt != accDt then throwErr "Conversion to native iterable only works on the accessor's type"
  else pure ()

/-- a cell read through a hand-made slice header (`hdr.Data = &data[start]`, `Len = Cap = cols`): no
    bounds check against the window; cells of the same backing array behind the window are read as they are -/
def peek (st : St) (w : Win) (k : Int) : String :=
  if k < 0 then "oob" else
  match st.heap[w.buf]? with
  | some b => (match b[w.off + k.toNat]? with | some v => v.toStr | none => "oob")
  | none => "oob"

/-- `&data[start]`: an ordinary index expression -/
def rowStart (t : Dense) (start : Int) : Res Unit :=
  if start < 0 || start ≥ t.win.len then throwPanic "index out of range" else pure ()

/-- `Vector<T>(t)`, `Matrix<T>(t)`, `Tensor3<T>(t)`: the elements as the nested slices list them -/
def nativeAccess (st : St) (t : Dense) (dims : Nat) (accDt : String) : Res (List String) := do
  checkNativeIterable t dims accDt
  match dims, t.shape with
  | 1, _ => pure ((← t.rawCells st).map Val.toStr)
  | 2, [rows, cols] =>
    let rowStride ← idx t.strides 0 "strides"
    let rs ← (rangeI rows.toNat).mapM (fun i => do
      rowStart t (i * rowStride)
      pure ((rangeI cols.toNat).map (fun j => peek st t.win (i * rowStride + j))))
    pure rs.flatten
  | 3, [layers, rows, cols] =>
    let layerStride ← idx t.strides 0 "strides"
    let rowStride ← idx t.strides 1 "strides"
    let ls ← (rangeI layers.toNat).mapM (fun i =>
      (rangeI rows.toNat).mapM (fun j => do
        rowStart t (i * layerStride + j * rowStride)
        pure ((rangeI cols.toNat).map (fun k => peek st t.win (i * layerStride + j * rowStride + k)))))
    pure (ls.flatten.flatten)
  | _, _ => throwErr "no accessor"

/-! ### Known-defect regions: none left (F90, F91, F92 are repaired) -/

def intTypes : List String := ["i", "i8", "i16", "i32", "i64", "u", "u8", "u16", "u32", "u64"]

/-! ### Steps -/

def optsOk (opts : List String) : Bool := opts.all (fun o => o == "unsafe" || o == "safe")

def stepM (ps : PState) (_i : Nat) (toks : List String) : PState × StepOut :=
  match toks with
  | "tomat" :: a :: opts =>
    if !optsOk opts then (ps, .fields "r=badprog") else
    match ps.obj a with
    | none => (ps, .fields "r=skip")
    | some (_, t) =>
      match toMat64 ps.st t (!opts.contains "unsafe") with
      | .ok m => (ps, .fields s!"r=ok rows={m.rows} cols={m.cols} alias={if m.alias then 1 else 0} data={showVals m.data}")
      | .error (.err _) => (ps, .fields "r=err")
      | .error (.panic _) => (ps, .stop "r=panic")
  | "frommat" :: dt :: shape :: vs :: opts =>
    if !optsOk opts || !mapTypes.contains dt || vs.toInt?.isNone then (ps.failVar, .fields "r=badprog") else
    match parseIntList shape with
    | some [r, c] =>
      if r ≤ 0 || c ≤ 0 then (ps.failVar, .fields "r=badprog") else
      let n := (r * c).toNat
      let bid := ps.nnew
      let ps := { ps with nnew := ps.nnew + 1 }
      let cells : Array Val := (Array.range n).map (fun i => Val.src bid i)
      match fromMat64 ps.st dt r c cells (!opts.contains "unsafe") with
      | .ok o => ({ ps with st := o.st }.newVar o.d, .fields s!"r=ok alias={if o.alias then 1 else 0}")
      | .error (.err _) => (ps.failVar, .fields "r=err")
      | .error (.panic _) => (ps.failVar, .stop "r=panic")
    | _ => (ps.failVar, .fields "r=badprog")
  | "native" :: a :: kind :: rest =>
    if rest.length > 1 then (ps, .fields "r=badprog") else
    match nativeRank kind with
    | none => (ps, .fields "r=badprog")
    | some dims =>
      match ps.obj a with
      | none => (ps, .fields "r=skip")
      | some (_, t) =>
        let accDt := rest.head?.getD t.dt
        match nativeAccess ps.st t dims accDt with
        | .ok es => (ps, .fields s!"r=ok elems={if es.isEmpty then "-" else String.intercalate "," es}")
        | .error (.err _) => (ps, .fields "r=err")
        | .error (.panic _) => (ps, .stop "r=panic")
  | "frommat" :: _ => (ps.failVar, .fields "r=badprog")
  | _ => (ps, .fields "r=badprog")

/-- S. `tomat`: a matrix exists iff the tensor has two axes; it is the (r,c) matrix whose (i,j) entry
    is `tof64` of element (i,j) — listed row by row — whatever the layout. `frommat`: the (r,c) tensor whose
    element (i,j) is `cvt.<dt>` of entry (i,j). `native`: refused unless rank and element type are the
    accessor's; otherwise it may be refused (layout), and if not, lists the elements by coordinate. -/
def stepS (psBefore psAfter : PState) (ss : SState) (_i : Nat) (toks : List String) (mres : String) : SOut :=
  let ss := ss.sync psBefore.ds.size
  let newId := psBefore.ds.size
  let fin := finS psAfter
  match toks with
  | "tomat" :: a :: _ =>
    match sObj psBefore ss a, psBefore.obj a with
    | some (_, o), some (_, d) =>
      match o.idx.shape with
      | [r, c] =>
        if r ≤ 0 || c ≤ 0 || !convTypes.contains d.dt then fin ss none else
        match o.elems ss with
        | some es => fin ss (some s!"r=ok rows={r} cols={c} data={showVals (es.map (Val.app1 "tof64"))}")
        | none => fin ss none
      | _ => fin ss (some "r=err")
    | _, _ => fin ss none
  | "frommat" :: dt :: shape :: vs :: _ =>
    match parseIntList shape with
    | some [r, c] =>
      if r ≤ 0 || c ≤ 0 || !convTypes.contains dt then fin ss none else
      -- float64 → integer conversion of NaN / ±Inf is implementation-dependent in Go: no verdict on the values
      if vs == "5" && intTypes.contains dt then fin ss (some "r=ok") else
      let n := (r * c).toNat
      let bid := psBefore.nnew
      let cells : Array Val := (Array.range n).map (fun i => Val.app1 s!"cvt.{dt}" (Val.src bid i))
      let root := ss.store.size
      let ss := { ss with store := ss.store.push cells }
      let o : SObj := { root := root, idx := ⟨[r, c], List.range n⟩ }
      if mres != "ok" then fin ss (some "r=ok") else
      fin ({ ss with objs := (ss.sync newId).objs.push (some o) }) (some "r=ok")
    | _ => fin ss none
  | "native" :: a :: kind :: rest =>
    match sObj psBefore ss a, psBefore.obj a, nativeRank kind with
    | some (_, o), some (_, d), some dims =>
      let accDt := rest.head?.getD d.dt
      if o.idx.shape.length != dims || accDt != d.dt then fin ss (some "r=err") else
      if mres != "ok" then fin ss (some "r=ok|err") else
      match o.elems ss with
      | some es => fin ss (some s!"r=ok|err elems={showVals es}")
      | none => fin ss none
    | _, _, _ => fin ss none
  | _ => fin ss none

def excl (_ps : PState) (_toks : List String) : List String × Bool := ([], false)

end Compat

def compatFamily : Family :=
  { name := "Compat", keys := ["tomat", "frommat", "native"], stepM := Compat.stepM, stepS := Compat.stepS, excl := Compat.excl }

end TM
