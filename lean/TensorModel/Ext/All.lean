import TensorModel.Ext.Hooks
import TensorModel.Ext.MinMax
import TensorModel.Ext.Engines
/-! Registry of operation families (one import + one list entry per family). -/
namespace TM

def families : List Family := [minMaxFamily, enginesFamily]

end TM
