#!/bin/bash
# re-runs every stored seeded change against the current machinery: tools/seedall.sh [ids…]
# (each: confirm in a scratch worktree, apply to /repo, run the property's quick check (+ thorough with -t), undo)
cd "$(dirname "$0")/.."
T=""; if [ "$1" = "-t" ]; then T="--thorough"; shift; fi
ids=${@:-$(ls seeded)}
for id in $ids; do
  p=${id%%-*}
  out=$(python3 tools/seedtest.py $id seeded/$id $p $T 2>&1)
  echo "$id $(echo "$out" | python3 -c "
import json,sys
t=sys.stdin.read()
try:
    d=json.loads(t[t.index('{'):])
    print('kept=%s detected_by=%s' % (d['kept'], d['detected_by']), {k:v for k,v in d['confirmed'].items() if k!='suite_other_failures'})
except Exception as e:
    print('ERR', t[-300:].replace('\n',' '))
")"
done
