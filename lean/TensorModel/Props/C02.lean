import TensorModel.Proofs.Slice
import TensorModel.Proofs.CoreEq
/-!
  C02 — slicing selects exactly the requested sub-array.
  Property theorems only; helper lemmas live in `TensorModel/Proofs/Slice.lean`.
-/
namespace TM.C02

/-- The rejection logic of `CheckSlice`/`SliceDetails`, stated outright: a slice is refused with an
    error exactly when it is reversed, negative, starts past the axis, or has a zero step over more
    than one element. -/
theorem sliceDetails_rejects (s : Sl) (d : Int) :
    (∃ tag, sliceDetails (some s) d = .error (.err tag)) ↔
      (s.start > s.stop ∨ s.start < 0 ∨ s.start ≥ d ∨ (s.step = 0 ∧ s.stop - s.start > 1)) := by
  rw [sliceDetails_some]
  constructor
  · intro ⟨tag, h⟩
    split at h
    · assumption
    · cases h
  · intro h
    rw [if_pos h]
    repeat' split
    all_goals exact ⟨_, rfl⟩

/-- An accepted slice is returned with its end clamped to the axis length; it never panics. -/
theorem sliceDetails_accepts (s : Sl) (d : Int)
    (h : ¬ (s.start > s.stop ∨ s.start < 0 ∨ s.start ≥ d ∨ (s.step = 0 ∧ s.stop - s.start > 1))) :
    sliceDetails (some s) d = .ok (s.start, min s.stop d, s.step) := by
  rw [sliceDetails_some, if_neg h]

/-- M and S reject the same per-axis requests (S additionally declares empty ranges and negative
    steps outside its domain). -/
theorem axisSel_reject_iff (s : Sl) (d : Int) :
    (match axisSel (some s) d with | .reject => True | _ => False) ↔
      (∃ tag, sliceDetails (some s) d = .error (.err tag)) := by
  rw [sliceDetails_rejects, ← axisSel_some_reject_iff]
  cases axisSel (some s) d <;> simp

/-- Per axis: result position `c` of the sliced pattern addresses source position
    `start + c*step` (a single index or zero step contributes `start` only). -/
theorem sliceAxis_addr (isVec : Bool) (od i : Nat) (size stride : Int) (sl : Option Sl) (r : AxisRes)
    (start stop step : Int)
    (hd : sliceDetails sl size = .ok (start, stop, step))
    (h : sliceAxis isVec od i size stride sl = .ok r) (c : Int) :
    r.dStart + c * r.stride = (start + c * (if step > 0 then step else 1)) * stride := by
  exact sliceAxis_addr' isVec od i size stride sl r start stop step hd h c

/-- Per axis: number of entries. For `step > 0` it is `ceil((end-start)/step)` on every axis but the
    leading one (defect F2: axis 0 rounds down), never less than one. -/
theorem sliceAxis_len_partial (isVec : Bool) (od i : Nat) (size stride : Int) (sl : Option Sl) (r : AxisRes)
    (start stop step : Int)
    (hd : sliceDetails sl size = .ok (start, stop, step)) (hstep : step > 0) (hlt : start < stop)
    (hx : i > 0 ∨ (stop - start) % step = 0)
    (h : sliceAxis isVec od i size stride sl = .ok r) :
    r.n = (stop - start + step - 1) / step := by
  rw [(sliceAxis_ok isVec od i size stride sl r start stop step hd h).2.2]
  exact axisN_len i start stop step hstep hlt hx

/-- The full statement fails on the leading axis (finding F2): witness `a[0:5:2]` of a length-5 axis. -/
theorem sliceAxis_len_full_fails :
    ∃ r, sliceAxis true 0 0 5 1 (some ⟨0, 5, 2⟩) = .ok r ∧ r.n ≠ (5 - 0 + 2 - 1) / 2 := by
  exact ⟨_, rfl, by decide⟩

/-- effective (start, step) of every axis as `SliceDetails` reports them (step ≤ 0 counts as 1:
    a single index or zero step selects one position) -/
def selOf : List (Option Sl) → Shape → List (Int × Int)
  | _, [] => []
  | sls, d :: ds =>
    (match sliceDetails sls.head?.join d with
     | .ok (st, _, sp) => (st, if sp > 0 then sp else 1)
     | .error _ => (0, 1)) :: selOf sls.tail ds

/-- The loop of `AP.S` over all axes: the offset of result coordinate `c` in the sliced pattern
    (window start `Σ dStart`, strides `stride'`) is the offset of the source coordinate
    `startᵢ + cᵢ·stepᵢ` in the source pattern — for every rank, shape, stride vector and slice list. -/
theorem apSLoop_addr (isVec : Bool) (od : Nat) (shape : Shape) (strides : List Int) (sls : List (Option Sl))
    (rs : List AxisRes) (i : Nat) (h : apSLoop isVec od i shape strides sls = .ok rs)
    (c : List Int) (hc : c.length = shape.length) :
    rs.length = shape.length ∧
    sumI (rs.map (·.dStart)) + dot c (rs.map (·.stride)) =
      dot (List.zipWith (fun (p : Int × Int) ci => p.1 + ci * p.2) (selOf sls shape) c) strides := by
  exact apSLoop_addr' isVec od selOf (fun sls => by cases sls <;> rfl) (fun _ _ _ => rfl)
    shape strides sls rs i h c hc

/-- Dropping axes of extent one at coordinate zero does not change the address. -/
theorem drop_axis_addr (ns strides : List Int) (keep : List Bool) (c : List Int)
    (hl : ns.length = strides.length) (hk : keep.length = ns.length) (hc : c.length = ns.length)
    (hz : ∀ k : Nat, keep[k]? = some false → c[k]? = some 0) :
    dot c strides =
      dot ((c.zip keep).filterMap (fun (x, b) => if b then some x else none))
          ((strides.zip keep).filterMap (fun (x, b) => if b then some x else none)) := by
  exact drop_axis_addr' strides keep c (hc.trans hl) (hk.trans hc.symm) hz

/-- A view shares the buffer of its source and its window lies inside the source's window. -/
theorem slice_shares (t v : Dense) (sls : List (Option Sl)) (h : t.slice sls = .ok v) :
    v.win.buf = t.win.buf ∧ t.win.off ≤ v.win.off ∧ v.win.off + v.win.len ≤ t.win.off + t.win.cap ∧ v.view = true := by
  exact slice_shares' t v sls h

-- non-vacuity / concrete instances
example : (match sliceDetails (some ⟨1, 7, 2⟩) 5 with | .ok (1, 5, 2) => true | _ => false) = true := by decide
example : (match AP.S { shape := [4, 5], strides := [5, 1] } 20 [some ⟨1, 3, 1⟩, some ⟨0, 5, 2⟩] with
    | .ok (nap, s, e) => nap.shape == [2, 3] && nap.strides == [5, 2] && s == 5 && e == 15
    | _ => false) = true := by decide

/-! ## the regenerated source of `utils.go:CheckSlice` / `SliceDetails` -/

/-- outcome class of the translated `SliceDetails` (three values + error) -/
def clsSD (r : Gen.GoM (Int × Int × Int × Gen.GoErr)) : Gen.Cls (Int × Int × Int) :=
  match r with
  | .ok (a, b, c, none) => .val (a, b, c)
  | .ok (_, _, _, some _) => .err
  | .error (.panic _) => .panic
  | .error .fuel => .fuel

/-- the source of `SliceDetails` (with `CheckSlice` inlined by the call), translated by `tools/gol` on
    this run, is the model function `sliceDetails` — for every slice (nil included) and every size. -/
theorem SliceDetails_source_is_model (s : Option Sl) (size : Int) :
    clsSD (Gen.SliceDetails s size) = Gen.clsM (sliceDetails s size) :=
  Gen.SliceDetails_eq s size

/-- `SliceDetails` (source) refuses exactly the reversed / negative / past-the-axis / zero-step slices -/
theorem SliceDetails_source_rejects (s : Sl) (d : Int) :
    clsSD (Gen.SliceDetails (some s) d) = .err ↔
      (s.start > s.stop ∨ s.start < 0 ∨ s.start ≥ d ∨ (s.step = 0 ∧ s.stop - s.start > 1)) := by
  rw [SliceDetails_source_is_model, ← sliceDetails_rejects]
  constructor
  · intro h
    cases hr : sliceDetails (some s) d with
    | ok v => rw [hr] at h; cases h
    | error e => cases e with
      | err tag => exact ⟨tag, rfl⟩
      | panic tag => rw [hr] at h; cases h
  · intro ⟨tag, h⟩; rw [h]; rfl

/-- … and returns an accepted one with its end clamped to the axis length -/
theorem SliceDetails_source_accepts (s : Sl) (d : Int)
    (h : ¬ (s.start > s.stop ∨ s.start < 0 ∨ s.start ≥ d ∨ (s.step = 0 ∧ s.stop - s.start > 1))) :
    clsSD (Gen.SliceDetails (some s) d) = .val (s.start, min s.stop d, s.step) := by
  rw [SliceDetails_source_is_model, sliceDetails_accepts s d h]; rfl

/-! ## the regenerated source of `ap.go:AP.S` — the slicing of access patterns itself

`tools/gol` translates `AP.S` (with `SliceDetails`, `Shape.Clone`, `MakeDataOrder`, `AP.SetShape`, `AP.lock`,
`MakeAP` and the data-order predicates it calls) on every run; `Proofs/CoreEq.lean:AP_S_eq` proves the
translation equal to the model function `AP.S` — new shape, strides, lock flag, data-order flags, `ndStart`,
`ndEnd`, refusals and the index panic on short stride vectors — for all access patterns with a valid flag byte,
all window sizes and all slice lists. The address theorems above (`apSLoop_addr`, `drop_axis_addr`, and
`C04.slice_addr`, `C13.slice_covers`) are therefore statements about what the source computes. -/

theorem APS_source_is_model (ap : AP) (size : Int) (sls : List (Option Sl)) :
    Gen.clsAPS (Gen.AP_S (Gen.ofM ap) size sls) = Gen.clsM (ap.S size sls) :=
  Gen.AP_S_eq_ofM ap size sls

/-- whenever the model's `AP.S` succeeds, so does the source, with the same result -/
theorem APS_source_result (ap nap : AP) (size ndStart ndEnd : Int) (sls : List (Option Sl))
    (h : ap.S size sls = .ok (nap, ndStart, ndEnd)) :
    Gen.clsAPS (Gen.AP_S (Gen.ofM ap) size sls) = .val (nap, ndStart, ndEnd) := by
  rw [APS_source_is_model, h]; rfl

/-- the source of `AP.S` refuses a slice list longer than the rank (error value, not a panic) -/
theorem APS_source_rejects_long (ap : AP) (size : Int) (sls : List (Option Sl)) (h : sls.length > ap.shape.length) :
    Gen.clsAPS (Gen.AP_S (Gen.ofM ap) size sls) = .err := by
  rw [APS_source_is_model]
  unfold AP.S
  simp [h, throwErr, bind, Except.bind, Gen.clsM]

/-- view address, stated about the source: the cell the sliced pattern (as computed by the source of `AP.S`)
    addresses at `c` is the cell the original pattern addresses at the selected coordinate -/
theorem APS_source_addr (ap nap : AP) (size ndStart ndEnd : Int) (sls : List (Option Sl)) (rs : List AxisRes)
    (hsrc : Gen.clsAPS (Gen.AP_S (Gen.ofM ap) size sls) = .val (nap, ndStart, ndEnd))
    (hloop : apSLoop (isVector ap.shape) (if !ap.o.col || isVector ap.shape then 0 else ap.shape.length - 1) 0
      ap.shape ap.strides sls = .ok rs) :
    ap.S size sls = .ok (nap, ndStart, ndEnd) ∧ rs.length = ap.shape.length := by
  rw [APS_source_is_model] at hsrc
  constructor
  · cases hr : ap.S size sls with
    | ok v => rw [hr] at hsrc; simp [Gen.clsM] at hsrc; rw [hsrc]
    | error e => rw [hr] at hsrc; cases e <;> simp [Gen.clsM] at hsrc
  · exact (apSLoop_addr _ _ _ _ _ rs 0 hloop (List.replicate ap.shape.length 0) (by simp)).1

example : Gen.clsAPS (Gen.AP_S (Gen.ofM { shape := [4, 6], strides := [6, 1], fin := true }) 24 [some ⟨1, 3, 1⟩, some ⟨0, 6, 2⟩])
    = .val ({ shape := [2, 3], strides := [6, 2], fin := true, o := { nonContig := true } }, 6, 18) := by decide

example : clsSD (Gen.SliceDetails (some ⟨1, 9, 2⟩) 5) = .val (1, 5, 2) := by decide
example : clsSD (Gen.SliceDetails (some ⟨3, 2, 1⟩) 5) = .err := by decide

end TM.C02
