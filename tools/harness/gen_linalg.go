package main

import (
	"fmt"
)

// Generator of property C09 (linear-algebra products).

func init() { generators["C09"] = genC09 }

var laDtypes = []string{"f64", "f32", "c128", "c64"}

// vector forms of length n
func vecForms(n int) [][]int { return [][]int{{n}, {n, 1}, {1, n}} }

func laIsVector(s []int) bool {
	return len(s) == 1 || (len(s) == 2 && ((s[1] == 1 && s[0] > 1) || (s[0] == 1 && s[1] > 1)))
}

// laExpShape is the documented result shape of op on operand shapes a, b (nil: none / refused).
func laExpShape(op string, a, b []int, axA, axB []int) []int {
	free := func(s []int, ax []int) []int {
		var out []int
		for i, d := range s {
			in := false
			for _, x := range ax {
				if x == i {
					in = true
				}
			}
			if !in {
				out = append(out, d)
			}
		}
		return out
	}
	switch op {
	case "mv":
		if len(a) == 2 {
			return []int{a[0]}
		}
	case "mm":
		if len(a) == 2 && len(b) == 2 {
			return []int{a[0], b[1]}
		}
	case "outer":
		return []int{size(a), size(b)}
	case "tdot":
		r := append(free(a, axA), free(b, axB)...)
		if len(r) == 0 {
			return []int{1}
		}
		return r
	case "dot":
		switch {
		case len(a) == 0 && len(b) == 0:
			return []int{}
		case len(a) == 0:
			return b
		case len(b) == 0:
			return a
		case laIsVector(a) && laIsVector(b):
			return []int{}
		case laIsVector(a) && len(b) == 2:
			return []int{b[1]}
		case len(a) == 2 && !laIsVector(a) && laIsVector(b):
			return []int{a[0]}
		case len(a) == 2 && !laIsVector(a) && len(b) == 2:
			return []int{a[0], b[1]}
		}
		xb := 0
		if len(b) >= 2 {
			xb = len(b) - 2
		}
		return append(free(a, []int{len(a) - 1}), free(b, []int{xb})...)
	}
	return nil
}

// laProgram emits one program: operands, destination (if any), the operation, dumps.
//
//	mode: safe | reuse | incr | both | unsafe-reuse
//	dest: ok (fresh, documented shape) | flat (same size, other shape) | size (wrong size) | view |
//	      lazyT | col | dtype
func (g *gen) laProgram(op, via, dt string, sa, sb []int, la, lb string, mode, dest string, axA, axB []int) {
	var steps []string
	nv := 0
	steps = append(steps, fmt.Sprintf("vset=%d", 2+g.r.intn(2)))
	a := g.operand(&steps, &nv, dt, sa, la)
	var dumps []int
	dumps = append(dumps, a)
	cmd := fmt.Sprintf("la %s %s $%d", op, via, a)
	if op != "trace" {
		b := g.operand(&steps, &nv, dt, sb, lb)
		dumps = append(dumps, b)
		cmd += fmt.Sprintf(" $%d", b)
	}
	if op == "tdot" {
		cmd += " " + ints(axA) + " " + ints(axB)
	}
	if mode != "safe" && op != "inner" && op != "trace" && op != "tdot" {
		exp := laExpShape(op, sa, sb, axA, axB)
		if exp == nil {
			exp = []int{2}
		}
		mk := func() int {
			ddt := dt
			sh := exp
			layout := "contig"
			switch dest {
			case "flat":
				if len(exp) == 1 {
					sh = []int{1, size(exp)}
				} else {
					sh = []int{size(exp)}
				}
			case "size":
				sh = append([]int{}, exp...)
				if len(sh) == 0 {
					sh = []int{2}
				} else {
					sh[0]++
				}
			case "view":
				layout = "sliced"
			case "lazyT":
				layout = "lazyT"
			case "col":
				layout = "colmajor"
			case "dtype":
				if dt == "f64" {
					ddt = "f32"
				} else {
					ddt = "f64"
				}
			}
			d := g.operand(&steps, &nv, ddt, sh, layout)
			dumps = append(dumps, d)
			if layout == "sliced" && d > 0 {
				dumps = append(dumps, d-1) // the parent of a view destination
			}
			return d
		}
		switch mode {
		case "reuse":
			cmd += fmt.Sprintf(" reuse=$%d", mk())
		case "incr":
			cmd += fmt.Sprintf(" incr=$%d", mk())
		case "both":
			r := mk()
			i := mk()
			cmd += fmt.Sprintf(" reuse=$%d incr=$%d", r, i)
		case "unsafe-reuse":
			cmd += fmt.Sprintf(" unsafe reuse=$%d", mk())
		}
	}
	steps = append(steps, cmd)
	if op != "inner" && op != "trace" {
		steps = append(steps, fmt.Sprintf("dump $%d", nv))
		nv++
	}
	for _, d := range dumps {
		steps = append(steps, fmt.Sprintf("dump $%d", d))
	}
	steps = append(steps, "dump $0")
	g.emit(steps...)
}

var laLayouts = []string{"contig", "lazyT", "sliced", "stepped", "mat"}

func (g *gen) laMode() (string, string) {
	switch g.r.intn(8) {
	case 0, 1, 2:
		return "safe", "ok"
	case 3, 4:
		return "reuse", "ok"
	case 5, 6:
		return "incr", "ok"
	}
	return "both", "ok"
}

func (g *gen) dim() int { return 1 + g.r.intn(4) }

// dimv: a dimension > 1 (vector lengths)
func (g *gen) dimv() int { return 2 + g.r.intn(3) }

// all ways to choose k distinct ordered axes of rank r
func axisTuples(r, k int) [][]int {
	if k == 0 {
		return [][]int{{}}
	}
	var out [][]int
	for _, t := range axisTuples(r, k-1) {
		for x := 0; x < r; x++ {
			used := false
			for _, y := range t {
				if y == x {
					used = true
				}
			}
			if !used {
				out = append(out, append(append([]int{}, t...), x))
			}
		}
	}
	return out
}

func genC09(g *gen) {
	reps := 1
	if g.thorough() {
		reps = 30
	}
	vias := []string{"fn", "meth"}
	modes := []string{"safe", "reuse", "incr"}
	for rep := 0; rep < reps; rep++ {
		// 1. layout matrix: every pair of operand layouts x {safe, reuse, incr} for every product
		for _, la := range laLayouts {
			for _, lb := range laLayouts {
				for _, mode := range modes {
					dt := g.r.pick(laDtypes)
					n, m, k := g.dimv(), g.dim(), g.dimv()
					vf := func(n int) []int { return vecForms(n)[g.r.intn(3)] }
					if mode == "safe" {
						g.laProgram("inner", g.r.pick(vias), dt, vf(n), vf(n), la, lb, "safe", "ok", nil, nil)
					}
					g.laProgram("mv", g.r.pick(vias), dt, []int{m, n}, vf(n), la, lb, mode, "ok", nil, nil)
					g.laProgram("mm", g.r.pick(vias), dt, []int{m, k}, []int{k, n}, la, lb, mode, "ok", nil, nil)
					g.laProgram("outer", g.r.pick(vias), dt, vf(n), vf(k), la, lb, mode, "ok", nil, nil)
					// dispatching dot: the four rank-≤2 cases and a tensor case
					fdt := g.r.pick(laDtypes[:2])
					g.laProgram("dot", "fn", fdt, vf(n), vf(n), la, lb, mode, "ok", nil, nil)
					g.laProgram("dot", "fn", fdt, vf(k), []int{k, n}, la, lb, mode, "ok", nil, nil)
					g.laProgram("dot", "fn", fdt, []int{m, n}, vf(n), la, lb, mode, "ok", nil, nil)
					g.laProgram("dot", "fn", fdt, []int{m, k}, []int{k, n}, la, lb, mode, "ok", nil, nil)
					g.laProgram("dot", "fn", fdt, []int{2, m, k}, []int{2, k, n}, la, lb, mode, "ok", nil, nil)
					// a contraction
					g.laProgram("tdot", g.r.pick(vias), fdt, []int{2, k, 3}, []int{k, 2}, la, lb, "safe", "ok", []int{1}, []int{0})
				}
			}
		}
		// 2. shape matrix on contiguous operands: every vector form pair, every matrix shape
		for _, dt := range laDtypes {
			for n := 1; n <= 4; n++ {
				for _, fa := range vecForms(n) {
					for _, fb := range vecForms(n) {
						mode, dest := g.laMode()
						g.laProgram("inner", g.r.pick(vias), dt, fa, fb, "contig", "contig", "safe", "ok", nil, nil)
						g.laProgram("outer", g.r.pick(vias), dt, fa, fb, "contig", "contig", mode, dest, nil, nil)
						if dt[0] == 'f' {
							g.laProgram("dot", "fn", dt, fa, fb, "contig", "contig", mode, dest, nil, nil)
						}
					}
					for m := 1; m <= 4; m++ {
						mode, dest := g.laMode()
						g.laProgram("mv", g.r.pick(vias), dt, []int{m, n}, fa, g.r.pick(laLayouts), g.r.pick(laLayouts), mode, dest, nil, nil)
						if dt[0] == 'f' {
							g.laProgram("dot", "fn", dt, []int{m, n}, fa, g.r.pick(laLayouts), "contig", mode, dest, nil, nil)
							g.laProgram("dot", "fn", dt, fa, []int{n, m}, "contig", g.r.pick(laLayouts), mode, dest, nil, nil)
						}
					}
				}
			}
			for m := 1; m <= 4; m++ {
				for k := 1; k <= 4; k++ {
					for n := 1; n <= 4; n++ {
						if !g.thorough() && g.r.intn(2) == 0 {
							continue
						}
						mode, dest := g.laMode()
						g.laProgram("mm", g.r.pick(vias), dt, []int{m, k}, []int{k, n}, g.r.pick(laLayouts), g.r.pick(laLayouts), mode, dest, nil, nil)
					}
				}
			}
		}
		// 3. general contraction: every valid single axis pair for ranks 1..4, pairs of axes, no axes
		ds := []int{2, 3, 2, 4}
		for ra := 1; ra <= 4; ra++ {
			for rb := 1; rb <= 4; rb++ {
				for nc := 0; nc <= 2; nc++ {
					if nc > ra || nc > rb {
						continue
					}
					for _, xa := range axisTuples(ra, nc) {
						for _, xb := range axisTuples(rb, nc) {
							if nc == 2 && !g.thorough() && g.r.intn(4) != 0 {
								continue
							}
							// shapes: distinct-ish dims, contracted dims made equal
							sa := make([]int, ra)
							sb := make([]int, rb)
							for i := range sa {
								sa[i] = ds[(i+rep)%4]
							}
							for i := range sb {
								sb[i] = ds[(i+1+rep)%4]
							}
							for i := range xa {
								sb[xb[i]] = sa[xa[i]]
							}
							if g.r.intn(5) == 0 {
								sa[g.r.intn(ra)] = 1
								for i := range xa {
									sb[xb[i]] = sa[xa[i]]
								}
							}
							la, lb := "contig", "contig"
							if g.r.intn(3) == 0 {
								la, lb = g.r.pick(laLayouts), g.r.pick(laLayouts)
							}
							g.laProgram("tdot", g.r.pick(vias), g.r.pick(laDtypes[:2]), sa, sb, la, lb, "safe", "ok", xa, xb)
						}
					}
				}
			}
		}
		// 4. dispatch table of Dot: ranks 0..4 x 0..4 (incl. scalars and vector forms)
		rankShapes := [][][]int{
			{{}},
			{{3}, {1}},
			{{3, 1}, {1, 3}, {2, 3}, {3, 3}, {1, 1}, {3, 2}},
			{{2, 3, 3}, {1, 3, 2}, {2, 3, 1}},
			{{2, 2, 3, 3}, {2, 1, 3, 2}},
		}
		for ra := 0; ra <= 4; ra++ {
			for rb := 0; rb <= 4; rb++ {
				for _, sa := range rankShapes[ra] {
					for _, sb := range rankShapes[rb] {
						mode, dest := g.laMode()
						g.laProgram("dot", "fn", g.r.pick(laDtypes[:2]), sa, sb, "contig", "contig", mode, dest, nil, nil)
						if g.r.intn(3) == 0 {
							g.laProgram("dot", "fn", g.r.pick(laDtypes[:2]), sa, sb, g.r.pick(laLayouts), g.r.pick(laLayouts), mode, dest, nil, nil)
						}
					}
				}
			}
		}
		// 5. trace: every element type, layouts, non-square
		for _, dt := range allDtypes {
			for _, sh := range [][]int{{3, 3}, {2, 4}, {4, 2}, {1, 3}, {3, 1}, {1, 1}, {2, 2}} {
				g.laProgram("trace", "meth", dt, sh, nil, g.r.pick(laLayouts), "", "safe", "ok", nil, nil)
			}
			g.laProgram("trace", "meth", dt, []int{3, 3}, nil, "colmajor", "", "safe", "ok", nil, nil)
			g.laProgram("trace", "meth", dt, []int{2, 3, 2}, nil, "contig", "", "safe", "ok", nil, nil)
			g.laProgram("trace", "meth", dt, []int{3}, nil, "contig", "", "safe", "ok", nil, nil)
		}
		// 6. column-major operands / destinations (property C16 proper): a modest number
		for _, op := range []string{"inner", "mv", "mm", "outer", "dot", "tdot"} {
			for _, lays := range [][2]string{{"colmajor", "colmajor"}, {"colmajor", "contig"}, {"contig", "colmajor"}, {"colmajor", "lazyT"},
				{"colsliced", "colsliced"}, {"colsliced", "contig"}, {"colstepped", "colmajor"}, {"contig", "colsliced"}, {"colmajor", "colstepped"}} {
				for k := 0; k < 9; k++ {
					dt := g.r.pick(laDtypes[:2])
					m, n, kk := g.dim(), g.dimv(), g.dimv()
					mode := g.r.pick(modes)
					dest := g.r.pick([]string{"ok", "ok", "col"})
					switch op {
					case "inner":
						g.laProgram(op, "fn", dt, vecForms(n)[k%3], vecForms(n)[(k+1)%3], lays[0], lays[1], "safe", "ok", nil, nil)
					case "mv":
						g.laProgram(op, "meth", dt, []int{m, n}, vecForms(n)[k%3], lays[0], lays[1], mode, dest, nil, nil)
					case "mm":
						g.laProgram(op, "meth", dt, []int{m, kk}, []int{kk, n}, lays[0], lays[1], mode, dest, nil, nil)
					case "outer":
						g.laProgram(op, "meth", dt, vecForms(n)[k%3], vecForms(kk)[k%3], lays[0], lays[1], mode, dest, nil, nil)
					case "dot":
						g.laProgram(op, "fn", dt, []int{m, kk}, []int{kk, n}, lays[0], lays[1], mode, dest, nil, nil)
						g.laProgram(op, "fn", dt, vecForms(kk)[0], []int{kk, n}, lays[0], lays[1], mode, dest, nil, nil)
					case "tdot":
						g.laProgram(op, "meth", dt, []int{2, kk, m}, []int{kk, n}, lays[0], lays[1], "safe", "ok", []int{1}, []int{0})
					}
				}
			}
		}
		// 7. destinations that are not fresh tensors of the documented shape
		for _, dest := range []string{"flat", "size", "view", "view", "lazyT", "dtype"} {
			for _, mode := range []string{"reuse", "incr", "both"} {
				dt := g.r.pick(laDtypes)
				n, m, k := g.dimv(), g.dimv(), g.dimv()
				g.laProgram("mv", "meth", dt, []int{m, n}, []int{n}, "contig", "contig", mode, dest, nil, nil)
				g.laProgram("mm", "fn", dt, []int{m, k}, []int{k, n}, "contig", "contig", mode, dest, nil, nil)
				g.laProgram("outer", "meth", dt, []int{n}, []int{k}, "contig", "contig", mode, dest, nil, nil)
				g.laProgram("dot", "fn", g.r.pick(laDtypes[:2]), []int{m, k}, []int{k, n}, "contig", "contig", mode, dest, nil, nil)
				g.laProgram("dot", "fn", g.r.pick(laDtypes[:2]), []int{2, m, k}, []int{k, n}, "contig", "contig", mode, dest, nil, nil)
			}
		}
		g.laProgram("mm", "meth", "f64", []int{2, 3}, []int{3, 2}, "contig", "contig", "unsafe-reuse", "ok", nil, nil)
		g.laProgram("mm", "meth", "f64", []int{2, 3}, []int{3, 2}, "contig", "contig", "unsafe-reuse", "flat", nil, nil)
		g.laProgram("mv", "meth", "f32", []int{2, 3}, []int{3}, "contig", "contig", "unsafe-reuse", "size", nil, nil)
		// 8. refusals: element types, mismatched types and shapes, ranks, axes
		for _, op := range []string{"inner", "mv", "mm", "outer", "dot", "tdot"} {
			sa, sb := []int{2, 3}, []int{3, 2}
			var xa, xb []int
			switch op {
			case "inner", "outer":
				sa, sb = []int{3}, []int{3}
			case "mv":
				sb = []int{3}
			case "tdot":
				xa, xb = []int{1}, []int{0}
			}
			for _, dt := range []string{"i", "i32", "u8", "b", "str", "c64", "c128"} {
				g.laProgram(op, g.r.pick(vias), dt, sa, sb, "contig", "contig", "safe", "ok", xa, xb)
			}
			// mismatched element types
			st := []string{"new f64 " + ints(sa) + " C", "new f32 " + ints(sb) + " C"}
			cmd := fmt.Sprintf("la %s %s $0 $1", op, g.r.pick(vias))
			if op == "tdot" {
				cmd += " 1 0"
			}
			dumps := []string{"dump $0", "dump $1"}
			g.emit(append(append(st, cmd), dumps...)...)
			// mismatched shapes and ranks
			for _, pair := range [][2][]int{{{2, 3}, {2, 3}}, {{3}, {4}}, {{2, 3}, {4}}, {{2, 3, 2}, {3, 2}}, {{3}, {2, 3}}, {{}, {3}}, {{3, 1}, {1, 4}}, {{2, 2}, {3}}} {
				dt := g.r.pick(laDtypes)
				c := fmt.Sprintf("la %s %s $0 $1", op, g.r.pick(vias))
				if op == "tdot" {
					c += " " + ints([]int{len(pair[0]) - 1}) + " 0"
				}
				if len(pair[0]) == 0 && op == "tdot" {
					continue
				}
				g.emit("vset=2", fmt.Sprintf("new %s %s C", dt, ints(pair[0])), fmt.Sprintf("new %s %s C", dt, ints(pair[1])), c, "dump $0", "dump $1")
			}
			// missing variable, malformed options
			g.emit("new f64 3 C", fmt.Sprintf("la %s fn $0 $5", op), "dump $0")
			g.emit("new f64 3 C", "new f64 3 C", fmt.Sprintf("la %s fn $0 $1 reuse=$7", op), "dump $0")
		}
		// axes: out of range, repeated, negative, different counts
		for _, ax := range [][2]string{{"3", "0"}, {"0,0", "0,1"}, {"-1", "0"}, {"0", "-1"}, {"0,1", "0"}, {"1", "2"}, {"0", "5"}, {"2,1", "0,1"}, {"1,2", "1,0"}} {
			g.emit("vset=2", "new f64 2,3,2 C", "new f64 3,2 C", fmt.Sprintf("la tdot %s $0 $1 %s %s", g.r.pick(vias), ax[0], ax[1]), "dump $0", "dump $1", "dump $2")
		}
		// the rank-4 left operand with one contraction axis (scratch-slice aliasing of TensorMul)
		for xa := 0; xa < 4; xa++ {
			for rb := 1; rb <= 4; rb++ {
				for xb := 0; xb < rb; xb++ {
					sa := []int{2, 3, 2, 3}
					sb := []int{2, 2, 2, 2}[:rb]
					sb = append([]int{}, sb...)
					sb[xb] = sa[xa]
					g.laProgram("tdot", g.r.pick(vias), "f64", sa, sb, "contig", "contig", "safe", "ok", []int{xa}, []int{xb})
				}
			}
		}
		g.laProgram("tdot", "meth", "f64", []int{2, 3, 4, 5}, []int{5, 2, 3}, "contig", "contig", "safe", "ok", []int{3}, []int{0})
		// witnesses of the findings
		g.emit("vset=0", "new f64 3,3 C", "slice $0 n,0:2", "new f64 2,2 C", "la mm meth $1 $2", "dump $3", "dump $1", "dump $2")
		g.emit("vset=2", "new f64 6 C", "slice $0 0:6:2", "new f64 6 C", "slice $2 0:6:2", "la inner meth $1 $3", "dump $1", "dump $3")
		g.emit("vset=2", "new f64 3 C", "new f64 2,3 C", "T $1 1,0", "la dot fn $0 $1", "dump $2", "dump $0", "dump $1")
	}
}
