import TensorModel.Ext.Hooks
import TensorModel.Ext.MinMax
import TensorModel.Ext.Engines
import TensorModel.Ext.History
/-! Registry of operation families (one import + one list entry per family). -/
namespace TM

def families : List Family := [minMaxFamily, enginesFamily, historyFamily]

end TM
