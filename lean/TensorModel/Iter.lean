import TensorModel.AP
/-! Model of `iterator.go:FlatIterator` (and the masked stepping built on it). -/
namespace TM

structure FlatIt where
  shape : Shape
  strides : List Int
  track : List Int
  nextIndex : Int := 0
  lastIndex : Int := 0
  size : Int
  done : Bool := false
  veclikeDim : Nat := 0
  reverse : Bool := false
  isScalar : Bool
  isVector : Bool
deriving Repr, Inhabited

def AP.isVectorLike (ap : AP) : Bool := TM.isVectorLike ap.shape && allOnes ap.strides

/-- `newFlatIterator` -/
def FlatIt.new (ap : AP) : FlatIt :=
  let vl := ap.isVectorLike
  let dim := if vl then (ap.shape.findIdx? (· != 1)).getD 0 else 0
  { shape := ap.shape, strides := ap.strides, track := ap.shape.map (fun _ => 0),
    size := totalSize ap.shape, veclikeDim := dim, isScalar := TM.isScalar ap.shape, isVector := vl }

/-- odometer step from the last axis (`ndNext` loop): returns (track, nextIndex, done). -/
def ndNextLoop : List Int → List Int → List Int → Int → (List Int × Int × Bool)
  -- lists are given reversed (last axis first); result track is reversed likewise
  | [], _, _, ni => ([], ni, false)
  | t :: ts, sh :: shs, st :: sts, ni =>
    if t + 1 == sh then
      let (ts', ni', d) := ndNextLoop ts shs sts (ni - (sh - 1) * st)
      (0 :: ts', ni', if ts.isEmpty then true else d)
    else ((t + 1) :: ts, ni + st, false)
  | ts, _, _, ni => (ts, ni, false)

def ndPrevLoop : List Int → List Int → List Int → Int → (List Int × Int × Bool)
  | [], _, _, ni => ([], ni, false)
  | t :: ts, sh :: shs, st :: sts, ni =>
    if t - 1 < 0 then
      let (ts', ni', d) := ndPrevLoop ts shs sts (ni + (sh - 1) * st)
      ((sh - 1) :: ts', ni', if ts.isEmpty then true else d)
    else ((t - 1) :: ts, ni - st, false)
  | ts, _, _, ni => (ts, ni, false)

/-- `FlatIterator.Next`: `none` = the noop error of an exhausted iterator. -/
def FlatIt.next (it : FlatIt) : FlatIt × Option Int :=
  if it.done then (it, none)
  else if it.isScalar then ({ it with done := true }, some 0)
  else if it.isVector then
    let last := it.nextIndex
    let d := it.veclikeDim
    let cur := (it.track[d]?).getD 0
    if it.reverse then
      let tr := cur - 1
      ({ it with lastIndex := last, nextIndex := last - 1, track := it.track.set d tr,
                 done := decide (tr < 0) }, some last)
    else
      let tr := cur + 1
      ({ it with lastIndex := last, nextIndex := last + 1, track := it.track.set d tr,
                 done := decide (tr ≥ it.size) }, some last)
  else
    let last := it.nextIndex
    if it.reverse then
      let (tr, ni, d) := ndPrevLoop it.track.reverse it.shape.reverse it.strides.reverse it.nextIndex
      ({ it with lastIndex := last, nextIndex := ni, track := tr.reverse, done := d }, some last)
    else
      let (tr, ni, d) := ndNextLoop it.track.reverse it.shape.reverse it.strides.reverse it.nextIndex
      ({ it with lastIndex := last, nextIndex := ni, track := tr.reverse, done := d }, some last)

/-- `FlatIterator.Reset` -/
def FlatIt.reset (it : FlatIt) : Res FlatIt :=
  if it.reverse then
    let track := it.shape.map (· - 1)
    if it.isScalar then .ok { it with done := false, track := track, nextIndex := 0 }
    else if it.isVector then
      -- `(it.shape[it.veclikeDim] - 1) * it.strides[it.veclikeDim]`
      match it.shape[it.veclikeDim]?, it.strides[it.veclikeDim]? with
      | some d, some st => .ok { it with done := false, track := track, nextIndex := (d - 1) * st }
      | _, _ => throwPanic "Reset: shape/strides[veclikeDim] out of range"
    else
      if it.strides.length < it.shape.length then throwPanic "Reset: strides[i] out of range"
      else .ok { it with done := false, track := track, nextIndex := dot (it.shape.map (· - 1)) it.strides }
  else .ok { it with done := false, nextIndex := 0, track := it.shape.map (fun _ => 0) }

def FlatIt.setReverse (it : FlatIt) : Res FlatIt := ({ it with reverse := true }).reset
def FlatIt.setForward (it : FlatIt) : Res FlatIt := ({ it with reverse := false }).reset

/-- run `Next` to exhaustion (at most `fuel` steps) collecting the offsets -/
def FlatIt.run : Nat → FlatIt → List Int × FlatIt
  | 0, it => ([], it)
  | fuel + 1, it =>
    match it.next with
    | (it', none) => ([], it')
    | (it', some i) => let (r, itf) := FlatIt.run fuel it'; (i :: r, itf)

def FlatIt.offsets (ap : AP) : List Int :=
  (FlatIt.run ((totalSize ap.shape).toNat + 1) (FlatIt.new ap)).1

end TM
