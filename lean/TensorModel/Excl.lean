import TensorModel.SInterp
/-!
  Known-defect regions (`Excl_*`): explicit decidable predicates over the *inputs* of a step that
  delimit where the implementation (and therefore M, which mirrors it) is known to deviate from S.
  `known_findings.json` refers to these by tag. A deviation from S outside these regions, or inside
  one but different from what M predicts, is a new violation.
-/
namespace TM

/-- F2 (C02): the leading axis of a stepped slice is rounded down instead of up. -/
def Excl_leadStep (shape : Shape) (sls : List (Option Sl)) : Bool :=
  match shape, sls with
  | d :: _, some s :: _ =>
    let e := if s.stop > d then d else s.stop
    decide (s.step > 1) && decide (0 ≤ s.start) && decide (s.start < e) && (e - s.start) % s.step != 0
  | _, _ => false

/-- F25 (C02): a slice whose storage window is a single cell is returned as a rank-0 scalar even if
    some axis may not be dropped (nil slice over an axis of extent one). -/
def Excl_oneCellScalar (t : Dense) (sls : List (Option Sl)) : Bool :=
  match t.ap.S t.win.len sls, axisSels sls t.ap.shape with
  | .ok (nap, _, _), .ok sels => nap.shape.isEmpty && sels.any (fun s => !s.drop)
  | _, _ => false

/-- F24 (C16): column-major vectors / scalar-equivalent shapes carry fewer strides than axes. -/
def Excl_shortStrides (t : Dense) : Bool := t.ap.strides.length < t.ap.shape.length

/-- F5 (C03/C04): physically transposing a view gathers into the first `size` cells of its window. -/
def Excl_transposeView (t : Dense) : Bool :=
  t.view && t.old.isSome && !isVector t.ap.shape && !isScalar t.ap.shape

/-- F6 (C03/C16): physically transposing a column-major tensor stores the row-major listing under
    column-major strides. -/
def Excl_transposeCol (t : Dense) : Bool :=
  t.ap.o.col && t.old.isSome && !isVector t.ap.shape && !isScalar t.ap.shape

/-- F27 (C04/C16): a view whose strides are not the default ones of its shape but which is flagged
    contiguous and has no pending transpose (e.g. `tᵀ[:]`, `tᵀ[0:2]`): `RequiresIterator` is false,
    so Materialize / Copy / arithmetic read its raw storage. -/
def Excl_contigFlagWrong (v : Dense) : Bool :=
  v.view && !v.ap.o.nonContig && v.old.isNone && v.win.len != 1 && !isScalar v.ap.shape &&
    v.ap.strides != Dense.defaultStrides v.ap.o.col v.ap.shape

/-- F3 (C13): `Shape.S` never rounds a stepped length up (`AP.S` does, on every axis but the first). -/
def Excl_shapeSFloor (shape : Shape) (sls : List (Option Sl)) : Bool :=
  (List.zip shape (sls ++ List.replicate shape.length none)).any (fun (d, sl) =>
    match sl with
    | some s =>
      let e := if s.stop > d then d else s.stop
      decide (s.step > 1) && decide (0 ≤ s.start) && decide (s.start < e) && (e - s.start) % s.step != 0
    | none => false)

/-- F16 (what remains after the repairs of `Reshape` and `Transpose()`, which compact such a tensor): a tensor that is
    not a view but whose storage window is longer than its size (a clone of a non-contiguous view) is refused by
    `handleFuncOpts` as `WithReuse` / `WithIncr` destination (`reuse.len() != expShape.TotalSize()`). -/
def Excl_reshapeLongWindow (t : Dense) : Bool :=
  !t.view && (t.win.len : Int) != totalSize t.ap.shape

/-- F35 (C16/C07): a reuse tensor whose data order differs from the operand's gets its order *flag*
    toggled by `handleFuncOpts` (strides untouched) and is then filled in the operand's storage
    order on the contiguous path: the result's elements are permuted. Only `WithReuse`: an increment tensor
    (`WithIncr`) keeps its flag and, its order differing from the operand's, is walked with its own iterator by every
    `prepData*` (the unary one included, since its repair). -/
def Excl_reuseOrderFlip (t : Dense) (reuse : Option Dense) : Bool :=
  match reuse with
  | some r => r.ap.o.col != t.ap.o.col && t.win.len != 1
  | none => false

/-- F39 (C19/C04): a physical transposition (explicit, or implied by `Reshape` / a second `T`) of a
    tensor whose storage is shared with other live tensors (its views, its parent) moves the cells
    under them: their elements change although they were not the destination. -/
def Excl_transposeShared (others : List Dense) (t : Dense) : Bool :=
  t.old.isSome && !isVector t.ap.shape && !isScalar t.ap.shape && others.any (fun o => o.win.buf == t.win.buf)

/-- does `T axes` on `t` run the physical transpose first? (pending, not vector, not "reversed") -/
def T_materialises (t : Dense) (axes : List Int) : Bool :=
  match t.old, t.ap.T axes with
  | some _, .ok (.ok _ ax) =>
    let tw := t.tw.getD []
    !isVector t.ap.shape &&
      !(ax.length == tw.length && (List.range ax.length).all (fun i => match ax[i]? with
          | some a => decide (0 ≤ a) && getI? tw a == some (Int.ofNat i)
          | none => false))
  | _, _ => false

end TM
