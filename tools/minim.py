#!/usr/bin/env python3
"""
tools/minim.py <program-file> <kind: spec|corr>
Developer aid: shrinks a failing line-protocol program further than ./check's built-in delta debugging does, by
also dropping tensor-producing steps (the `$k` references of the later steps are renumbered). Needs the driver and
a harness binary built by ./check (.work/dev/harness or any .work/*/harness).
"""
import glob, json, os, re, subprocess, sys, tempfile
V = os.path.dirname(os.path.dirname(os.path.abspath(__file__)))
H = sorted(glob.glob(V + '/.work/*/harness'), key=os.path.getmtime)[-1]
D = V + '/lean/.lake/build/bin/tmdriver'
NONPROD = {"T", "UT", "transpose", "at", "atbox", "setat", "memset", "zero", "copy", "copyto", "reshape", "iter", "dump", "calcS",
           "calcT", "scribble", "pool", "gc", "ret", "mdump", "harden", "soften", "mpred", "vset", "own"}
TMP = tempfile.mkdtemp(prefix="minim")
KIND = sys.argv[2]
WANT = None

def bad(steps):
    prog = 'X1 ; ' + ' ; '.join(steps)
    open(TMP + '/p', 'w').write(prog + '\n')
    subprocess.run(f"{D} < {TMP}/p > {TMP}/m && {H} run -progs {TMP}/p -model {TMP}/m -out {TMP}/r", shell=True,
                   stdout=subprocess.DEVNULL, stderr=subprocess.DEVNULL)
    try:
        lines = open(TMP + '/r').read().splitlines()
    except OSError:
        return None
    for l in lines:
        d = json.loads(l)
        if 'summary' in d or d['kind'] != KIND or 'badprog' in d['impl']:
            continue
        if WANT is not None and d['detail'].split('[')[0].split(':')[0] != WANT:
            continue
        if set(d.get('tags') or []) and d.get('corr_ok', True):
            continue
        return d
    return None

def producers(steps):
    return [s.split()[0] not in NONPROD for s in steps]

def drop(steps, i):
    """steps without step i; None if a later step refers to the variable step i produces"""
    prod = producers(steps)
    if not prod[i]:
        return steps[:i] + steps[i + 1:]
    var = sum(prod[:i])
    out = steps[:i]
    for s in steps[i + 1:]:
        refs = [int(x) for x in re.findall(r'\$(\d+)', s)]
        if var in refs:
            return None
        out.append(re.sub(r'\$(\d+)', lambda m: '$%d' % (int(m.group(1)) - (int(m.group(1)) > var)), s))
    return out

prog = open(sys.argv[1]).read().strip()
steps = prog.split(' ; ')[1:]
d = bad(steps)
assert d, "does not reproduce"
WANT = d['detail'].split('[')[0].split(':')[0]
steps = steps[:d['step'] + 1]
assert bad(steps)
changed = True
while changed:
    changed = False
    for i in range(len(steps) - 2, -1, -1):
        if steps[i].startswith('vset'):
            continue
        c = drop(steps, i)
        if c is not None and bad(c):
            steps = c
            changed = True
d = bad(steps)
print(' ; '.join(steps))
print(d['detail'])
print('impl ', d['impl'][:400])
print('model', d['model'][:400])
print('spec ', str(d.get('spec'))[:400])
print('tags ', d.get('tags'))
