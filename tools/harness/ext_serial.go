package main

// C14 — serialisation family: `rt <gob|npy|csv|pb|fb> $a [mask=<bits>]`
//
// Encodes $a with the named format into a byte buffer and decodes the bytes into a NEW tensor
// (a variable is pushed even when a stage fails: the slot is then empty). Output fields:
//   r     ok|err|panic   outcome of the whole round trip (the failing stage's outcome)
//   enc   ok|err|panic   outcome of the encoder alone
//   back  1|0|-          1: written and read back, 0: written but the reader failed, -: not written
//   dt    element type of the decoded tensor (- when there is none)
//   lmask mask of the decoded tensor listed by coordinate (row-major), - when it has none
//   velems (only with mask=) decoded elements at the coordinates the source mask leaves valid
//   npyck/npyhdr/npynl/npybody (npy only) what an independent reader sees in the written bytes
// `mask=<bits>` first gives $a a mask: bit k belongs to the k-th coordinate in row-major order.

import (
	"bytes"
	"encoding/binary"
	"encoding/gob"
	"fmt"
	"math"
	"reflect"
	"strconv"
	"strings"

	"gorgonia.org/tensor"
)

func init() {
	extSteps["rt"] = stepRT
	// the fill value written for masked cells
	extraOps["fill"] = func(a []interface{}) (interface{}, error) {
		if len(a) != 1 {
			return nil, fmt.Errorf("fill: arity")
		}
		if m, ok := a[0].(errMark); ok {
			return m, nil
		}
		d := dtOfGo(a[0])
		if d == nil {
			return nil, fmt.Errorf("fill: no dtype for %T", a[0])
		}
		return tensor.New(tensor.Of(d.dt), tensor.WithShape(1)).FillValue(), nil
	}
}

func dtOfGo(v interface{}) *dtInfo {
	t := reflect.TypeOf(v)
	for i := range dtypes {
		if dtypes[i].dt.Type == t {
			return &dtypes[i]
		}
	}
	return nil
}

// logicalIndex is the storage index the library itself assigns to a coordinate.
func logicalIndex(t *tensor.Dense, c []int) (i int, ok bool) {
	defer func() {
		if r := recover(); r != nil {
			ok = false
		}
	}()
	i, err := tensor.Ltoi(t.Shape(), t.Strides(), c...)
	return i, err == nil
}

func stepRT(p *prog, idx int, toks []string) *rec {
	if len(toks) < 3 {
		p.push(nil, nil)
		return simple("badprog")
	}
	format := toks[1]
	src, sdt := p.get(toks[2])
	if src == nil {
		p.push(nil, sdt)
		return simple("skip")
	}
	switch format {
	case "gob", "npy", "csv", "pb", "fb":
	default:
		p.push(nil, sdt)
		return simple("badprog")
	}
	var bits string
	hasMask := false
	for _, o := range toks[3:] {
		if strings.HasPrefix(o, "mask=") && len(toks) == 4 && strings.Trim(o[5:], "01") == "" {
			bits, hasMask = o[5:], true
		} else {
			p.push(nil, sdt)
			return simple("badprog")
		}
	}
	coords := allCoords(src.Shape())
	if hasMask {
		_, n, _ := tensor.VerifWindow(src)
		if len(bits) != len(coords) {
			p.push(nil, sdt)
			return simple("skip")
		}
		m := make([]bool, n)
		for k, c := range coords {
			i, ok := logicalIndex(src, c)
			if !ok || i < 0 || i >= n {
				p.push(nil, sdt)
				return simple("skip")
			}
			m[i] = bits[k] == '1'
		}
		src.SetMask(m)
	}

	r := newRec()
	var buf bytes.Buffer
	var raw []byte
	enc := guard(func() error {
		switch format {
		case "gob":
			return gob.NewEncoder(&buf).Encode(src)
		case "npy":
			return src.WriteNpy(&buf)
		case "csv":
			return src.WriteCSV(&buf)
		case "pb":
			b, err := src.PBEncode()
			raw = b
			return err
		case "fb":
			b, err := src.FBEncode()
			raw = b
			return err
		}
		return nil
	})
	r.fields["enc"] = enc
	if format == "npy" {
		npyCheck(r, buf.Bytes(), enc == "ok", src, sdt)
	}
	if enc != "ok" {
		p.push(nil, sdt)
		r.fields["r"], r.fields["back"], r.fields["dt"], r.fields["lmask"] = enc, "-", "-", "-"
		r.stop = enc == "panic"
		return r
	}
	// the encoded bytes are the caller's: another tensor is encoded in the same format before they are decoded (an encoder
	// that hands out memory it will use again would overwrite them)
	guard(func() error {
		other := tensor.New(tensor.WithShape(3, 2), tensor.WithBacking([]float64{91, 92, 93, 94, 95, 96}))
		var scratch bytes.Buffer
		switch format {
		case "gob":
			return gob.NewEncoder(&scratch).Encode(other)
		case "npy":
			return other.WriteNpy(&scratch)
		case "csv":
			return other.WriteCSV(&scratch)
		case "pb":
			_, err := other.PBEncode()
			return err
		case "fb":
			_, err := other.FBEncode()
			return err
		}
		return nil
	})
	t2 := new(tensor.Dense)
	dec := guard(func() error {
		switch format {
		case "gob":
			return gob.NewDecoder(&buf).Decode(t2)
		case "npy":
			return t2.ReadNpy(&buf)
		case "csv":
			return t2.ReadCSV(&buf, tensor.As(src.Dtype()))
		case "pb":
			return t2.PBDecode(raw)
		case "fb":
			return t2.FBDecode(raw)
		}
		return nil
	})
	r.fields["r"] = dec
	if dec != "ok" {
		p.push(nil, sdt)
		r.fields["back"], r.fields["dt"], r.fields["lmask"] = "0", "-", "-"
		r.stop = dec == "panic"
		return r
	}
	ddt := dtOf(t2.Dtype())
	r.fields["back"] = "1"
	if ddt == nil {
		r.fields["dt"] = "?"
		ddt = sdt
	} else {
		r.fields["dt"] = ddt.name
	}
	r.dt = ddt
	p.push(t2, ddt)
	// logical mask of the decoded tensor
	r.fields["lmask"] = "-"
	if m, _ := tensor.VerifMaskInfo(t2); len(m) > 0 && t2.IsMasked() {
		var sb strings.Builder
		for _, c := range allCoords(t2.Shape()) {
			i, ok := logicalIndex(t2, c)
			switch {
			case !ok || i < 0 || i >= len(m):
				sb.WriteByte('x')
			case m[i]:
				sb.WriteByte('1')
			default:
				sb.WriteByte('0')
			}
		}
		r.fields["lmask"] = sb.String()
	}
	if hasMask {
		var ve []interface{}
		for k, c := range coords {
			if bits[k] != '1' {
				ve = append(ve, atSafe(t2, c))
			}
		}
		r.vals["velems"] = ve
	}
	return r
}

// ---------------------------------------------------------------------------------------------
// Independent .npy reader (format version 1.0): magic, version, little-endian uint16 header length,
// a Python dict literal with the keys descr / fortran_order / shape, then the elements in C order.
// Nothing of the library's reader is used.

type npyFile struct {
	descr   string
	fortran bool
	shape   []int
	body    []byte
	hlen    int
	nl      bool
}

func dictValue(h, key string) (string, bool) {
	i := strings.Index(h, "'"+key+"'")
	if i < 0 {
		return "", false
	}
	rest := strings.TrimLeft(h[i+len(key)+2:], " ")
	if !strings.HasPrefix(rest, ":") {
		return "", false
	}
	return strings.TrimLeft(rest[1:], " "), true
}

func parseNpy(b []byte) (*npyFile, string) {
	if len(b) < 10 || string(b[:6]) != "\x93NUMPY" {
		return nil, "magic"
	}
	if b[6] != 1 || b[7] != 0 {
		return nil, "version"
	}
	f := &npyFile{hlen: int(binary.LittleEndian.Uint16(b[8:10]))}
	if len(b) < 10+f.hlen {
		return nil, "hdr"
	}
	h := string(b[10 : 10+f.hlen])
	f.body = b[10+f.hlen:]
	f.nl = strings.HasSuffix(h, "\n")
	d, ok := dictValue(h, "descr")
	if !ok || len(d) < 2 || d[0] != '\'' || strings.IndexByte(d[1:], '\'') < 0 {
		return nil, "hdr"
	}
	f.descr = d[1 : 1+strings.IndexByte(d[1:], '\'')]
	o, ok := dictValue(h, "fortran_order")
	switch {
	case ok && strings.HasPrefix(o, "False"):
	case ok && strings.HasPrefix(o, "True"):
		f.fortran = true
	default:
		return nil, "hdr"
	}
	s, ok := dictValue(h, "shape")
	if !ok || !strings.HasPrefix(s, "(") || strings.IndexByte(s, ')') < 0 {
		return nil, "hdr"
	}
	items := strings.Split(s[1:strings.IndexByte(s, ')')], ",")
	for k, it := range items {
		it = strings.TrimSpace(it)
		if it == "" {
			// only a trailing comma (or the empty tuple) may leave an empty item
			if k != len(items)-1 || (len(items) > 2) {
				return nil, "hdr"
			}
			continue
		}
		n, err := strconv.Atoi(it)
		if err != nil || n < 0 {
			return nil, "hdr"
		}
		f.shape = append(f.shape, n)
	}
	if len(items) == 1 && len(f.shape) == 1 {
		return nil, "hdr" // "(3)" is not a tuple
	}
	return f, ""
}

// npyItem decodes one little-endian element of the given descr (without the byte-order mark).
func npyItem(code string, b []byte) (interface{}, int) {
	le := binary.LittleEndian
	switch code {
	case "b1":
		return b[0] != 0, 1
	case "i1":
		return int8(b[0]), 1
	case "i2":
		return int16(le.Uint16(b)), 2
	case "i4":
		return int32(le.Uint32(b)), 4
	case "i8":
		return int64(le.Uint64(b)), 8
	case "u1":
		return b[0], 1
	case "u2":
		return le.Uint16(b), 2
	case "u4":
		return le.Uint32(b), 4
	case "u8":
		return le.Uint64(b), 8
	case "f4":
		return math.Float32frombits(le.Uint32(b)), 4
	case "f8":
		return math.Float64frombits(le.Uint64(b)), 8
	case "c8":
		return complex(math.Float32frombits(le.Uint32(b)), math.Float32frombits(le.Uint32(b[4:]))), 8
	case "c16":
		return complex(math.Float64frombits(le.Uint64(b)), math.Float64frombits(le.Uint64(b[8:]))), 16
	}
	return nil, 0
}

var npyCodeOf = map[string]string{"b": "b1", "i": "i8", "i8": "i1", "i16": "i2", "i32": "i4", "i64": "i8",
	"u": "u8", "u8": "u1", "u16": "u2", "u32": "u4", "u64": "u8", "f32": "f4", "f64": "f8", "c64": "c8", "c128": "c16"}

func npyItemSize(code string) int {
	n, _ := strconv.Atoi(code[1:])
	return n
}

func npyCheck(r *rec, b []byte, written bool, src *tensor.Dense, sdt *dtInfo) {
	r.fields["npyck"], r.fields["npyhdr"], r.fields["npynl"] = "-", "-", "-"
	if !written {
		return
	}
	f, why := parseNpy(b)
	if f == nil {
		r.fields["npyck"] = "bad:" + why
		return
	}
	ord := "C"
	if f.fortran {
		ord = "F"
	}
	r.fields["npyhdr"] = f.descr + ":" + ord + ":" + showInts(f.shape)
	r.fields["npynl"] = b01(f.nl)
	want := npyCodeOf[sdt.name]
	size := 1
	for _, d := range f.shape {
		size *= d
	}
	ck := "ok"
	switch {
	case (10+f.hlen)%16 != 0:
		ck = "bad:align"
	case f.descr != "<"+want && !(npyItemSize(want) == 1 && f.descr == "|"+want):
		ck = "bad:descr"
	case f.fortran:
		ck = "bad:fortran"
	case showInts(f.shape) != showInts(src.Shape()):
		ck = "bad:shape"
	case len(f.body) != size*npyItemSize(want):
		ck = "bad:len"
	}
	r.fields["npyck"] = ck
	if ck == "bad:descr" || ck == "bad:align" {
		return
	}
	r.dt = sdt
	var body []interface{}
	for off := 0; off+npyItemSize(want) <= len(f.body); {
		v, n := npyItem(want, f.body[off:])
		body = append(body, reflect.ValueOf(v).Convert(sdt.dt.Type).Interface())
		off += n
	}
	r.vals["npybody"] = body
}
