package main

import (
	"fmt"
	"strings"
)

var numDtypes = []string{"i", "i8", "i16", "i32", "i64", "u", "u8", "u16", "u32", "u64", "f32", "f64", "c64", "c128"}
var ordDtypes = []string{"i", "i8", "i16", "i32", "i64", "u", "u8", "u16", "u32", "u64", "f32", "f64", "str"}
var eqDtypes = []string{"b", "i", "i8", "i16", "i32", "i64", "u", "u8", "u16", "u32", "u64", "f32", "f64", "c64", "c128", "str"}
var arithOps = []string{"add", "sub", "mul", "div", "mod", "pow"}
var cmpOps = []string{"gt", "gte", "lt", "lte", "eq", "ne"}

var opShapes = [][]int{{}, {1}, {1, 1}, {3}, {4, 1}, {1, 3}, {2, 3}, {3, 2}, {2, 3, 2}, {2, 1, 3, 2}, {2, 2}, {5}}

var layouts = []string{"contig", "lazyT", "sliced", "stepped", "mat"}

// operand appends the steps building a tensor of shape sh with the given layout class; returns the
// variable index of the operand. nv is the next free variable index.
func (g *gen) operand(steps *[]string, nv *int, dt string, sh []int, layout string) int {
	add := func(s string) { *steps = append(*steps, s) }
	if size(sh) == 1 && !strings.HasPrefix(layout, "col") {
		layout = "contig" // one-cell views become scalars (finding F25); keep them out of this matrix
	}
	if size(sh) == 1 && (layout == "colsliced" || layout == "colstepped") {
		layout = "colmajor"
	}
	switch layout {
	case "lazyT":
		if len(sh) < 2 {
			break
		}
		p := g.randPerm(len(sh))
		// source shape src with src[p[i]] = sh[i]
		src := make([]int, len(sh))
		for i, a := range p {
			src[a] = sh[i]
		}
		add(fmt.Sprintf("new %s %s C", dt, ints(src)))
		v := *nv
		*nv++
		add(fmt.Sprintf("T $%d %s", v, ints(p)))
		return v
	case "sliced", "mat":
		big := make([]int, len(sh))
		spec := make([]string, len(sh))
		for i, d := range sh {
			if d == 1 {
				big[i] = 1
				spec[i] = "n"
			} else {
				big[i] = d + 1
				spec[i] = fmt.Sprintf("1:%d", d+1)
			}
		}
		add(fmt.Sprintf("new %s %s C", dt, ints(big)))
		p := *nv
		*nv++
		add(fmt.Sprintf("slice $%d %s", p, strings.Join(spec, ",")))
		v := *nv
		*nv++
		if layout == "mat" {
			add(fmt.Sprintf("mat $%d", v))
			v = *nv
			*nv++
		}
		return v
	case "stepped":
		big := make([]int, len(sh))
		spec := make([]string, len(sh))
		for i, d := range sh {
			if d == 1 {
				big[i] = 1
				spec[i] = "n"
			} else {
				big[i] = 2 * d
				spec[i] = fmt.Sprintf("0:%d:2", 2*d)
			}
		}
		add(fmt.Sprintf("new %s %s C", dt, ints(big)))
		p := *nv
		*nv++
		add(fmt.Sprintf("slice $%d %s", p, strings.Join(spec, ",")))
		v := *nv
		*nv++
		return v
	case "colsliced", "colstepped": // a view with gaps of a column-major parent
		big := make([]int, len(sh))
		spec := make([]string, len(sh))
		for i, d := range sh {
			switch {
			case d == 1:
				big[i] = 1
				spec[i] = "n"
			case layout == "colsliced":
				big[i] = d + 1
				spec[i] = fmt.Sprintf("1:%d", d+1)
			default:
				big[i] = 2 * d
				spec[i] = fmt.Sprintf("0:%d:2", 2*d)
			}
		}
		add(fmt.Sprintf("new %s %s Fraw", dt, ints(big)))
		p := *nv
		*nv++
		add(fmt.Sprintf("slice $%d %s", p, strings.Join(spec, ",")))
		v := *nv
		*nv++
		return v
	case "colmajor":
		add(fmt.Sprintf("new %s %s Fraw", dt, ints(sh)))
		v := *nv
		*nv++
		return v
	case "colconv":
		add(fmt.Sprintf("new %s %s Fconv", dt, ints(sh)))
		v := *nv
		*nv++
		return v
	case "colT": // lazily transposed column-major tensor
		if len(sh) < 2 {
			break
		}
		p := g.randPerm(len(sh))
		src := make([]int, len(sh))
		for i, a := range p {
			src[a] = sh[i]
		}
		add(fmt.Sprintf("new %s %s Fraw", dt, ints(src)))
		v := *nv
		*nv++
		add(fmt.Sprintf("T $%d %s", v, ints(p)))
		return v
	}
	add(fmt.Sprintf("new %s %s C", dt, ints(sh)))
	v := *nv
	*nv++
	return v
}

func vsetFor(op string, dt string, r *rng) int {
	if op == "minb" || op == "maxb" {
		return 2 + r.intn(2)
	}
	isInt := !(strings.HasPrefix(dt, "f") || strings.HasPrefix(dt, "c"))
	if (op == "div" || op == "mod") && isInt {
		return 2 // no zero divisors for integer division (outside the specification's domain)
	}
	switch r.intn(4) {
	case 0:
		return 1 // special values: overflow, negatives, zero, non-finite
	case 1:
		return 3 // ties and negatives
	}
	return 2
}

// binProgram emits one program: operands, the operation, dumps of the result and of every operand.
func (g *gen) binProgram(op, dt, kind, via string, sh []int, la, lb string, mode string, destLayout string) {
	var steps []string
	nv := 0
	vs := vsetFor(op, dt, g.r)
	if g.forceVset != 0 {
		vs = g.forceVset
	}
	steps = append(steps, fmt.Sprintf("vset=%d", vs))
	var A, B string
	var operands []int
	switch kind {
	case "TT":
		a := g.operand(&steps, &nv, dt, sh, la)
		b := g.operand(&steps, &nv, dt, sh, lb)
		A, B = fmt.Sprintf("$%d", a), fmt.Sprintf("$%d", b)
		operands = []int{a, b}
	case "TS":
		a := g.operand(&steps, &nv, dt, sh, la)
		A, B = fmt.Sprintf("$%d", a), fmt.Sprintf("#k%d", 2+g.r.intn(3))
		if g.forceLit != "" {
			B = g.forceLit
		}
		operands = []int{a}
	case "ST":
		b := g.operand(&steps, &nv, dt, sh, lb)
		A, B = fmt.Sprintf("#k%d", 2+g.r.intn(3)), fmt.Sprintf("$%d", b)
		if g.forceLit != "" {
			A = g.forceLit
		}
		operands = []int{b}
	}
	opts := ""
	switch mode {
	case "safe":
	case "unsafe":
		opts = " unsafe"
	case "same":
		opts = " same"
	case "reuse", "incr", "reuse-same":
		d := g.operand(&steps, &nv, dt, sh, destLayout)
		operands = append(operands, d)
		if mode == "incr" {
			opts = fmt.Sprintf(" incr=$%d", d)
		} else {
			opts = fmt.Sprintf(" reuse=$%d", d)
		}
		if mode == "reuse-same" {
			opts += " same"
		}
	case "unsafe-reuse":
		// both options at once: the reuse tensor is the destination, the operands stay as they are
		d := g.operand(&steps, &nv, dt, sh, destLayout)
		operands = append(operands, d)
		opts = fmt.Sprintf(" unsafe reuse=$%d", d)
	case "reuse-bool":
		steps = append(steps, fmt.Sprintf("new b %s C", ints(sh)))
		d := nv
		nv++
		operands = append(operands, d)
		opts = fmt.Sprintf(" reuse=$%d", d)
	case "reuse=a":
		opts = fmt.Sprintf(" reuse=$%d", operands[0])
	case "reuse=b":
		opts = fmt.Sprintf(" reuse=$%d", operands[len(operands)-1])
	case "reuse=a-same":
		opts = fmt.Sprintf(" reuse=$%d same", operands[0])
	case "reuse=b-same":
		opts = fmt.Sprintf(" reuse=$%d same", operands[len(operands)-1])
	case "incr=a":
		opts = fmt.Sprintf(" incr=$%d", operands[0])
	}
	kw := "bin"
	if op == "minb" || op == "maxb" {
		kw = "mmb"
	}
	steps = append(steps, fmt.Sprintf("%s %s %s %s %s%s", kw, op, via, A, B, opts))
	res := nv
	nv++
	steps = append(steps, fmt.Sprintf("dump $%d", res))
	for _, o := range operands {
		steps = append(steps, fmt.Sprintf("dump $%d", o))
	}
	// parents of views (to see writes outside a view)
	if nv > 0 {
		steps = append(steps, "dump $0")
	}
	g.emit(steps...)
}

// kernelMatrix: one program for every generated kernel variant an operation reaches through the engine glue:
// op x element type x {TT, TS, ST} x {raw path, iterator path} x option mode. Fixed (2,3) shape, value sets with
// ties at the scalar operands (2..4) so that <, <=, ==, min/max and the operand order of - / are distinguishable.
func (g *gen) kernelMatrix(ops []string, cmp bool, modes []string) {
	for _, op := range ops {
		dts := numDtypes
		if cmp {
			dts = ordDtypes
			if op == "eq" || op == "ne" {
				dts = eqDtypes
			}
		}
		for _, dt := range dts {
			for _, kind := range []string{"TT", "TS", "ST"} {
				for _, path := range []string{"contig", "sliced"} {
					for _, mode := range modes {
						g.forceVset = 2
						lits := []string{""}
						if cmp && dt != "b" {
							// ties: the value set -2..2 holds both 0 and 1 in the whole tensor and in the view
							g.forceVset = 3
							if kind != "TT" {
								lits = []string{"#k0", "#k1"}
							}
						}
						for _, l := range lits {
							g.forceLit = l
							g.binProgram(op, dt, kind, "fn", []int{2, 3}, path, path, mode, "contig")
						}
						if cmp && (dt == "f32" || dt == "f64") {
							// unordered operands: NaN against NaN, numbers and infinities (value set 1) - `>=` is not `!(<)`
							g.forceVset, g.forceLit = 1, ""
							// sixteen cells: every special value (NaN, both infinities, both zeros) meets a number
							g.binProgram(op, dt, kind, "fn", []int{4, 4}, path, path, mode, "contig")
						}
						if cmp && dt != "b" && path == "contig" {
							// the one-element special cases of the engine glue: element -2 against -2 (tie) and 0
							for _, l := range []string{"#k-2", "#k0"} {
								if kind == "TT" && l != "#k0" {
									continue
								}
								g.forceLit = l
								g.binProgram(op, dt, kind, "fn", []int{1}, path, path, mode, "contig")
							}
						}
						g.forceVset, g.forceLit = 0, ""
					}
				}
			}
		}
	}
}

// scalarTensorMatrix: the scalar operand is a rank-0 *tensor* (plain, a one-cell view, a view / clone of a view
// sitting on a storage window of several cells) on either side of a one-element or larger tensor, in every
// option mode; every tensor of the program is dumped afterwards (the scalar tensor and its parent must be untouched).
func (g *gen) scalarTensorMatrix(ops []string, dts []string, modes []string) {
	forms := [][]string{
		{"new %s - C"},
		{"new %s 6 C", "slice $0 5"},
		{"new %s 3,2 C", "slice $0 0:3:3,0:1"},
		{"new %s 3,2 C", "slice $0 0:3:3,0:1", "clone $1"},
	}
	others := []struct {
		sh     []int
		layout string
	}{{[]int{1}, "contig"}, {[]int{1, 1, 1}, "contig"}, {[]int{3}, "contig"}, {[]int{2, 3}, "contig"}, {[]int{2, 3}, "sliced"}, {[]int{3, 2}, "lazyT"}}
	for _, op := range ops {
		for _, mode := range modes {
			for fi, form := range forms {
				for _, o := range others {
					for _, left := range []bool{true, false} {
						dt := g.r.pick(dts)
						steps := []string{"vset=2"}
						nv := 0
						for _, f := range form {
							if strings.Contains(f, "%s") {
								f = fmt.Sprintf(f, dt)
							}
							steps = append(steps, f)
							nv++
						}
						sc := nv - 1
						t := g.operand(&steps, &nv, dt, o.sh, o.layout)
						opts := ""
						switch mode {
						case "unsafe":
							opts = " unsafe"
						case "same":
							opts = " same"
						case "reuse", "incr", "reuse-same":
							d := g.operand(&steps, &nv, dt, o.sh, "contig")
							opts = fmt.Sprintf(" %s=$%d", map[bool]string{true: "incr", false: "reuse"}[mode == "incr"], d)
							if mode == "reuse-same" {
								opts += " same"
							}
						case "reuse=scalar":
							if fi != 0 && fi != 3 {
								continue
							}
							opts = fmt.Sprintf(" reuse=$%d", sc)
						}
						kw := "bin"
						if op == "minb" || op == "maxb" {
							kw = "mmb"
						}
						a, b := fmt.Sprintf("$%d", sc), fmt.Sprintf("$%d", t)
						if !left {
							a, b = b, a
						}
						steps = append(steps, fmt.Sprintf("%s %s fn %s %s%s", kw, op, a, b, opts))
						nv++
						for v := nv - 1; v >= 0; v-- {
							steps = append(steps, fmt.Sprintf("dump $%d", v))
						}
						g.emit(steps...)
					}
				}
			}
		}
	}
}

func (g *gen) pickShape() []int { return opShapes[g.r.intn(len(opShapes))] }

// C06: elementwise arithmetic — coordinate-wise, exact, layout-blind.
func genC06(g *gen) {
	n := 8
	if g.thorough() {
		n = 200
	}
	g.kernelMatrix(arithOps, false, []string{"safe", "unsafe", "reuse", "incr"})
	g.scalarTensorMatrix([]string{"sub", "mul", "div", "minb"}, []string{"f64", "i32", "c64", "u8", "i64"}, []string{"safe"})
	// systematic: every op x dtype x kind x via, with rotating layouts/shapes
	for _, op := range arithOps {
		for _, dt := range numDtypes {
			for _, kind := range []string{"TT", "TS", "ST"} {
				for _, via := range []string{"fn", "meth"} {
					for k := 0; k < n; k++ {
						g.binProgram(op, dt, kind, via, g.pickShape(), g.r.pick(layouts), g.r.pick(layouts), "safe", "contig")
					}
				}
			}
		}
	}
	// elementwise minimum / maximum (NaN-free value sets: the kernels' NaN treatment depends on the variant)
	for _, op := range []string{"minb", "maxb"} {
		for _, dt := range ordDtypes {
			for _, kind := range []string{"TT", "TS", "ST"} {
				for _, via := range []string{"fn", "meth"} {
					for k := 0; k < n; k++ {
						g.binProgram(op, dt, kind, via, g.pickShape(), g.r.pick(layouts), g.r.pick(layouts), "safe", "contig")
					}
				}
			}
		}
		g.binProgram(op, "c128", "TT", "fn", []int{2, 3}, "contig", "contig", "safe", "contig")
		g.binProgram(op, "b", "TS", "fn", []int{2, 3}, "contig", "contig", "safe", "contig")
	}
	// every layout pair on a fixed set of shapes (layout-blindness)
	for _, la := range layouts {
		for _, lb := range layouts {
			for _, sh := range opShapes {
				for _, op := range []string{"sub", "div", "add"} {
					g.binProgram(op, g.r.pick([]string{"f64", "i32", "f32", "c128", "u8"}), "TT", "fn", sh, la, lb, "safe", "contig")
				}
			}
		}
	}
	// refusals: unsupported element types, mismatched types, mismatched shapes
	for _, op := range arithOps {
		for _, dt := range []string{"b", "str"} {
			g.binProgram(op, dt, "TT", "fn", []int{2, 3}, "contig", "contig", "safe", "contig")
			g.binProgram(op, dt, "TS", "fn", []int{2, 3}, "contig", "contig", "safe", "contig")
		}
		g.emit("new f64 2,3 C", "new f32 2,3 C", fmt.Sprintf("bin %s fn $0 $1", op), "dump $0", "dump $1")
		g.emit("new f64 2,3 C", "new f64 3,2 C", fmt.Sprintf("bin %s fn $0 $1", op), "dump $0", "dump $1")
		g.emit("new f64 2,3 C", "new f64 2,4 C", fmt.Sprintf("bin %s meth $0 $1", op), "dump $0", "dump $1")
		g.emit("new i32 2,3 C", fmt.Sprintf("bin %s fn $0 #k2:f64", op), "dump $0")
		g.emit("new i32 2,3 C", fmt.Sprintf("bin %s fn #k2:i64 $0", op), "dump $0")
	}
}

// C07: option modes.
func genC07(g *gen) {
	n := 3
	if g.thorough() {
		n = 60
	}
	modes := []string{"safe", "unsafe", "reuse", "incr", "reuse=a", "reuse=b", "incr=a"}
	dests := []string{"contig", "sliced", "contig", "lazyT"}
	g.kernelMatrix(arithOps, false, []string{"safe", "unsafe", "reuse", "incr"})
	g.kernelMatrix(cmpOps, true, []string{"safe", "same", "unsafe", "reuse-bool", "reuse-same"})
	g.scalarTensorMatrix([]string{"sub", "mul", "maxb"}, []string{"f64", "i32", "c64", "u8", "i64"}, []string{"safe", "unsafe", "reuse", "incr", "reuse=scalar"})
	g.orderMismatchMatrix()
	// what a refused call leaves behind: an operation refused for its destination (wrong size / wrong type) is
	// followed by operations in every mode, products with destinations included - the option record of the refused
	// call goes back to the library's pool and must not be seen by the calls that follow
	for _, dt := range []string{"f64", "f32"} {
		for _, bad := range []string{fmt.Sprintf("new %s 3 C", dt), fmt.Sprintf("new %s 2,3 C", dt), "new i32 2,2 C"} {
			for _, refusedMode := range []string{"reuse", "incr"} {
				for _, op := range []string{"add", "mul"} {
					g.emit("vset=2", fmt.Sprintf("new %s 2,2 C", dt), fmt.Sprintf("new %s 2,2 C", dt), bad,
						fmt.Sprintf("bin %s fn $0 $1 %s=$2", op, refusedMode), "dump $2",
						fmt.Sprintf("new %s 2,2 C", dt), "la mm fn $0 $1 incr=$4", "dump $4", "dump $0", "dump $1",
						fmt.Sprintf("new %s 2 C", dt), fmt.Sprintf("new %s 2 C", dt), "la mv fn $0 $6 incr=$7", "dump $7",
						fmt.Sprintf("new %s 2,2 C", dt), "la outer fn $6 $6 incr=$9", "dump $9",
						fmt.Sprintf("new %s 2,2 C", dt), "bin sub fn $0 $1 incr=$11", "dump $11",
						fmt.Sprintf("new %s 2,2 C", dt), "bin sub fn $0 $1 reuse=$13", "dump $13", "bin mul fn $0 $1", "dump $15", "dump $0", "dump $1")
				}
			}
		}
	}
	g.scalarTensorMatrix([]string{"lt", "gte"}, []string{"f64", "i32", "u8", "i64"}, []string{"same", "unsafe", "reuse-same"})
	g.aliasDestMatrix()
	// products with a reuse tensor, an increment tensor, and both: each destination holds what its option says, stays the
	// caller's tensor, and the next product (which takes its temporaries from the pool) does not disturb it
	for _, dt := range []string{"f64", "f32"} {
		for _, pool := range []string{"pool on", "pool off"} {
			for _, c := range []struct{ op, a, b, exp string }{{"mm", "2,3", "3,2", "2,2"}, {"mv", "2,3", "3", "2"}, {"outer", "3", "3", "3,3"}, {"dot", "2,3", "3,2", "2,2"}} {
				for _, via := range []string{"fn", "meth"} {
					if c.op == "dot" && via == "meth" {
						continue
					}
					for _, opts := range []string{"reuse=$2", "incr=$2", "reuse=$2 incr=$3", "incr=$3 reuse=$2"} {
						g.emit("vset=2", pool, fmt.Sprintf("new %s %s C", dt, c.a), fmt.Sprintf("new %s %s C", dt, c.b), fmt.Sprintf("new %s %s C", dt, c.exp), fmt.Sprintf("new %s %s C", dt, c.exp),
							fmt.Sprintf("la %s %s $0 $1 %s", c.op, via, opts), "dump $4", "dump $2", "dump $3",
							fmt.Sprintf("la %s %s $0 $1", c.op, via), "dump $5", "dump $2", "dump $3", fmt.Sprintf("new %s 2,2 C", dt), "dump $2", "dump $0", "dump $1")
					}
				}
			}
		}
	}
	for _, op := range []string{"minb", "maxb"} {
		for _, mode := range []string{"safe", "unsafe", "reuse", "reuse=a", "reuse=b", "unsafe-reuse"} {
			for _, kind := range []string{"TT", "TS", "ST"} {
				for k := 0; k < n; k++ {
					g.binProgram(op, g.r.pick(ordDtypes[:12]), kind, g.r.pick([]string{"fn", "meth"}), g.pickShape(), g.r.pick(layouts), g.r.pick(layouts), mode, g.r.pick(dests))
				}
			}
		}
		// in place (UseUnsafe) on one-element tensors and on every layout, scalar on either side
		for _, kind := range []string{"TT", "TS", "ST"} {
			for _, sh := range [][]int{{1}, {1, 1}, {2, 3}} {
				for _, l := range layouts {
					g.binProgram(op, g.r.pick(ordDtypes[:12]), kind, "fn", sh, l, l, "unsafe", "contig")
				}
			}
		}
	}
	for _, op := range append(append([]string{}, arithOps...), cmpOps...) {
		isCmp := false
		for _, c := range cmpOps {
			if c == op {
				isCmp = true
			}
		}
		for _, mode := range modes {
			if isCmp && (mode == "incr" || mode == "incr=a") {
				continue
			}
			for _, kind := range []string{"TT", "TS", "ST"} {
				for k := 0; k < n; k++ {
					dts := numDtypes
					if isCmp {
						dts = ordDtypes[:12]
					}
					dt := g.r.pick(dts)
					m := mode
					if isCmp {
						switch mode {
						case "reuse":
							m = "reuse-same"
							if g.r.chance(1, 2) {
								m = "reuse-bool"
							}
						case "reuse=a":
							m = "reuse=a-same"
						case "reuse=b":
							m = "reuse=b-same"
						}
					}
					g.binProgram(op, dt, kind, g.r.pick([]string{"fn", "meth"}), g.pickShape(), g.r.pick(layouts), g.r.pick(layouts), m, g.r.pick(dests))
				}
			}
		}
	}
}

// C11: elementwise comparisons.
func genC11(g *gen) {
	n := 3
	if g.thorough() {
		n = 80
	}
	g.kernelMatrix(cmpOps, true, []string{"safe", "same", "unsafe", "reuse-bool", "reuse-same"})
	g.scalarTensorMatrix([]string{"lt", "gte", "eq", "ne"}, []string{"f64", "i32", "u8", "i64"}, []string{"safe", "same", "unsafe", "reuse-same"})
	// the destination's own layout: a same-type reuse tensor that is lazily transposed, a view, or column-major, with
	// operands of every layout (the result must land at the destination's coordinates)
	for _, op := range cmpOps {
		for _, dest := range []string{"lazyT", "sliced", "colmajor"} {
			for _, la := range []string{"contig", "lazyT", "sliced"} {
				for _, kind := range []string{"TT", "TS", "ST"} {
					g.forceVset = 3
					g.binProgram(op, g.r.pick([]string{"f64", "i16", "u8", "i64"}), kind, g.r.pick([]string{"fn", "meth"}), []int{2, 3}, la, g.r.pick([]string{"contig", "lazyT"}), "reuse-same", dest)
					g.forceVset = 0
				}
			}
		}
	}
	for _, op := range cmpOps {
		dts := ordDtypes
		if op == "eq" || op == "ne" {
			dts = eqDtypes
		}
		for _, dt := range dts {
			for _, kind := range []string{"TT", "TS", "ST"} {
				for _, mode := range []string{"safe", "same", "unsafe", "reuse-bool", "reuse-same"} {
					for k := 0; k < n; k++ {
						g.binProgram(op, dt, kind, g.r.pick([]string{"fn", "meth"}), g.pickShape(), g.r.pick(layouts), g.r.pick(layouts), mode, "contig")
					}
				}
			}
		}
		// refusals
		for _, dt := range []string{"c64", "c128", "b"} {
			if op == "eq" || op == "ne" {
				continue
			}
			g.binProgram(op, dt, "TT", "fn", []int{2, 3}, "contig", "contig", "safe", "contig")
			g.binProgram(op, dt, "TS", "meth", []int{2, 3}, "contig", "contig", "safe", "contig")
		}
		g.emit("new f64 2,3 C", "new f32 2,3 C", fmt.Sprintf("bin %s fn $0 $1", op), "dump $0")
		g.emit("new i16 2,3 C", "new i16 3,2 C", fmt.Sprintf("bin %s fn $0 $1", op), "dump $0")
		// a scalar of another Go type than the tensor's elements is a mismatched element type: refused on either side, by the
		// package function and by the method - never converted (values inside and outside the element type's range)
		for _, dt := range []string{"i8", "u8", "i16", "u32", "i64", "f32", "f64"} {
			for _, lit := range []string{"#k3:i", "#k300:i", "#k-1:i", "#k256:i", "#k2:f64", "#k1:u8"} {
				if strings.HasSuffix(lit, ":"+dt) {
					continue
				}
				for _, via := range []string{"fn", "meth"} {
					g.emit("vset=2", fmt.Sprintf("new %s 2,3 C", dt), fmt.Sprintf("bin %s %s $0 %s", op, via, lit), "dump $0")
					g.emit("vset=2", fmt.Sprintf("new %s 2,3 C", dt), fmt.Sprintf("bin %s %s %s $0", op, via, lit), "dump $0")
				}
			}
		}
	}
}

var unaryOps = []string{"neg", "inv", "square", "cube", "exp", "tanh", "log", "log2", "log10", "sqrt", "cbrt", "invsqrt", "abs", "sign", "clamp", "apply", "applyerr"}

// C12: unary maths and mapped functions.
func genC12(g *gen) {
	n := 2
	if g.thorough() {
		n = 40
	}
	modes := []string{"safe", "unsafe", "reuse", "incr", "reuse=a"}
	// Apply in place with an increment tensor (`UseUnsafe(), WithIncr(d)`): the `MapIncr*` / `MapIncrErr*` kernels
	for _, op := range []string{"apply", "applyerr"} {
		for _, dt := range append(append([]string{}, numDtypes...), "b", "str") {
			for _, lay := range []string{"contig", "sliced", "lazyT"} {
				var steps []string
				nv := 0
				steps = append(steps, "vset=2")
				sh := []int{2, 3}
				a := g.operand(&steps, &nv, dt, sh, lay)
				d := g.operand(&steps, &nv, dt, sh, "contig")
				steps = append(steps, fmt.Sprintf("un %s $%d unsafe incr=$%d", op, a, d), fmt.Sprintf("dump $%d", nv), fmt.Sprintf("dump $%d", a), fmt.Sprintf("dump $%d", d), "dump $0")
				g.emit(steps...)
			}
		}
	}
	for _, op := range unaryOps {
		for _, dt := range append(append([]string{}, numDtypes...), "b", "str") {
			for _, mode := range modes {
				for k := 0; k < n; k++ {
					var steps []string
					nv := 0
					isInt := !(strings.HasPrefix(dt, "f") || strings.HasPrefix(dt, "c"))
					vs := []int{1, 2, 3}[g.r.intn(3)]
					if op == "inv" && isInt {
						vs = 2 // integer 1/0 panics in Go: outside the specification's domain
					}
					steps = append(steps, fmt.Sprintf("vset=%d", vs))
					sh := g.pickShape()
					a := g.operand(&steps, &nv, dt, sh, g.r.pick(layouts))
					opts := ""
					extra := []int{a}
					switch mode {
					case "unsafe":
						opts = " unsafe"
					case "reuse", "incr":
						d := g.operand(&steps, &nv, dt, sh, g.r.pick([]string{"contig", "contig", "sliced", "lazyT"}))
						extra = append(extra, d)
						opts = fmt.Sprintf(" %s=$%d", mode, d)
					case "reuse=a":
						opts = fmt.Sprintf(" reuse=$%d", a)
					}
					params := ""
					if op == "clamp" {
						params = " #k2 #k5"
					}
					steps = append(steps, fmt.Sprintf("un %s $%d%s%s", op, a, params, opts))
					res := nv
					steps = append(steps, fmt.Sprintf("dump $%d", res))
					for _, o := range extra {
						steps = append(steps, fmt.Sprintf("dump $%d", o))
					}
					steps = append(steps, "dump $0")
					g.emit(steps...)
				}
			}
		}
	}
}

// aliasDestMatrix: the destination (reuse / increment tensor) addresses an operand's own cells through another access
// pattern: a shallow clone with a pending transpose (same window, same shape for a square matrix, other strides), an
// overlapping window of the same parent, the transposed alias of the second operand. The delivered values must be the
// safe-mode values; only the destination (and what shares its cells) may change.
func (g *gen) aliasDestMatrix() {
	for _, dt := range []string{"f64", "i32", "u8"} {
		for _, op := range []string{"add", "sub", "mul"} {
			for _, mode := range []string{"reuse", "incr"} {
				for _, via := range []string{"fn", "meth"} {
					if !g.thorough() && (len(dt)+len(op)+len(mode)+len(via))%2 == 1 {
						continue
					}
					for _, n := range []int{2, 3} {
						sq := fmt.Sprintf("%d,%d", n, n)
						// the transposed alias of the first / second operand, tensor-tensor and tensor-scalar
						g.emit("vset=1", fmt.Sprintf("new %s %s C", dt, sq), fmt.Sprintf("new %s %s C", dt, sq), "shallow $0", "T $2 -",
							fmt.Sprintf("bin %s %s $0 $1 %s=$2", op, via, mode), "dump $2", "dump $1", "dump $0")
						g.emit("vset=1", fmt.Sprintf("new %s %s C", dt, sq), fmt.Sprintf("new %s %s C", dt, sq), "shallow $1", "T $2 -",
							fmt.Sprintf("bin %s %s $0 $1 %s=$2", op, via, mode), "dump $2", "dump $0", "dump $1")
						g.emit("vset=1", fmt.Sprintf("new %s %s C", dt, sq), "shallow $0", "T $1 -",
							fmt.Sprintf("bin %s %s $0 #k3 %s=$1", op, via, mode), "dump $1", "dump $0")
						g.emit("vset=1", fmt.Sprintf("new %s %s C", dt, sq), "shallow $0", "T $1 -",
							fmt.Sprintf("bin %s %s #k3 $0 %s=$1", op, via, mode), "dump $1", "dump $0")
						// both operands are the same tensor, the destination its transposed alias
						g.emit("vset=1", fmt.Sprintf("new %s %s C", dt, sq), "shallow $0", "T $1 -",
							fmt.Sprintf("bin %s %s $0 $0 %s=$1", op, via, mode), "dump $1", "dump $0")
					}
					// overlapping windows of one parent: operand rows 0..1, destination rows 1..2
					g.emit("vset=1", fmt.Sprintf("new %s 3,2 C", dt), "slice $0 0:2,n", "slice $0 1:3,n", fmt.Sprintf("new %s 2,2 C", dt),
						fmt.Sprintf("bin %s %s $1 $3 %s=$2", op, via, mode), "dump $2", "dump $0", "dump $3")
					g.emit("vset=1", fmt.Sprintf("new %s 3,2 C", dt), "slice $0 0:2,n", "slice $0 1:3,n", fmt.Sprintf("new %s 2,2 C", dt),
						fmt.Sprintf("bin %s %s $3 $1 %s=$2", op, via, mode), "dump $2", "dump $0", "dump $3")
				}
			}
		}
	}
	// unary operations with the transposed alias as destination
	for _, op := range []string{"neg", "square", "abs"} {
		for _, mode := range []string{"reuse", "incr"} {
			g.emit("vset=1", "new f64 3,3 C", "shallow $0", "T $1 -", fmt.Sprintf("un %s $0 %s=$1", op, mode), "dump $1", "dump $0")
		}
	}
}

func init() {
	generators["C06"] = genC06
	generators["C07"] = genC07
	generators["C11"] = genC11
	generators["C12"] = genC12
}
