import TensorModel.Proofs.Kernels
/-! `copyDenseIter` on the iterator path copies coordinate by coordinate. -/
namespace TM

/-- Copying along the iterators of two well-formed patterns of the same shape over different buffers: the
    destination cell of every coordinate receives the source cell of the same coordinate; nothing else changes. -/
theorem copyIterOffsets_by_coordinate (st : St) (dst src : Dense) (sh : Shape)
    (hsd : dst.ap.shape = sh) (hss : src.ap.shape = sh)
    (hld : dst.ap.strides.length = sh.length) (hls : src.ap.strides.length = sh.length)
    (hp : ∀ d ∈ sh, 0 < d) (hne : dst.win.buf ≠ src.win.buf)
    (hcd : dst.win.len ≤ dst.win.cap) (hcs : src.win.len ≤ src.win.cap)
    (hrd : ∀ c ∈ allCoords sh, 0 ≤ dot c dst.ap.strides ∧ dot c dst.ap.strides < (dst.win.len : Int))
    (hrs : ∀ c ∈ allCoords sh, 0 ≤ dot c src.ap.strides ∧ dot c src.ap.strides < (src.win.len : Int))
    (hinj : ((allCoords sh).map (fun c => dot c dst.ap.strides)).Nodup)
    (hd : Has st dst.win.buf dst.win.off dst.win.len) (hs : Has st src.win.buf src.win.off src.win.len) :
    ∃ st', Dense.copyIterOffsets st dst.win src.win dst.offsets src.offsets = .ok st' ∧ st'.mheap = st.mheap ∧
      (∀ c ∈ allCoords sh,
        cell st' dst.win.buf (dst.win.off + (dot c dst.ap.strides).toNat) =
          some (cellD st src.win.buf (src.win.off + (dot c src.ap.strides).toNat))) ∧
      (∀ b' k', (b' ≠ dst.win.buf ∨ ∀ c ∈ allCoords sh, k' ≠ dst.win.off + (dot c dst.ap.strides).toNat) →
        cell st' b' k' = cell st b' k') := by
  have eo : dst.offsets = (allCoords sh).map (fun c => dot c dst.ap.strides) := by
    unfold Dense.offsets; rw [offsets_rowmajor dst.ap (by rw [hld, hsd]) (by rw [hsd]; exact hp), hsd]
  have es : src.offsets = (allCoords sh).map (fun c => dot c src.ap.strides) := by
    unfold Dense.offsets; rw [offsets_rowmajor src.ap (by rw [hls, hss]) (by rw [hss]; exact hp), hss]
  obtain ⟨st', h1, hm, _, hv, hf⟩ := copyIterOffsets_spec st dst.win src.win dst.offsets src.offsets
    dst.win.len src.win.len hne hcd hcs
    (by rw [eo]; intro i hi; obtain ⟨c, hc, rfl⟩ := List.mem_map.mp hi; exact hrd c hc)
    (by rw [es]; intro j hj; obtain ⟨c, hc, rfl⟩ := List.mem_map.mp hj; exact hrs c hc)
    (by rw [eo]; exact hinj) hd hs
  refine ⟨st', h1, hm, ?_, ?_⟩
  · intro c hc
    obtain ⟨k, hk, hkc⟩ := List.getElem_of_mem hc
    apply hv k
    · rw [eo, List.getElem?_map, List.getElem?_eq_getElem hk, hkc]; rfl
    · rw [es, List.getElem?_map, List.getElem?_eq_getElem hk, hkc]; rfl
  · intro b' k' hb
    apply hf
    rcases hb with hb | hb
    · exact Or.inl hb
    · right
      intro k i j hi hj
      rw [eo, List.getElem?_map] at hi
      cases hck : (allCoords sh)[k]? with
      | none => simp [hck] at hi
      | some c =>
        simp only [hck, Option.map_some, Option.some.injEq] at hi
        rw [← hi]
        exact hb c (List.mem_of_getElem? hck)

end TM
