import TensorModel.Kern
/-!
  Model of the engine glue: `defaultengine_prep.go` (checks, `handleFuncOpts`, `prepData*`),
  the generated `StdEng` methods for arithmetic and comparison (`defaultengine_arith.go`,
  `defaultengine_cmp.go`, `defaultengine_minmax.go`) and the API dispatch of `api_arith.go`,
  `api_cmp.go`, `dense_arith.go`, `dense_cmp.go`.
-/
namespace TM

/-- `Shape.Eq` (soft equality between vanilla vectors and row/column vectors) -/
def shapeEq (s o : Shape) : Bool :=
  if isScalar s && isScalar o then true
  else if isVector s && isVector o && s.length == 2 && o.length == 1 then
    (isColVec s && s[0]? == o[0]?) || (isRowVec s && s[1]? == o[0]?)
  else if isVector s && isVector o && s.length == 1 && o.length == 2 then
    (isColVec o && o[0]? == s[0]?) || (isRowVec o && o[1]? == s[0]?)
  else s == o

/-- type classes of `types.go` -/
def numberTypes : List String := ["i", "i8", "i16", "i32", "i64", "u", "u8", "u16", "u32", "u64", "f32", "f64", "c64", "c128"]
def ordTypes : List String := ["i", "i8", "i16", "i32", "i64", "u", "u8", "u16", "u32", "u64", "f32", "f64", "str"]
def eqTypes : List String := ["b", "i", "i8", "i16", "i32", "i64", "u", "u8", "u16", "u32", "u64", "f32", "f64", "c64", "c128", "str", "uptr"]
def signedTypes : List String := ["i", "i8", "i16", "i32", "i64", "f32", "f64", "c64", "c128"]
def floatTypes : List String := ["f32", "f64"]
def floatcmplxTypes : List String := ["f32", "f64", "c64", "c128"]
def nonComplexNumberTypes : List String := ["i", "i8", "i16", "i32", "i64", "u", "u8", "u16", "u32", "u64", "f32", "f64"]

/-- element types for which `E.<Op>` has a kernel arm (others: "Unsupported type" error) -/
def kernelTypes (op : String) : List String :=
  if op == "mod" then nonComplexNumberTypes
  else if op == "pow" then floatcmplxTypes
  else numberTypes

/-- the contiguous float kernels delegate to gorgonia.org/vecf32, vecf64; their `Div` differs from
    Go's `/` (any zero divisor gives +Inf), so it gets its own function name -/
def vecFn (op dt : String) : BinF :=
  if op == "div" && (dt == "f32" || dt == "f64") then (fun x y => .app2 "div.vec" x y) else (fun x y => .app2 op x y)

structure Opts where
  unsafe_ : Bool := false
  reuse : Option Dense := none
  incr : Option Dense := none
  same : Bool := false
deriving Inhabited

/-- which tensor an engine method returns -/
inductive Ret where
  | a                 -- the (first) tensor operand itself
  | reuse             -- the reuse / incr tensor
  | fresh (d : Dense) -- a newly allocated tensor
  | failed            -- an error is returned after the state was already modified
deriving Inhabited

structure EngOut where
  st : St
  reuse : Option Dense     -- the reuse/incr tensor after the call (it may have been reshaped / re-ordered)
  ret : Ret

/-- validity stream of `t.Iterator()` -/
def Dense.itStream (s : St) (t : Dense) : Res ItS := do
  let offs := t.offsets
  match t.mask with
  | some m =>
    if t.isMasked then offs.mapM (fun i => do pure (i, !(← s.mget m i)))
    else pure (offs.map (·, true))
  | none => pure (offs.map (·, true))

/-- outcome of `handleFuncOpts`: `.error e` may come with a reuse tensor that was already modified -/
structure FO where
  reuse : Option Dense
  safe : Bool
  toReuse : Bool
  incr : Bool
  same : Bool

/-- `handleFuncOpts(expShape, expType, o, strict, opts...)` -/
def handleFuncOpts (s : St) (expShape : Shape) (expType : String) (col : Bool) (strict : Bool) (o : Opts) :
    Res (St × FO) := do
  let (reuseT, incr) := match o.incr with
    | some t => (some t, true)
    | none => (o.reuse, false)
  let safe := !o.unsafe_
  match reuseT with
  | none => pure (s, { reuse := none, safe := safe, toReuse := false, incr := incr, same := o.same })
  | some r =>
    if (strict || o.same) && r.dt != expType then throwErr "typeMismatch reuse"
    if (r.win.len : Int) != totalSize expShape && !isScalar expShape then throwErr "shapeMismatch reuse"
    let (s, r) ← (if !shapeEq r.shape expShape then do
        let rr ← Dense.reshape s r expShape
        match rr with
          | Dense.ReshapeRes.ok s r' => pure (s, r')
          | Dense.ReshapeRes.errKept _ => throwErr "reshape reuse"
          | Dense.ReshapeRes.errMutated _ _ => throwErr "reshape reuse (mutated)"
      else pure (s, r) : Res (St × Dense))
    let r := if !incr && r.ap.o.col != col then { r with ap := { r.ap with o := { r.ap.o with col := !r.ap.o.col } } } else r
    pure (s, { reuse := some r, safe := safe, toReuse := true, incr := incr, same := o.same })

def sameOrd (a b : Dense) : Bool := a.ap.o.col == b.ap.o.col

/-- `sharesMemory(a, b)`: the two storage windows have a cell in common -/
def sharesMemory (p q : Dense) : Bool :=
  p.win.buf == q.win.buf && p.win.off < q.win.off + q.win.len && q.win.off < p.win.off + p.win.len

/-- `sameAccess(a, b)`: the same cells in the same sequence (same window, shape and strides) -/
def sameAccess (p q : Dense) : Bool :=
  p.win.buf == q.win.buf && p.win.off == q.win.off && p.win.len == q.win.len && p.ap.shape == q.ap.shape &&
    p.ap.strides == q.ap.strides

/-- `operandFor(t, dst, inPlace)`: the operand itself, or a copy of it (`Clone()`) when the destination of the operation
    shares memory with it — unless (`inPlace`) the destination addresses exactly the operand's cells in the operand's
    sequence, which an in-place loop reads before it writes them -/
def operandFor (s : St) (t dst : Dense) (inPlace : Bool) : Res (St × Dense) :=
  if !sharesMemory t dst then pure (s, t)
  else if inPlace && sameAccess t dst then pure (s, t)
  else t.clone s

/-- the head of `prepDataVV(a, b, reuse)`: the destination first receives the elements of `a`, so `b` is copied whenever
    it shares memory with the destination; `a` only if the destination addresses its cells in another way -/
def prepAliasVV (s : St) (a b : Dense) (reuse : Option Dense) : Res (St × Dense × Dense) :=
  match reuse with
  | none => pure (s, a, b)
  | some r => do
    let (s, b) ← operandFor s b r false
    let (s, a) ← operandFor s a r true
    pure (s, a, b)

/-- the head of `prepDataVS` / `prepDataSV` (and of the float engines' `prepDataVSF64/F32`) -/
def prepAliasT (s : St) (t : Dense) (reuse : Option Dense) : Res (St × Dense) :=
  match reuse with
  | none => pure (s, t)
  | some r => operandFor s t r true

/-- `E.<Op>Incr` / `E.<Op>IterIncr` refuse a length-one increment when exactly one operand is a scalar; the engine
    method returns that error after `handleFuncOpts` has already prepared the destination -/
def incrRefused (a b incr : Win) : Bool := ((isSc a && !isSc b) || (isSc b && !isSc a)) && isSc incr

/-- arithmetic `StdEng.<Op>(a, b, opts...)` (tensor-tensor) -/
def engArithVV (s : St) (op : String) (tc : List String) (a b : Dense) (o : Opts) : Res EngOut := do
  -- binaryCheck
  if !tc.contains a.dt then throwErr "typeclass a"
  if !tc.contains b.dt then throwErr "typeclass b"
  if a.dt != b.dt then throwErr "typeMismatch"
  if !shapeEq a.shape b.shape then throwErr "shapeMismatch"
  let (s, fo) ← handleFuncOpts s a.shape a.dt a.ap.o.col true o
  let (s, a, b) ← prepAliasVV s a b fo.reuse
  let ksup := (kernelTypes op).contains a.dt   -- else `E.<Op>…` returns "Unsupported type"
  let f : BinF := fun x y => .app2 op x y
  let fv := vecFn op a.dt
  let useIter := a.requiresIterator || b.requiresIterator ||
    (match fo.reuse with | some r => r.requiresIterator | none => false) ||
    !sameOrd a b ||
    (match fo.reuse with | some r => !sameOrd a r || !sameOrd b r | none => false)
  let plainFail := !ksup && !(useIter && fo.toReuse && !fo.incr)
  if plainFail then return ⟨s, fo.reuse, .failed⟩
  if useIter then
    let ia ← a.itStream s
    let ib ← b.itStream s
    match fo.incr, fo.reuse with
    | true, some r =>
      if incrRefused a.win b.win r.win then return ⟨s, some r, .failed⟩
      let s ← eOpIterIncr s a.win b.win r.win f ia ib (← r.itStream s) fv
      pure ⟨s, some r, .reuse⟩
    | _, some r =>
      let ir ← r.itStream s
      let s ← Dense.copyIterOffsets s r.win a.win (ir.map (·.1)) (ia.map (·.1))
      if !ksup then return ⟨s, some r, .failed⟩
      let s ← eOpIter s r.win b.win f ir ib fv
      pure ⟨s, some r, .reuse⟩
    | _, none =>
      if !fo.safe then
        let s ← eOpIter s a.win b.win f ia ib fv
        pure ⟨s, none, .a⟩
      else
        let (s, c) ← a.clone s
        let s ← eOpIter s c.win b.win f ia ib fv
        pure ⟨s, none, .fresh c⟩
  else
    match fo.incr, fo.reuse with
    | true, some r =>
      if incrRefused a.win b.win r.win then return ⟨s, some r, .failed⟩
      let s ← eOpIncr s a.win b.win r.win f fv
      pure ⟨s, some r, .reuse⟩
    | _, some r =>
      let s ← eOpRecv s a.win b.win r.win f
      pure ⟨s, some r, .reuse⟩
    | _, none =>
      if !fo.safe then
        let s ← eOp s a.win b.win f fv
        pure ⟨s, none, .a⟩
      else
        let (s, c) ← a.clone s
        let s ← eOp s c.win b.win f fv
        pure ⟨s, none, .fresh c⟩

/-- a scalar operand: a literal (fresh one-cell header) or the memory of a rank-0 tensor -/
structure ScalarArg where
  win : Win
  dt : String
  /-- the storage window of the rank-0 tensor that stands for the scalar, if any: its element is copied into `win` when
      `prepDataVS/SV` run (`scalarToHeader`), i.e. *after* `handleFuncOpts` -/
  src : Option Win := none

/-- `scalarToHeader` on a rank-0 tensor operand: a fresh one-cell header holding a *copy* of the tensor's element
    (`ScalarValue()` = cell 0 of its storage window, which may be longer when the scalar is a view); the kernels
    never see the operand's own memory -/
def tenScalar (st : St) (t : Dense) : St × ScalarArg :=
  match st.get t.win 0 with
  | .ok v => let (st, b) := st.alloc #[v]; (st, { win := ⟨b, 0, 1, 1⟩, dt := t.dt, src := some t.win })
  | .error _ => (st, { win := { t.win with cap := t.win.len }, dt := t.dt })

/-- `scalarToHeader` runs inside `prepDataVS/SV`, after `handleFuncOpts`: when the latter has reshaped a reuse / increment
    tensor with a pending transpose — which moves its cells — and the tensor standing for the scalar is a view of those
    cells, the element copied is the one the view shows *then*. A literal scalar (`src = none`) is untouched. -/
def ScalarArg.refresh (s : St) (sc : ScalarArg) : St :=
  match sc.src with
  | none => s
  | some w =>
    match s.get w 0 with
    | .ok v => (match s.wr sc.win 1 0 v with | .ok s' => s' | .error _ => s)
    | .error _ => s

/-- arithmetic `StdEng.<Op>Scalar(t, s, leftTensor, opts...)` -/
def engArithScalar (s : St) (op : String) (tc : List String) (t : Dense) (sc : ScalarArg) (leftTensor : Bool) (o : Opts) :
    Res EngOut := do
  if !tc.contains t.dt then throwErr "typeclass t"
  if t.dt != sc.dt then throwErr "scalar dtype"
  let (s, fo) ← handleFuncOpts s t.shape t.dt t.ap.o.col true o
  let (s, t) ← prepAliasT s t fo.reuse
  let s := sc.refresh s
  let ksup := (kernelTypes op).contains t.dt
  let f : BinF := fun x y => .app2 op x y
  let fv := vecFn op t.dt
  let isSclr := isScalar t.shape
  let useIter := !isSclr && (t.requiresIterator ||
    (match fo.reuse with | some r => r.requiresIterator || !sameOrd r t | none => false))
  -- dataA/dataB in operand order
  let (dA, dB) := if leftTensor then (t.win, sc.win) else (sc.win, t.win)
  let plainFail := !ksup && !(fo.toReuse && !fo.incr)
  if plainFail then
    -- the copy-back of the scalar-equivalent unsafe case runs even though `E.<Op>` returned an error
    if !fo.toReuse && !fo.safe && !leftTensor && isScalarEquiv t.shape && !(!isScalar t.shape && t.requiresIterator) then
      let s ← Dense.rawCopy s dB dA
      return ⟨s, fo.reuse, .failed⟩
    return ⟨s, fo.reuse, .failed⟩
  if useIter then
    -- a scalar operand taken from a rank-0 *view* whose window has more than one cell is not recognised as a
    -- scalar by the kernels' dispatch (`len == 1`): the vector-vector iterator kernel runs with the scalar side's
    -- nil iterator
    if sc.win.len != 1 then throwPanic "nil iterator: scalar operand with a multi-cell window"
    let it ← t.itStream s
    let (ia, ib) : ItS × ItS := if leftTensor then (it, []) else ([], it)
    match fo.incr, fo.reuse with
    | true, some r =>
      if incrRefused dA dB r.win then return ⟨s, some r, .failed⟩
      let s ← eOpIterIncr s dA dB r.win f ia ib (← r.itStream s) fv
      pure ⟨s, some r, .reuse⟩
    | _, some r =>
      let ir ← r.itStream s
      if leftTensor then
        let s ← Dense.copyIterOffsets s r.win dA (ir.map (·.1)) (ia.map (·.1))
        if !ksup then return ⟨s, some r, .failed⟩
        let s ← eOpIter s r.win dB f ir ib fv
        pure ⟨s, some r, .reuse⟩
      else
        let s ← Dense.copyIterOffsets s r.win dB (ir.map (·.1)) (ib.map (·.1))
        if !ksup then return ⟨s, some r, .failed⟩
        let s ← eOpIter s dA r.win f ia ir fv
        pure ⟨s, some r, .reuse⟩
    | _, none =>
      if !fo.safe then
        let s ← eOpIter s dA dB f ia ib fv
        pure ⟨s, none, .a⟩
      else
        let (s, c) ← t.clone s
        let s ← (if leftTensor then eOpIter s c.win dB f ia ib fv else eOpIter s dA c.win f ia ib fv)
        pure ⟨s, none, .fresh c⟩
  else
    match fo.incr, fo.reuse with
    | true, some r =>
      if incrRefused dA dB r.win then return ⟨s, some r, .failed⟩
      let s ← eOpIncr s dA dB r.win f fv
      pure ⟨s, some r, .reuse⟩
    | _, some r =>
      if leftTensor then
        let s ← Dense.rawCopy s r.win dA
        if !ksup then return ⟨s, some r, .failed⟩
        let s ← eOp s r.win dB f fv
        pure ⟨s, some r, .reuse⟩
      else
        let s ← Dense.rawCopy s r.win dB
        if !ksup then
          let s ← (if isScalarEquiv t.shape then Dense.rawCopy s r.win dA else pure s)
          return ⟨s, some r, .failed⟩
        let s ← eOp s dA r.win f fv
        let s ← (if isScalarEquiv t.shape then Dense.rawCopy s r.win dA else pure s)
        pure ⟨s, some r, .reuse⟩
    | _, none =>
      if !fo.safe then
        let s ← eOp s dA dB f fv
        let s ← (if isScalarEquiv t.shape && !leftTensor then Dense.rawCopy s dB dA else pure s)
        pure ⟨s, none, .a⟩
      else
        let (s, c) ← t.clone s
        if leftTensor then
          let s ← eOp s c.win dB f fv
          pure ⟨s, none, .fresh c⟩
        else
          -- storage.Fill(typ, retVal.hdr(), dataA) then E.Op(retVal, dataB)
          let a0 ← s.rd dA 1 0
          let s ← (rangeI c.win.len).foldlM (fun s i => s.wr c.win c.win.len i a0) s
          let s ← eOp s c.win dB f fv
          pure ⟨s, none, .fresh c⟩

/-- fresh zero-filled tensor of the given dtype and shape: `NewDense(dt, shape.Clone(), WithEngine(e))` (row-major), and
    with `col` the result of `newDenseLike(e, dt, t)` for a column-major `t` (`…, AsFortran(nil)`): column-major default
    strides and order flag -/
def newDenseZero (s : St) (dt : String) (sh : Shape) (col : Bool := false) : St × Dense :=
  let n := if sh.isEmpty then 1 else (totalSize sh).toNat
  Dense.fresh s dt sh col (Array.replicate n Val.zero)

/-- comparison `StdEng.<Cmp>(a, b, opts...)`; `op` is the comparison, `op ++ ".same"` its 1/0 form -/
def engCmpVV (s : St) (op : String) (tc : List String) (a b : Dense) (o : Opts) : Res EngOut := do
  if !tc.contains a.dt then throwErr "typeclass a"
  if !tc.contains b.dt then throwErr "typeclass b"
  if a.dt != b.dt then throwErr "typeMismatch"
  if !shapeEq a.shape b.shape then throwErr "shapeMismatch"
  let (s, fo) ← handleFuncOpts s a.shape a.dt a.ap.o.col false o
  let (s, a, b) ← prepAliasVV s a b fo.reuse
  let same := fo.same || !fo.safe
  let fB : BinF := fun x y => .app2 op x y
  let fS : BinF := fun x y => .app2 (op ++ ".same") x y
  let useIter := a.requiresIterator || b.requiresIterator ||
    (match fo.reuse with | some r => r.requiresIterator | none => false) ||
    !sameOrd a b ||
    (match fo.reuse with | some r => !sameOrd a r || !sameOrd b r | none => false)
  -- "check to see if anything needs to be created": `newDenseLike(e, dt, a)`, the operand's shape and data order
  let (s, reuse, created) : St × Option Dense × Bool :=
    match fo.reuse with
    | some r => (s, some r, false)
    | none =>
      if same && fo.safe then let (s, d) := newDenseZero s a.dt a.shape a.ap.o.col; (s, some d, true)
      else if !same && fo.safe then let (s, d) := newDenseZero s "b" a.shape a.ap.o.col; (s, some d, true)
      else (s, none, false)
  let retOf (r : Dense) : Ret := if created then .fresh r else .reuse
  let reuseOut (r : Dense) : Option Dense := if created then fo.reuse else some r
  if useIter then
    let ia ← a.itStream s
    let ib ← b.itStream s
    match reuse with
    | none =>   -- !safe && same
      let s ← eOpIter s a.win b.win fS ia ib
      pure ⟨s, fo.reuse, .a⟩
    | some r =>
      let ir ← r.itStream s
      if same && fo.safe then
        let s ← Dense.copyIterOffsets s r.win a.win (ir.map (·.1)) (ia.map (·.1))
        let s ← eOpIter s r.win b.win fS ir ib
        pure ⟨s, reuseOut r, retOf r⟩
      else
        let s ← eCmpIter s a.win b.win r.win fB ia ib ir
        pure ⟨s, reuseOut r, retOf r⟩
  else
    match reuse with
    | none =>
      let s ← eOp s a.win b.win fS
      pure ⟨s, fo.reuse, .a⟩
    | some r =>
      if same && fo.safe then
        let s ← Dense.rawCopy s r.win a.win
        let s ← eOp s r.win b.win fS
        pure ⟨s, reuseOut r, retOf r⟩
      else
        let s ← eCmp s a.win b.win r.win fB
        pure ⟨s, reuseOut r, retOf r⟩

/-- the mirrored comparison used by the generated scalar code for the len-1/len-1 corner -/
def mirrorCmp : String → String
  | "gt" => "lt" | "gte" => "lte" | "lt" => "gt" | "lte" => "gte" | x => x

/-- comparison `StdEng.<Cmp>Scalar(t, s, leftTensor, opts...)` -/
def engCmpScalar (s : St) (op : String) (tc : List String) (t : Dense) (sc : ScalarArg) (leftTensor : Bool) (o : Opts) :
    Res EngOut := do
  if !tc.contains t.dt then throwErr "typeclass t"
  if t.dt != sc.dt then throwErr "scalar dtype"
  let (s, fo) ← handleFuncOpts s t.shape t.dt t.ap.o.col false o
  let (s, t) ← prepAliasT s t fo.reuse
  let s := sc.refresh s
  let same := fo.same || !fo.safe
  let fB : BinF := fun x y => .app2 op x y
  let fS : BinF := fun x y => .app2 (op ++ ".same") x y
  let isSclr := isScalar t.shape
  let useIter := !isSclr && (t.requiresIterator ||
    (match fo.reuse with | some r => r.requiresIterator || !sameOrd r t | none => false))
  let (dA, dB) := if leftTensor then (t.win, sc.win) else (sc.win, t.win)
  let (s, reuse, created) : St × Option Dense × Bool :=
    match fo.reuse with
    | some r => (s, some r, false)
    | none =>
      if same && fo.safe then let (s, d) := newDenseZero s t.dt t.shape t.ap.o.col; (s, some d, true)
      else if !same && fo.safe then let (s, d) := newDenseZero s "b" t.shape t.ap.o.col; (s, some d, true)
      else (s, none, false)
  let retOf (r : Dense) : Ret := if created then .fresh r else .reuse
  let reuseOut (r : Dense) : Option Dense := if created then fo.reuse else some r
  if useIter then
    -- a scalar operand taken from a rank-0 *view* whose window has more than one cell is not recognised as a
    -- scalar by the kernels' dispatch (`len == 1`): the vector-vector iterator kernel runs with the scalar side's
    -- nil iterator
    if sc.win.len != 1 then throwPanic "nil iterator: scalar operand with a multi-cell window"
    let it ← t.itStream s
    let (ia, ib) : ItS × ItS := if leftTensor then (it, []) else ([], it)
    match reuse with
    | none =>
      let s ← eOpIter s dA dB fS ia ib
      pure ⟨s, fo.reuse, .a⟩
    | some r =>
      let ir ← r.itStream s
      if same && fo.safe then
        if !leftTensor then
          let s ← Dense.copyIterOffsets s r.win dB (ir.map (·.1)) (ib.map (·.1))
          -- `GtSameIter(typ, dataA, dataReuse, ait, iit)`: the result is walked with its own iterator
          let s ← eOpIter s dA r.win fS ia ir
          pure ⟨s, reuseOut r, retOf r⟩
        else
          let s ← Dense.copyIterOffsets s r.win dA (ir.map (·.1)) (ia.map (·.1))
          let s ← eOpIter s r.win dB fS ir ib
          pure ⟨s, reuseOut r, retOf r⟩
      else
        let s ← eCmpIter s dA dB r.win fB ia ib ir
        pure ⟨s, reuseOut r, retOf r⟩
  else
    match reuse with
    | none =>
      let s ← eOp s dA dB fS
      -- scalar on the left of a one-element tensor: the kernel has put the result into the scalar's header; it is
      -- copied back into the tensor
      let s ← (if !leftTensor && dA.len == 1 && dB.len == 1 then Dense.rawCopy s dB dA else pure s)
      pure ⟨s, fo.reuse, .a⟩
    | some r =>
      if same && fo.safe then
        if dA.len == 1 && dB.len == 1 && !leftTensor then
          let s ← Dense.rawCopy s r.win dB
          let s ← eOp s r.win dA (fun x y => .app2 (mirrorCmp op ++ ".same") x y)
          pure ⟨s, reuseOut r, retOf r⟩
        else if leftTensor then
          let s ← Dense.rawCopy s r.win dA
          let s ← eOp s r.win dB fS
          pure ⟨s, reuseOut r, retOf r⟩
        else
          let s ← Dense.rawCopy s r.win dB
          let s ← eOp s dA r.win fS
          pure ⟨s, reuseOut r, retOf r⟩
      else
        let s ← eCmp s dA dB r.win fB
        pure ⟨s, reuseOut r, retOf r⟩

end TM

namespace TM

/-- unary operations: (type class admitted by `unaryCheck`, element types with a kernel arm) -/
def unaryClasses : List (String × List String × List String) :=
  let realK := ["i", "i8", "i16", "i32", "i64", "f32", "f64"]
  [ ("neg", numberTypes, numberTypes), ("inv", numberTypes, numberTypes), ("square", numberTypes, numberTypes),
    ("cube", numberTypes, numberTypes), ("exp", floatcmplxTypes, floatcmplxTypes), ("tanh", floatcmplxTypes, floatcmplxTypes),
    ("log", floatcmplxTypes, floatcmplxTypes), ("log2", floatTypes, floatTypes), ("log10", floatcmplxTypes, floatcmplxTypes),
    ("sqrt", floatcmplxTypes, floatcmplxTypes), ("cbrt", floatTypes, floatTypes), ("invsqrt", floatTypes, floatTypes),
    ("abs", signedTypes, realK), ("sign", signedTypes, realK),
    ("clamp", nonComplexNumberTypes, nonComplexNumberTypes) ]

abbrev UnF := Val → Val

/-- `E.<Op>(t, a)`: `for i := range a { a[i] = g a[i] }` -/
def kUn (s : St) (a : Win) (g : UnF) : Res St :=
  (rangeI a.len).foldlM (fun s i => do s.wr a a.len i (g (← s.rd a a.len i))) s

/-- `E.<Op>Iter(t, a, ait)` -/
def kUnIter (s : St) (a : Win) (g : UnF) : ItS → Res St
  | (i, vi) :: ia => do
    let s ← (if vi then do s.wr a a.len i (g (← s.rd a a.len i)) else pure s)
    kUnIter s a g ia
  | [] => .ok s

/-- generated unary `StdEng.<Op>(a, opts...)` and `StdEng.Clamp` -/
def engUnary (s : St) (g : UnF) (tc ktypes : List String) (strict : Bool) (a : Dense) (o : Opts) : Res EngOut := do
  if !tc.contains a.dt then throwErr "typeclass a"
  let (s, fo) ← handleFuncOpts s a.shape a.dt a.ap.o.col strict o
  let ksup := ktypes.contains a.dt
  -- `prepDataUnary`: the destination first receives the operand's elements, so an operand that shares memory with it
  -- through another access pattern is read from a copy (`operandFor`); iterators also when the destination's data
  -- order differs from the operand's (an increment tensor; a reuse tensor has been given the operand's order flag by
  -- `handleFuncOpts`)
  let (s, aK) ← prepAliasT s a fo.reuse
  let useIter := aK.requiresIterator || (match fo.reuse with | some r => r.requiresIterator || !sameOrd r aK | none => false)
  let addF : BinF := fun x y => .app2 "add" x y
  if useIter then
    let ia ← aK.itStream s
    match fo.incr, fo.reuse with
    | true, some r =>
      let (s, c) ← a.clone s
      if !ksup then return ⟨s, some r, .failed⟩
      let s ← kUnIter s c.win g ia
      let s ← eOpIter s r.win c.win addF (← r.itStream s) ia
      pure ⟨s, some r, .reuse⟩
    | _, some r =>
      let ir ← r.itStream s
      let s ← Dense.copyIterOffsets s r.win aK.win (ir.map (·.1)) (ia.map (·.1))
      if !ksup then return ⟨s, some r, .failed⟩
      let s ← kUnIter s r.win g ir
      pure ⟨s, some r, .reuse⟩
    | _, none =>
      if !ksup then return ⟨s, none, .failed⟩
      if !fo.safe then
        let s ← kUnIter s a.win g ia
        pure ⟨s, none, .a⟩
      else
        let (s, c) ← a.clone s
        let s ← kUnIter s c.win g ia
        pure ⟨s, none, .fresh c⟩
  else
    match fo.incr, fo.reuse with
    | true, some r =>
      let (s, c) ← a.clone s
      if !ksup then return ⟨s, some r, .failed⟩
      let s ← kUn s c.win g
      let s ← eOp s r.win c.win addF
      pure ⟨s, some r, .reuse⟩
    | _, some r =>
      let s ← Dense.rawCopy s r.win aK.win
      if !ksup then return ⟨s, some r, .failed⟩
      let s ← kUn s r.win g
      pure ⟨s, some r, .reuse⟩
    | _, none =>
      if !ksup then return ⟨s, none, .failed⟩
      if !fo.safe then
        let s ← kUn s a.win g
        pure ⟨s, none, .a⟩
      else
        let (s, c) ← a.clone s
        let s ← kUn s c.win g
        pure ⟨s, none, .fresh c⟩

/-- `E.Map` on the window `w`, or (`useIter`) `E.MapIter` on it with the iterator of `d` -/
def mapKern (useIter : Bool) (s : St) (d : Dense) (w : Win) (gi : UnF) : Res St :=
  if useIter then do kUnIter s w gi (← d.itStream s) else kUn s w gi

/-- What `StdEng.Map` returns once the kernels have run (`given`: the caller's destination, `reuse`: the destination
    used, `created`: it is the copy made in safe mode). A destination that has exactly the operand's shape is left alone
    (the result has been written through its own access pattern); otherwise `reuseCheckShape(reuse, a.Shape())`. -/
def mapFin (a : Dense) (given reuse : Option Dense) (created : Bool) (s : St) : Res EngOut :=
  match reuse with
  | some r =>
    if r.dims == a.dims && shapeEq r.shape a.shape then
      (if created then pure ⟨s, given, .fresh r⟩ else pure ⟨s, some r, .reuse⟩) else
    -- reshape to a's shape, drop a pending transpose / view flag
    -- lower-case `reshape`: setShape (default strides for the order) + sanity
    let r' : Dense := { r with ap := { r.ap with shape := a.shape, strides := if a.shape.isEmpty then [] else Dense.defaultStrides r.ap.o.col a.shape, fin := true } }
    if !r'.view && (r'.win.len : Int) != totalSize a.shape && !a.shape.isEmpty then
      (if created then pure ⟨s, given, .failed⟩ else pure ⟨s, some r', .failed⟩)
    else
      let r' := { r' with old := none, tw := none, view := false }
      if created then pure ⟨s, given, .fresh r'⟩ else pure ⟨s, some r', .reuse⟩
  | none => pure ⟨s, none, .a⟩

/-- `StdEng.Map(fn, a, opts...)` (reached through `Dense.Apply`). Safe mode without destination: `fn` is applied in
    place to a copy of the operand (`Materialize` / `Clone`). `WithReuse(r)`: `r` is given the operand's elements
    (`storage.Copy` / `CopyIter`), then `fn` is applied to them in place. `WithIncr(r)`: `fn` is applied to a clone of the
    operand, which is then added to `r` (`E.Add` / `E.AddIter`). `UseUnsafe()`: in place on the operand. -/
def engMap (s : St) (g : UnF) (mapTypes : List String) (a : Dense) (o : Opts) : Res EngOut := do
  let (s, fo) ← handleFuncOpts s a.shape a.dt a.ap.o.col true o
  -- create reuse in safe mode
  let (s, reuse, created) ← (match fo.reuse with
    | some r =>
      if totalSize a.shape != totalSize r.shape then throwErr "shapeMismatch" else pure (s, some r, false)
    | none =>
      if fo.safe then do
        -- `a.(View)` always succeeds for *Dense: Materialize when materialisable, else Clone
        match ← a.materialize s with
        | (s, some m) => pure (s, some m, true)
        | (s, none) => let (s, c) ← a.clone s; pure (s, some c, true)
      else pure (s, none, false) : Res (St × Option Dense × Bool))
  -- `prepDataUnary` (see `engUnary`); a destination created above never shares memory with the operand
  let (s, aK) ← prepAliasT s a reuse
  let useIter := aK.requiresIterator || (match reuse with | some r => r.requiresIterator || !sameOrd r aK | none => false)
  let sup := mapTypes.contains a.dt
  let addF : BinF := fun x y => .app2 "add" x y
  if !fo.safe then
    -- in place on the operand's own data; with an increment tensor the `MapIncr*` / `MapIncrErr*` kernels run on it:
    -- `a[i] += fn(a[i])`
    if !sup then throwErr "Cannot map fn" else
    if fo.incr && a.dt == "b" then throwErr "Cannot perform increment on bool" else
    let gi : UnF := if fo.incr then (fun x => .app2 "add" x (g x)) else g
    let s ← mapKern useIter s aK a.win gi
    mapFin a fo.reuse reuse created s
  else match fo.incr, fo.reuse with
    | true, some r =>
      -- `used = a.Clone().hdr()`, `fn` over it with a's iterator, then `E.Add(dataReuse, used)` /
      -- `E.AddIter(dataReuse, used, rit, ait)`
      let (s, c) ← a.clone s
      if !sup then throwErr "Cannot map fn" else
      let s ← mapKern useIter s aK c.win g
      if a.dt == "b" then throwErr "Unsupported type for Add" else
      let s ← (if useIter then do eOpIter s r.win c.win addF (← r.itStream s) (← aK.itStream s) else eOp s r.win c.win addF)
      mapFin a fo.reuse reuse created s
    | false, some r =>
      -- the destination is given the operand's elements, `fn` is then applied to them in place
      let s ← (if useIter then do
                 Dense.copyIterOffsets s r.win aK.win ((← r.itStream s).map (·.1)) ((← aK.itStream s).map (·.1))
               else Dense.rawCopy s r.win aK.win)
      if !sup then return ⟨s, some r, .failed⟩
      let s ← mapKern useIter s r r.win g
      mapFin a fo.reuse reuse created s
    | _, none =>
      -- the copy made above
      match reuse with
      | some c =>
        if !sup then throwErr "Cannot map fn" else
        let s ← mapKern useIter s c c.win g
        mapFin a fo.reuse reuse created s
      | none => mapFin a fo.reuse reuse created s

end TM
