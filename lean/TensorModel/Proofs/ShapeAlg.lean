import TensorModel.Proofs.Slice
import TensorModel.Proofs.Transpose
/-! Helper lemmas for C13 (shape algebra, reshape, metadata invariant). -/
namespace TM

end TM
