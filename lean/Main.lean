import TensorModel.Run
open TM

partial def loop (h : IO.FS.Stream) (out : IO.FS.Stream) : IO Unit := do
  let line ← h.getLine
  if line.isEmpty then return ()
  let l := line.trimAscii.toString
  if l != "" then
    for o in runProgram l do
      out.putStrLn o
  loop h out

def main : IO Unit := do
  let out ← IO.getStdout
  loop (← IO.getStdin) out
  out.flush
