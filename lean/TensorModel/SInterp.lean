import TensorModel.Spec
import TensorModel.Interp
/-! Reference interpreter of the specification S over the same programs as the model. -/
namespace TM

inductive Pend where
  | none
  | one (before : LA Nat)
  | ambiguous
deriving Repr, Inhabited

structure SObj where
  root : Nat
  idx : LA Nat                         -- shape + references to cells of `store[root]`
  pat : List (Int × Bool) := []        -- undropped shape with "may be dropped" marks (after a slice)
  pending : Pend := .none
  ordered : Bool := false              -- storage must be in the logical order of the tensor
  col : Bool := false
  isView : Bool := false
deriving Repr, Inhabited

structure SState where
  store : Array (Array Val) := #[]
  objs : Array (Option SObj) := #[]
deriving Inhabited

def SState.cell (s : SState) (o : SObj) (k : Nat) : Option Val := do (← s.store[o.root]?)[k]?

def SObj.elems (s : SState) (o : SObj) : Option (List Val) := o.idx.elems.mapM (s.cell o)

def showPat (p : List (Int × Bool)) : String :=
  if p.isEmpty then "-" else String.intercalate "," (p.map (fun (d, b) => if b then s!"{d}?" else s!"{d}"))

/-- result of one S step: new state, optional output fields -/
structure SOut where
  s : SState
  line : Option String := none

def sameLA (a b : LA Nat) : Bool := a.shape == b.shape && a.elems == b.elems

/-- object id of variable token in M's state (identity is shared between M and S) -/
def sObj (ps : PState) (ss : SState) (tok : String) : Option (Nat × SObj) := do
  let k ← parseVar tok
  let id ← (← ps.vars[k]?)
  let o ← (← ss.objs[id]?)
  pure (id, o)

def SState.setObj (ss : SState) (id : Nat) (o : Option SObj) : SState :=
  { ss with objs := ss.objs.setIfInBounds id o }

/-- S gives up on object `id`: since it may have been written through, every object referring to
    the same cells (its views / its parent) is given up as well. -/
def SState.kill (ss : SState) (id : Nat) : SState :=
  match ss.objs[id]? with
  | some (some o) => { ss with objs := ss.objs.map (fun x => match x with
      | some y => if y.root == o.root then none else some y
      | none => none) }
  | _ => ss

/-- pad `objs` so that it is as long as M's object table (new objects S does not define are `none`) -/
def SState.sync (ss : SState) (n : Nat) : SState :=
  if ss.objs.size < n then { ss with objs := ss.objs ++ Array.replicate (n - ss.objs.size) none } else ss


/-- S: elementwise binary operation. Operands are logical arrays or Go scalars. -/
def specBin (psBefore : PState) (ss : SState) (newId : Nat) (mres : String) (op via a b : String) (optToks : List String)
    (fin : SState → Option String → SOut) : SOut :=
  let isArith := arithOps.contains op
  let tc := if isArith then numberTypes else if ordCmpOps.contains op then ordTypes else eqTypes
  let unsafe_ := optToks.contains "unsafe"
  let same := optToks.contains "same"
  let reuseTok := (optToks.find? (·.startsWith "reuse=")).map (fun t => (t.drop 6).toString)
  let incrTok := (optToks.find? (·.startsWith "incr=")).map (fun t => (t.drop 5).toString)
  -- operands
  let opnd (tok : String) : Option (Option (Nat × SObj) × Option String) :=   -- (tensor?, literal?)
    if tok.startsWith "$" then (sObj psBefore ss tok).map (fun x => (some x, none))
    else if tok.startsWith "#" then some (none, some (tok.drop 1).toString) else none
  -- objects the call may write (unsafe: the tensor operands; reuse / incr: the destination)
  let idOf (tok : String) : List Nat := match sObj psBefore ss tok with | some (i, _) => [i] | none => []
  let dests : List Nat := (if unsafe_ then idOf a ++ idOf b else []) ++
    (match reuseTok with | some t => idOf t | none => []) ++ (match incrTok with | some t => idOf t | none => [])
  let undef (ss : SState) : SOut := fin (dests.foldl (fun ss i => ss.kill i) ss) none
  match opnd a, opnd b with
  | some (ta, la), some (tb, lb) =>
    -- the tensor operand that fixes shape and dtype; scalar tensors (rank 0) are outside S's domain here
    let tens := match ta, tb with
      | some x, _ => some x
      | none, some y => some y
      | none, none => none
    match tens with
    | none => undef ss
    | some (tid, t) =>
      let dtOf (tok : String) : String := match psBefore.obj tok with | some (_, d) => d.dt | none => "?"
      let tdt := if ta.isSome then dtOf a else dtOf b
      let litDt (l : String) : String := match l.splitOn ":" with | [_, d] => d | _ => tdt
      let litTerm (l : String) : Val := match l.splitOn ":" with | [x, d] => .lit s!"{x}:{d}" | _ => .lit s!"{l}:{tdt}"
      -- rank-0 tensor operands, or a method call: leave to the correspondence only
      let scalarTensor := (match ta with | some (_, x) => x.idx.shape.isEmpty | none => false) ||
                          (match tb with | some (_, x) => x.idx.shape.isEmpty | none => false)
      if scalarTensor then undef ss else
      -- refusals
      let dtA := match ta, la with | some _, _ => dtOf a | _, some l => litDt l | _, _ => "?"
      let dtB := match tb, lb with | some _, _ => dtOf b | _, some l => litDt l | _, _ => "?"
      -- a refusal leaves every tensor but the designated destination (reuse / incr / the unsafe operand) as it was;
      -- the destination's content is unspecified afterwards
      let refuse (ss : SState) : SOut :=
        fin (dests.foldl (fun ss i => ss.kill i) ss) (some "r=err")
      -- arithmetic destinations must have the operands' element type
      let destDtBad := isArith && ((match reuseTok with | some t => dtOf t != tdt | none => false) ||
        (match incrTok with | some t => dtOf t != tdt | none => false))
      if !tc.contains tdt || dtA != dtB || (isArith && !(kernelTypes op).contains tdt) || destDtBad then refuse ss else
      let shapesOk := match ta, tb with
        | some (_, x), some (_, y) => some (x.idx.shape == y.idx.shape, totalSize x.idx.shape == totalSize y.idx.shape)
        | _, _ => none
      match shapesOk with
      | some (false, false) => refuse ss
      | some (false, true) => undef ss      -- same size, different shape: soft vector equality, not specified
      | _ =>
        let ea := match ta, la with
          | some (_, x), _ => x.elems ss
          | none, some l => some (List.replicate t.idx.elems.length (litTerm l))
          | _, _ => none
        let eb := match tb, lb with
          | some (_, y), _ => y.elems ss
          | none, some l => some (List.replicate t.idx.elems.length (litTerm l))
          | _, _ => none
        match ea, eb with
        | some ea, some eb =>
          let boolRes := !isArith && !same && !unsafe_
          let fn := if isArith then op else if boolRes then op else op ++ ".same"
          let vals := List.zipWith (fun x y => Val.app2 fn x y) ea eb
          -- destination
          match incrTok, reuseTok with
          | some it, _ =>
            match sObj psBefore ss it with
            | some (iid, io) =>
              if io.idx.elems.length != vals.length then fin ss (some "r=err") else
              if io.idx.shape != t.idx.shape then undef ss else
              match io.elems ss, ss.store[io.root]? with
              | some old, some bcells =>
                let nv := List.zipWith (fun r x => Val.app2 "add" r x) old vals
                let b' := (io.idx.elems.zip nv).foldl (fun b (k, v) => b.setIfInBounds k v) bcells
                if io.isView && mres != "ok" then fin ss (some "r=ok|err") else
                fin { ss with store := ss.store.set! io.root b' } (some s!"r={if io.isView then "ok|err" else "ok"} ident={psBefore.firstVar iid}")
              | _, _ => fin ss none
            | none => fin ss none
          | none, some rt =>
            match sObj psBefore ss rt with
            | some (rid, ro) =>
              if ro.idx.elems.length != vals.length then fin ss (some "r=err") else
              if ro.idx.shape != t.idx.shape then fin (ss.setObj rid none) none else
              match ss.store[ro.root]? with
              | some bcells =>
                let b' := (ro.idx.elems.zip vals).foldl (fun b (k, v) => b.setIfInBounds k v) bcells
                if ro.isView && mres != "ok" then fin ss (some "r=ok|err") else
                fin { ss with store := ss.store.set! ro.root b' } (some s!"r={if ro.isView then "ok|err" else "ok"} ident={psBefore.firstVar rid}")
              | none => fin ss none
            | none => fin ss none
          | none, none =>
            if unsafe_ then
              match ss.store[t.root]? with
              | some bcells =>
                let b' := (t.idx.elems.zip vals).foldl (fun b (k, v) => b.setIfInBounds k v) bcells
                fin { ss with store := ss.store.set! t.root b' } (some s!"r=ok ident={psBefore.firstVar tid}")
              | none => fin ss none
            else
              let root := ss.store.size
              let ss := { ss with store := ss.store.push vals.toArray }
              let o' : SObj := { root := root, idx := ⟨t.idx.shape, List.range vals.length⟩ }
              let _ := via
              fin ({ ss with objs := (ss.sync newId).objs.push (some o') }) (some "r=ok ident=new")
        | _, _ => fin ss none
  | _, _ => fin ss none


/-- S: unary operation / mapped function: the scalar function of the operand's element at every coordinate. -/
def specUn (psBefore : PState) (ss : SState) (newId : Nat) (mres : String) (op a : String) (rest : List String)
    (fin : SState → Option String → SOut) : SOut :=
  let params := (rest.takeWhile (·.startsWith "#")).map (fun t => (t.drop 1).toString)
  let optToks := rest.dropWhile (·.startsWith "#")
  let unsafe_ := optToks.contains "unsafe"
  let reuseTok := (optToks.find? (·.startsWith "reuse=")).map (fun t => (t.drop 6).toString)
  let incrTok := (optToks.find? (·.startsWith "incr=")).map (fun t => (t.drop 5).toString)
  let idOf (tok : String) : List Nat := match sObj psBefore ss tok with | some (i, _) => [i] | none => []
  let dests : List Nat := (if unsafe_ then idOf a else []) ++
    (match reuseTok with | some t => idOf t | none => []) ++ (match incrTok with | some t => idOf t | none => [])
  let undef (ss : SState) : SOut := fin (dests.foldl (fun ss i => ss.kill i) ss) none
  let refuse (ss : SState) : SOut := fin (dests.foldl (fun ss i => ss.kill i) ss) (some "r=err")
  match sObj psBefore ss a, psBefore.obj a with
  | some (tid, t), some (_, d) =>
    let supported : Bool := if op == "apply" then mapTypes.contains d.dt else
      match unaryClasses.find? (·.1 == op) with
      | some (_, tc, kt) => tc.contains d.dt && kt.contains d.dt
      | none => false
    if !supported then refuse ss else
    -- `UseUnsafe()` together with a reuse or increment tensor names two destinations: the properties do not say which
    -- one wins (the library works in place on the operand and ignores the other) - nothing is claimed
    if unsafe_ && (incrTok.isSome || reuseTok.isSome) then undef ss else
    -- an increment is an addition: bool has none, the element type is outside the domain of `Apply` with `WithIncr`
    if op == "apply" && incrTok.isSome && d.dt == "b" then refuse ss else
    match t.elems ss with
    | none => undef ss
    | some ea =>
      let g := unaryFn op d.dt params
      let vals := ea.map g
      match incrTok, reuseTok with
      | some it, _ =>
        match sObj psBefore ss it with
        | some (iid, io) =>
          if io.idx.elems.length != vals.length then refuse ss else
          if io.idx.shape != t.idx.shape then undef ss else
          match io.elems ss, ss.store[io.root]? with
          | some old, some bcells =>
            let nv := List.zipWith (fun r x => Val.app2 "add" r x) old vals
            let b' := (io.idx.elems.zip nv).foldl (fun b (k, v) => b.setIfInBounds k v) bcells
            if io.isView && mres != "ok" then fin ss (some "r=ok|err") else
            fin { ss with store := ss.store.set! io.root b' } (some s!"r={if io.isView then "ok|err" else "ok"} ident={psBefore.firstVar iid}")
          | _, _ => undef ss
        | none => undef ss
      | none, some rt =>
        match sObj psBefore ss rt with
        | some (rid, ro) =>
          if ro.idx.elems.length != vals.length then refuse ss else
          if ro.idx.shape != t.idx.shape then undef ss else
          match ss.store[ro.root]? with
          | some bcells =>
            let b' := (ro.idx.elems.zip vals).foldl (fun b (k, v) => b.setIfInBounds k v) bcells
            if ro.isView && mres != "ok" then fin ss (some "r=ok|err") else
            fin { ss with store := ss.store.set! ro.root b' } (some s!"r={if ro.isView then "ok|err" else "ok"} ident={psBefore.firstVar rid}")
          | none => undef ss
        | none => undef ss
      | none, none =>
        if unsafe_ then
          match ss.store[t.root]? with
          | some bcells =>
            let b' := (t.idx.elems.zip vals).foldl (fun b (k, v) => b.setIfInBounds k v) bcells
            fin { ss with store := ss.store.set! t.root b' } (some s!"r=ok ident={psBefore.firstVar tid}")
          | none => undef ss
        else
          let root := ss.store.size
          let ss := { ss with store := ss.store.push vals.toArray }
          let o' : SObj := { root := root, idx := ⟨t.idx.shape, List.range vals.length⟩ }
          fin ({ ss with objs := (ss.sync newId).objs.push (some o') }) (some "r=ok ident=new")
  | _, _ => undef ss

/-- identity only: did M's object `id` get another data buffer in this step? (A tensor that owns its data without
    holding it in the default layout of its shape — the clone of a non-contiguous view — is given an array of its own
    by `Reshape` and by a physical transposition.) -/
def movedBuf (psBefore psAfter : PState) (id : Nat) : Bool :=
  match psBefore.ds[id]?, psAfter.ds[id]? with
  | some d, some d' => d.win.buf != d'.win.buf
  | _, _ => false

/-- the object stops sharing cells with the others: it refers to a copy of its root's cells -/
def SState.setMoved (ss : SState) (id : Nat) (o : SObj) : SState :=
  match ss.store[o.root]? with
  | some cells => { ss with store := ss.store.push cells }.setObj id (some { o with root := ss.store.size })
  | none => ss.setObj id none

/--
  One step of S. `psBefore`/`psAfter` are M's states (used only for variable → object identity and to
  learn whether the *model* changed an object, never for values). `mres` is M's outcome class.
-/
def stepS (psBefore psAfter : PState) (ss : SState) (stepIdx : Nat) (toks : List String) (mres : String) : SOut :=
  let ss := ss.sync psBefore.ds.size
  let newId := psBefore.ds.size   -- id a tensor-producing step gives its result in M
  let fin (ss : SState) (line : Option String) : SOut :=
    let ss := ss.sync psAfter.ds.size
    { s := { ss with objs := ss.objs.extract 0 psAfter.ds.size }, line := line }
  match toks with
  | ["new", _, shape, order] =>
    match parseIntList shape with
    | none => fin ss none
    | some sh =>
      if sh.any (· < 0) then fin ss none else
      let n := (totalSize sh).toNat
      let bid := psBefore.nnew
      let cells : Array Val := (Array.range n).map (fun i => Val.src bid i)
      let root := ss.store.size
      let ss := { ss with store := ss.store.push cells }
      let idx : Option (LA Nat) := match order with
        | "Fraw" => LA.tabulate sh (fun c => some (colRank sh c).toNat)
        | _ => some ⟨sh, List.range n⟩
      match idx with
      | none => fin ss none
      | some idx =>
        let o : SObj := { root := root, idx := idx, col := order != "C", ordered := false }
        fin ({ ss with objs := (ss.sync newId).objs.push (some o) }) (some "r=ok")
  | ["slice", v, spec] =>
    match sObj psBefore ss v, parseSlList spec with
    | some (_, o), some sls =>
      if sls.length > o.idx.shape.length then fin ss (some "r=err") else
      match axisSels sls o.idx.shape with
      | .reject => fin ss (some "r=err")
      | .undef => fin ss none
      | .ok sels =>
        match o.idx.slice sels with
        | none => fin ss none
        | some full =>
          let keep := sels.filter (fun s => !s.drop)
          let o' : SObj := { root := o.root, idx := ⟨keep.map (·.n), full.elems⟩,
                             pat := sels.map (fun s => (s.n, s.drop)), col := o.col, isView := true }
          fin ({ ss with objs := (ss.sync newId).objs.push (some o') }) (some "r=ok")
    | _, _ => fin ss none
  | ["T", v, axes] =>
    match sObj psBefore ss v, parseIntList axes with
    | some (id, o), some ax =>
      let n := o.idx.shape.length
      let ax := if ax.isEmpty then (rangeI n).reverse else ax
      if !isPerm ax n then
        -- outside the specification's domain; the object stays defined only if it was refused
        if mres == "err" then fin ss none else fin (ss.setObj id none) none
      else
        match o.idx.transpose (ax.map Int.toNat) with
        | none => fin (ss.setObj id none) none
        | some idx' =>
          -- identity axes are a no-op; anything else is a lazy transpose that `UT` undoes
          if ax == rangeI n then fin (ss.setObj id (some { o with pat := [] })) (some "r=ok") else
          let pend := match o.pending with
            | .none => Pend.one o.idx
            | _ => Pend.ambiguous
          let o' : SObj := { o with idx := idx', pending := pend, pat := [], ordered := false }
          -- a second `T` may run the physical transposition first
          if !o.isView && movedBuf psBefore psAfter id then fin (ss.setMoved id o') (some "r=ok") else
          fin (ss.setObj id (some o')) (some "r=ok")
    | _, _ => fin ss none
  | ["UT", v] =>
    match sObj psBefore ss v with
    | some (id, o) =>
      match o.pending with
      | .none => fin ss (some "r=ok")
      | .one b => fin (ss.setObj id (some { o with idx := b, pending := .none, ordered := false, pat := [] })) (some "r=ok")
      | .ambiguous => fin (ss.setObj id none) none
    | _ => fin ss none
  | ["transpose", v] =>
    match sObj psBefore ss v with
    | some (id, o) =>
      -- only a transpose S *knows* to be pending makes a claim about the storage order afterwards (`ambiguous`:
      -- the second T may have been the undo of the first, then nothing moves)
      let wasPending := match o.pending with | .one _ => true | _ => false
      let o' : SObj := { o with pending := .none, ordered := (wasPending && !o.isView) || o.ordered, pat := [] }
      if !o.isView && movedBuf psBefore psAfter id then fin (ss.setMoved id o') (some "r=ok") else
      fin (ss.setObj id (some o')) (some "r=ok")
    | _ => fin ss none
  | ["at", v, coords] =>
    match sObj psBefore ss v, parseIntList coords with
    | some (_, o), some c =>
      match o.idx.at c with
      | none => fin ss (some "r=err")
      | some k => match ss.cell o k with
        | some x => fin ss (some s!"r=ok v={x}")
        | none => fin ss none
    | _, _ => fin ss none
  | ["atbox", v, lo, hi] =>
    match sObj psBefore ss v, lo.toInt?, hi.toInt? with
    | some (_, o), some lo, some hi =>
      let axes := o.idx.shape.map (fun d => (rangeI ((d + hi - lo + 1).toNat)).map (· + lo))
      let coords := axes.foldr (fun ax acc => ax.flatMap (fun i => acc.map (i :: ·))) [[]]
      let out := coords.map (fun c => match o.idx.at c with
        | none => "err"
        | some k => match ss.cell o k with
          | some x => x.toStr
          | none => "?")
      fin ss (some ("box=" ++ String.intercalate "," out))
    | _, _, _ => fin ss none
  | ["setat", v, coords] =>
    match sObj psBefore ss v, parseIntList coords with
    | some (_, o), some c =>
      match o.idx.at c with
      | none => fin ss (some "r=err")
      | some k =>
        match ss.store[o.root]? with
        | some b => fin { ss with store := ss.store.set! o.root (b.setIfInBounds k (.lit s!"w{stepIdx}")) } (some "r=ok")
        | none => fin ss none
    | _, _ => fin ss none
  | ["clone", v] =>
    match sObj psBefore ss v with
    | some (_, o) =>
      if mres != "ok" then fin ss (some "r=ok") else
      match ss.store[o.root]? with
      | some cells =>
        let root := ss.store.size
        let ss := { ss with store := ss.store.push cells }
        fin ({ ss with objs := (ss.sync newId).objs.push (some { o with root := root, isView := false, pat := [] }) }) (some "r=ok")
      | none => fin ss none
    | _ => fin ss none
  | ["shallow", v] =>
    match sObj psBefore ss v with
    | some (_, o) =>
      if mres != "ok" then fin ss (some "r=ok") else
      fin ({ ss with objs := (ss.sync newId).objs.push (some o) }) (some "r=ok")
    | _ => fin ss none
  | ["mat", v] =>
    match sObj psBefore ss v with
    | some (_, o) =>
      if mres != "ok" then fin ss (some "r=ok") else
      if psAfter.ds.size == psBefore.ds.size then fin ss (some "r=ok") else   -- the tensor itself was returned
      match o.elems ss with
      | some es =>
        let root := ss.store.size
        let ss := { ss with store := ss.store.push es.toArray }
        let o' : SObj := { root := root, idx := ⟨o.idx.shape, List.range es.length⟩ }
        fin ({ ss with objs := (ss.sync newId).objs.push (some o') }) (some "r=ok")
      | none => fin ss none
    | _ => fin ss none
  | ["apiTranspose", v, axes] =>
    -- a fresh tensor presenting the permuted array, nothing pending
    match sObj psBefore ss v, parseIntList axes with
    | some (_, o), some ax =>
      let n := o.idx.shape.length
      let ax := if ax.isEmpty then (rangeI n).reverse else ax
      if !isPerm ax n then fin ss none else
      match o.elems ss, (⟨o.idx.shape, List.range o.idx.elems.length⟩ : LA Nat).transpose (ax.map Int.toNat) with
      | some es, some idx' =>
        if mres != "ok" then fin ss (some "r=ok") else
        let root := ss.store.size
        let ss := { ss with store := ss.store.push es.toArray }
        let o' : SObj := { root := root, idx := idx' }
        fin ({ ss with objs := (ss.sync newId).objs.push (some o') }) (some "r=ok")
      | _, _ => fin ss none
    | _, _ => fin ss none
  | ["safeT", v, axes] =>
    match sObj psBefore ss v, parseIntList axes with
    | some (_, o), some ax =>
      let n := o.idx.shape.length
      let ax := if ax.isEmpty then (rangeI n).reverse else ax
      if !isPerm ax n then fin ss none else
      match o.elems ss, (⟨o.idx.shape, List.range o.idx.elems.length⟩ : LA Nat).transpose (ax.map Int.toNat) with
      | some es, some idx' =>
        if mres != "ok" then fin ss (some "r=ok") else
        let root := ss.store.size
        let ss := { ss with store := ss.store.push es.toArray }
        let o' : SObj := { root := root, idx := idx', pending := .one ⟨o.idx.shape, List.range es.length⟩ }
        fin ({ ss with objs := (ss.sync newId).objs.push (some o') }) (some "r=ok")
      | _, _ => fin ss none
    | _, _ => fin ss none
  | ["memset", v] =>
    match sObj psBefore ss v with
    | some (_, o) =>
      match ss.store[o.root]? with
      | some b =>
        let b' := o.idx.elems.foldl (fun b k => b.setIfInBounds k (.lit s!"w{stepIdx}")) b
        fin { ss with store := ss.store.set! o.root b' } (some "r=ok")
      | none => fin ss none
    | _ => fin ss none
  | ["zero", v] =>
    match sObj psBefore ss v with
    | some (_, o) =>
      match ss.store[o.root]? with
      | some b =>
        let b' := o.idx.elems.foldl (fun b k => b.setIfInBounds k Val.zero) b
        fin { ss with store := ss.store.set! o.root b' } (some "r=ok")
      | none => fin ss none
    | _ => fin ss none
  | ["copy", d, v] =>
    match sObj psBefore ss d, sObj psBefore ss v with
    | some (did, dst), some (_, src) =>
      if dst.idx.shape != src.idx.shape then
        (if mres == "err" then fin ss none else fin (ss.setObj did none) none) else
      match src.elems ss, ss.store[dst.root]? with
      | some es, some b =>
        let b' := (dst.idx.elems.zip es).foldl (fun b (k, v) => b.setIfInBounds k v) b
        fin { ss with store := ss.store.set! dst.root b' } (some "r=ok")
      | _, _ => fin ss none
    | some (did, _), none => fin (ss.setObj did none) none
    | _, _ => fin ss none
  | ["copyto", v, d] =>
    match sObj psBefore ss v, sObj psBefore ss d with
    | some (sid, src), some (did, dst) =>
      if sid == did then fin ss (some "r=ok") else
      let plain (o : SObj) := !o.isView && (match o.pending with | .none => true | _ => false)
      if plain src && plain dst && src.idx.shape == dst.idx.shape && src.col == dst.col then
        match src.elems ss, ss.store[dst.root]? with
        | some es, some b =>
          let b' := (dst.idx.elems.zip es).foldl (fun b (k, v) => b.setIfInBounds k v) b
          fin { ss with store := ss.store.set! dst.root b' } (some "r=ok")
        | _, _ => fin ss none
      else (if mres == "err" then fin ss none else fin (ss.setObj did none) none)
    | _, some (did, _) => fin (ss.setObj did none) none
    | _, _ => fin ss none
  | ["reshape", v, dims] =>
    match sObj psBefore ss v, parseIntList dims with
    | some (id, o), some dims =>
      if dims.any (· < 0) then fin (ss.setObj id none) none else
      if totalSize dims != totalSize o.idx.shape then fin ss (some "r=err") else
      -- the flat element sequence in the tensor's own data order is preserved
      let newIdx : Option (LA Nat) :=
        if !o.col then some ⟨dims, o.idx.elems⟩
        else do
          -- column-major listing of the old tensor, laid out column-major under the new shape
          let colList ← ((allCoords o.idx.shape.reverse).mapM (fun c => o.idx.at c.reverse))
          LA.tabulate dims (fun c => getI? colList (colRank dims c))
      match newIdx with
      | none => fin (ss.setObj id none) none
      | some ni =>
        if mres == "ok" then
          -- identity only: a tensor that owns its data may be given an array of its own by the reshape (one that does
          -- not hold its elements in the default layout of its shape is compacted); it then stops sharing cells with
          -- the views taken from it before, which keep theirs. Whether that happened is read off M's object.
          let o' : SObj := { o with idx := ni, pending := .none, pat := [], ordered := false }
          if !o.isView && movedBuf psBefore psAfter id then fin (ss.setMoved id o') (some "r=ok") else
          fin (ss.setObj id (some o'))
            (some (if o.isView then "r=ok|err" else "r=ok"))
        else fin ss (some (if o.isView then "r=ok|err" else "r=ok"))
    | _, _ => fin ss none
  | ["calcS", v, spec] =>
    -- the calculator must predict the shape the executed slice produces, and fail when it fails
    match sObj psBefore ss v, parseSlList spec with
    | some (_, o), some sls =>
      if sls.length > o.idx.shape.length then fin ss (some "r=err") else
      match axisSels sls o.idx.shape with
      | .reject => fin ss (some "r=err")
      | .undef => fin ss none
      | .ok sels => fin ss (some s!"r=ok shape={showInts ((sels.filter (fun s => !s.drop)).map (·.n))} shapeopt={showPat (sels.map (fun s => (s.n, s.drop)))}")
    | _, _ => fin ss none
  | ["calcT", v, axes] =>
    match sObj psBefore ss v, parseIntList axes with
    | some (_, o), some ax =>
      let n := o.idx.shape.length
      let ax := if ax.isEmpty then (rangeI n).reverse else ax
      if !isPerm ax n then fin ss none else
      fin ss (some s!"r=ok shape={showInts (ax.map (fun i => (getI? o.idx.shape i).getD 1))}")
    | _, _ => fin ss none
  | "bin" :: op :: via :: a :: b :: opts => specBin psBefore ss newId mres op via a b opts fin
  | "un" :: op :: a :: rest => specUn psBefore ss newId mres op a rest fin
  | ["iter", v, script] =>
    match sObj psBefore ss v with
    | some (_, o) =>
      match o.elems ss with
      | some es =>
        if script == "Nd" then fin ss (some s!"cells={showVals es}")
        else if script == "rNd" then fin ss (some s!"cells={showVals es.reverse}")
        else fin ss none
      | none => fin ss none
    | _ => fin ss none
  | ["dump", v] =>
    match sObj psBefore ss v with
    | some (_, o) =>
      match o.elems ss with
      | some es =>
        let base := s!"shape={showInts o.idx.shape} wf=1 elems={showVals es}"
        let base := if o.pat.isEmpty then base else base ++ s!" shapeopt={showPat o.pat}"
        let base := if o.ordered && !o.col then base ++ s!" raw={showVals es}" else base
        fin ss (some base)
      | none => fin ss none
    | _ => fin ss none
  | _ => fin ss none

end TM
