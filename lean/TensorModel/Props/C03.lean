import TensorModel.Proofs.Transpose
import TensorModel.Proofs.Roll
import TensorModel.Proofs.Compact
/-!
  C03 — transposition is a pure permutation of axes.
  Property theorems only; helper lemmas live in `TensorModel/Proofs/Transpose.lean` (and `Proofs/Roll.lean`,
  `Proofs/Compact.lean`).
-/
namespace TM.C03

/-- `xs.gather p = [xs[p₀], xs[p₁], …]` — what a transposition by `p` does to shape and strides. -/
def gather {α} [Inhabited α] (p : List Int) (xs : List α) : List α := p.map (fun i => xs[i.toNat]!)

/-- `p` is a permutation of `0..n-1` -/
def ValidPerm (p : List Int) (n : Nat) : Prop := isPerm p n = true

/-- `UnsafePermute` (in-place cycle following for rank ≥ 3, swap for rank 2) applied to `0..n-1`
    yields the pattern itself, for every permutation of rank ≤ 5 (the ranks C03 quantifies over).
    Kernel-evaluated over all 154 permutations. -/
theorem unsafePermute_range (n : Nat) (hn : n ≤ 5) (p : List Int) (hp : ValidPerm p n) :
    unsafePermute p (rangeI n) = .ok (if (isMonotonicInts p).1 && (isMonotonicInts p).2 then PermRes.noop else PermRes.ok p) := by
  exact unsafePermute_rangeI n hn p hp

/-- Naturality: `UnsafePermute` moves positions, never looks at the values. -/
theorem unsafePermute_map {α β} (f : α → β) (p : List Int) (xs : List α) :
    unsafePermute p (xs.map f) =
      (unsafePermute p xs).map (fun r => match r with | .ok ys => PermRes.ok (ys.map f) | .noop => PermRes.noop) := by
  rw [unsafePermute_map' f p xs]
  cases unsafePermute p xs with
  | error e => rfl
  | ok r => cases r <;> rfl

/-- Hence for any list of length ≤ 5 (shape or strides; dimensions are unbounded) `UnsafePermute`
    is the gather by the pattern. -/
theorem unsafePermute_gather (p : List Int) (xs : List Int) (hn : xs.length ≤ 5) (hp : ValidPerm p xs.length)
    (hni : ¬ ((isMonotonicInts p).1 && (isMonotonicInts p).2) = true) :
    unsafePermute p xs = .ok (PermRes.ok (gather p xs)) := by
  exact unsafePermute_getElem p xs hn hp hni

/-- Gathering coordinates and strides by the same permutation preserves the offset: element
    `(c[p₀],…,c[pₖ])`-of-the-source is element `c` of the result. Any rank. -/
theorem dot_gather (p : List Int) (n : Nat) (hp : ValidPerm p n) (c s : List Int)
    (hc : c.length = n) (hs : s.length = n) :
    dot (gather p c) (gather p s) = dot c s := by
  exact dot_getElem_perm p n hp c s hc hs

/-- `AP.T` on a non-vector, non-scalar-equivalent pattern of rank ≤ 5 with a valid non-identity
    permutation returns the gathered shape and strides and sets the transposed flag. -/
theorem apT_gather (ap : AP) (axes : List Int) (hr : ap.shape.length ≤ 5)
    (hl : ap.strides.length = ap.shape.length)
    (hp : ValidPerm axes ap.shape.length) (hne : axes ≠ [])
    (hnse : isScalarEquiv ap.shape = false) (hnv : isVector ap.shape = false)
    (hni : ¬ ((isMonotonicInts axes).1 && (isMonotonicInts axes).2) = true) :
    ap.T axes = .ok (.ok { shape := gather axes ap.shape, strides := gather axes ap.strides, fin := true,
                           o := { ap.o with transposed := true } } axes) := by
  exact apT_getElem ap axes hr hl hp hne hnse hnv hni

/-- `AP.T` on a two-dimensional vector `(1, n)` / `(n, 1)` (no axes, or the axes `(1, 0)`), **whatever its strides
    are** (a view of a column, of every k-th element, …): the shape is swapped and the axis that holds the elements
    keeps its stride; the axis of extent one gets the stride 1. -/
theorem apT_vector (ap : AP) (a b s0 s1 : Int) (hsh : ap.shape = [a, b]) (hst : ap.strides = [s0, s1])
    (hv : isVector [a, b] = true) (axes : List Int) (hax : axes = [] ∨ axes = [1, 0]) :
    ap.T axes = .ok (.ok { shape := [b, a], strides := vectorTStrides b s0 s1, fin := true,
                           o := { ap.o with transposed := true } } [1, 0]) := by
  exact apT_vector2 ap a b s0 s1 hsh hst hv axes hax

/-- … and element `(i, j)` of the transposed vector is element `(j, i)` of the source: both address the same cell. -/
theorem apT_vector_offset (a b s0 s1 i j : Int) (hv : isVector [a, b] = true)
    (hi : 0 ≤ i ∧ i < b) (hj : 0 ≤ j ∧ j < a) :
    dot [i, j] (vectorTStrides b s0 s1) = dot [j, i] [s0, s1] := by
  exact vectorT_dot a b s0 s1 i j hv hi hj

/-- `Transpose()` of a vector with a pending transpose (one stride per axis; a view, or a tensor whose array is in the
    default layout of the pattern the transpose started from) moves no data, drops the pending
    transpose and leaves every element where it was: each in-box coordinate addresses the cell it addressed before,
    whatever the vector's strides are. -/
theorem transpose_vector_pure (st : St) (t : Dense) (o : AP) (hold : t.old = some o) (hv : isVector t.shape = true)
    (hk : (t.view || Dense.isDefaultLayout o t.win.len) = true) (hns : isScalar t.shape = false) (hl : t.ap.strides.length = t.ap.shape.length)
    (hdl : (Dense.defaultStrides t.ap.o.col t.shape).length = t.ap.shape.length) :
    ∃ t', Dense.transpose st t = .ok (st, t') ∧ t'.old = none ∧ t'.shape = t.shape ∧ t'.win = t.win ∧
      ∀ c, inBox t.shape c = true → dot c t'.ap.strides = dot c t.ap.strides := by
  exact transpose_vector st t o hold hv hk hns hl hdl

/-- **Physical transposition of a tensor that owns its data, the array not being in the default layout of the pattern
    the pending transpose started from** (the clone of a non-contiguous view keeps the view's window and strides; the
    `SafeT()` copy of a lazily transposed tensor keeps the permuted pattern — after the repair of findings F16 / F120,
    where the copying engine gathered into the head of an over-long window and the in-place engine followed cycles
    computed for a standard layout and panicked; now neither engine is asked, so the two builds agree): row-major
    tensors. The call succeeds, the pending transpose is gone, the tensor keeps its transposed shape under the default
    strides over a buffer of its own of exactly `size` cells, and cell `k` of that buffer holds the element the lazily
    transposed tensor had at the coordinate of row-major rank `k`: no logical element changes, the storage is in the
    logical order of the transposed tensor, and no cell that existed before is changed. Any rank, any pattern. -/
theorem transpose_compacts_rowMajor (st : St) (t : Dense) (o : AP)
    (hold : t.old = some o) (hv : t.view = false) (hnd : Dense.isDefaultLayout o t.win.len = false)
    (hns : isScalar t.shape = false) (hrow : t.ap.o.col = false)
    (hnm : t.mask = none) (hlen0 : t.win.len ≠ 0) (hlen1 : t.win.len ≠ 1)
    (hl : t.ap.strides.length = t.ap.shape.length) (hp : ∀ d ∈ t.ap.shape, 0 < d)
    (hcap : t.win.len ≤ t.win.cap) (hbuf : t.win.buf < st.heap.size)
    (hr : ∀ c ∈ allCoords t.ap.shape, 0 ≤ dot c t.ap.strides ∧ dot c t.ap.strides < (t.win.len : Int))
    (hs : Has st t.win.buf t.win.off t.win.len) :
    ∃ st' t', Dense.transpose st t = .ok (st', t') ∧ t'.old = none ∧ t'.tw = none ∧ t'.ap.shape = t.ap.shape ∧
      t'.ap.strides = calcStrides t.ap.shape ∧ t'.ap.o = {} ∧
      t'.win = ⟨st.heap.size, 0, (totalSize t.shape).toNat, (totalSize t.shape).toNat⟩ ∧ t'.mask = none ∧
      (∀ x ∈ allCoords t.ap.shape,
        cell st' st.heap.size (rowRank t.ap.shape x).toNat =
          some (cellD st t.win.buf (t.win.off + (dot x t.ap.strides).toNat))) ∧
      (∀ b k, b < st.heap.size → cell st' b k = cell st b k) := by
  obtain ⟨w1, w2, w3⟩ := rowDefault_wf t.ap.shape hp
  have e : Dense.defaultStrides t.ap.o.col t.ap.shape = calcStrides t.ap.shape := by
    simp [Dense.defaultStrides, hrow]
  have := transpose_compacts' st t o hold hv hnd hns hnm hlen0 hlen1 hl hp hcap hbuf hr hs
    (by rw [e]; exact w1) (by rw [e]; exact w2) (by rw [e]; exact w3)
  have e' : Dense.defaultStrides false t.ap.shape = calcStrides t.ap.shape := by simp [Dense.defaultStrides]
  simp only [hrow, e'] at this
  exact this

/-- … column-major tensors (one stride per axis: the shape is not scalar-equivalent): cell `k` of the new buffer holds
    the element at the coordinate of column-major rank `k` — the storage is in the tensor's own data order. -/
theorem transpose_compacts_colMajor (st : St) (t : Dense) (o : AP)
    (hold : t.old = some o) (hv : t.view = false) (hnd : Dense.isDefaultLayout o t.win.len = false)
    (hns : isScalar t.shape = false) (hnv : isVector t.shape = false) (hcol : t.ap.o.col = true)
    (hse : isScalarEquiv t.ap.shape = false)
    (hnm : t.mask = none) (hlen0 : t.win.len ≠ 0) (hlen1 : t.win.len ≠ 1)
    (hl : t.ap.strides.length = t.ap.shape.length) (hp : ∀ d ∈ t.ap.shape, 0 < d)
    (hcap : t.win.len ≤ t.win.cap) (hbuf : t.win.buf < st.heap.size)
    (hr : ∀ c ∈ allCoords t.ap.shape, 0 ≤ dot c t.ap.strides ∧ dot c t.ap.strides < (t.win.len : Int))
    (hs : Has st t.win.buf t.win.off t.win.len) :
    ∃ st' t', Dense.transpose st t = .ok (st', t') ∧ t'.old = none ∧ t'.tw = none ∧ t'.ap.shape = t.ap.shape ∧
      t'.ap.strides = prefixProds 1 t.ap.shape ∧ t'.ap.o = { col := true } ∧
      t'.win = ⟨st.heap.size, 0, (totalSize t.shape).toNat, (totalSize t.shape).toNat⟩ ∧ t'.mask = none ∧
      (∀ x ∈ allCoords t.ap.shape,
        cell st' st.heap.size (colRank t.ap.shape x).toNat =
          some (cellD st t.win.buf (t.win.off + (dot x t.ap.strides).toNat))) ∧
      (∀ b k, b < st.heap.size → cell st' b k = cell st b k) := by
  obtain ⟨w0, w1, w2, w3⟩ := colDefault_wf t.ap.shape hp hse hnv
  have e : Dense.defaultStrides t.ap.o.col t.ap.shape = calcStridesCol t.ap.shape := by
    simp [Dense.defaultStrides, hcol]
  have := transpose_compacts' st t o hold hv hnd hns hnm hlen0 hlen1 hl hp hcap hbuf hr hs
    (by rw [e]; exact w1) (by rw [e]; exact w2) (by rw [e]; exact w3)
  have e' : Dense.defaultStrides true t.ap.shape = prefixProds 1 t.ap.shape := by
    simp [Dense.defaultStrides, w0]
  simp only [hcol, e'] at this
  exact this

/-- non-vacuity (the transposition witness of finding F16): the clone of the first two columns of a 3×3 matrix —
    window of eight cells, strides (3, 1), not a view — lazily transposed; `Transpose()` gives it a buffer of six
    cells holding the transposed listing (before the repair: gathered into the head of the eight-cell window) -/
def tcSt : St := { heap := #[#[.src 0 0, .src 0 1, .src 0 2, .src 0 3, .src 0 4, .src 0 5, .src 0 6, .src 0 7]] }
def tcOld : AP := { shape := [3, 2], strides := [3, 1], fin := true, o := { nonContig := true } }
def tcClone : Dense := { ap := { shape := [2, 3], strides := [1, 3], fin := true, o := { nonContig := true, transposed := true } },
                         old := some tcOld, tw := some [1, 0], win := ⟨0, 0, 8, 8⟩, dt := "i16" }
example : Dense.isDefaultLayout tcOld tcClone.win.len = false ∧ tcClone.view = false ∧
    (match Dense.transpose tcSt tcClone with
     | .ok (s, r) => r.old.isNone && r.ap.shape == [2, 3] && r.ap.strides == [3, 1] && r.win == ⟨1, 0, 6, 6⟩ &&
         (s.heap[1]? == some #[.src 0 0, .src 0 3, .src 0 6, .src 0 1, .src 0 4, .src 0 7]) && (s.heap[0]? == tcSt.heap[0]?)
     | _ => false) = true := by decide
/-- … and (the shape of finding F120) the `SafeT()` copy of a lazily transposed (1,2,3) tensor: the pattern its pending
    transpose started from is itself permuted; the elements are collected by coordinate -/
def tcOld2 : AP := { shape := [3, 2, 1], strides := [1, 3, 6], fin := true, o := { nonContig := true, transposed := true } }
def tcSafe : Dense := { ap := { shape := [1, 2, 3], strides := [6, 3, 1], fin := true, o := { nonContig := true, transposed := true } },
                        old := some tcOld2, tw := some [2, 1, 0], win := ⟨0, 0, 6, 8⟩, dt := "f64" }
example : Dense.isDefaultLayout tcOld2 tcSafe.win.len = false ∧
    (match Dense.transpose tcSt tcSafe with
     | .ok (s, r) => r.old.isNone && r.ap.strides == [6, 3, 1] && r.win == ⟨1, 0, 6, 6⟩ &&
         (s.heap[1]? == some #[.src 0 0, .src 0 1, .src 0 2, .src 0 3, .src 0 4, .src 0 5])
     | _ => false) = true := by decide

/-- Undoing a lazy transpose restores the original tensor exactly (metadata and storage window). -/
theorem UT_T (st : St) (t t' : Dense) (axes : List Int) (hold : t.old = none) (htw : t.tw = none)
    (h : Dense.T st t axes = .ok (st, t')) : t'.ut = t := by
  exact denseT_ut st t t' axes hold htw h

/-- A lazy transpose never touches storage. -/
theorem T_pure (st st' : St) (t t' : Dense) (axes : List Int) (hold : t.old = none)
    (h : Dense.T st t axes = .ok (st', t')) : st' = st ∧ t'.win = t.win := by
  exact denseT_pure st st' t t' axes hold h

/-! ### Axis rolling (`RollAxis(axis, start, safe)`): a transposition by the axes vector `rollAxes` builds -/

/-- `RollAxis` refuses exactly the axes outside `[0, dims)` and the targets outside `[0, dims]`. -/
theorem roll_refuses_iff (dims : Nat) (axis start : Int) :
    (∃ r, Dense.rollAxes dims axis start = .ok r) ↔ (0 ≤ axis ∧ axis < dims) ∧ (0 ≤ start ∧ start ≤ dims) :=
  rollAxes_ok_iff dims axis start

/-- the tensor itself is returned exactly when the axis already sits at its target position -/
theorem roll_noop (dims : Nat) (axis start : Int) (h : Dense.rollAxes dims axis start = .ok none) :
    axis = rollPos axis start := rollAxes_none h

/-- otherwise the axes vector is a permutation of `0..dims-1` (so every theorem above about transposition by a
    valid permutation applies to the rolled tensor), … -/
theorem roll_axes_valid (dims : Nat) (axis start : Int) (a : List Int)
    (h : Dense.rollAxes dims axis start = .ok (some a)) : ValidPerm a dims := rollAxes_isPerm h

/-- … the rolled axis ends up at position `start` (one less when it came from before `start`), … -/
theorem roll_axis_position (dims : Nat) (axis start : Int) (a : List Int)
    (h : Dense.rollAxes dims axis start = .ok (some a)) :
    a[(rollPos axis start).toNat]? = some axis := rollAxes_pos h

/-- … and all other axes keep their relative order. -/
theorem roll_others_keep_order (dims : Nat) (axis start : Int) (a : List Int)
    (h : Dense.rollAxes dims axis start = .ok (some a)) :
    a.filter (· != axis) = (rangeI dims).filter (· != axis) := rollAxes_others h

-- concrete instances (non-vacuity)
example : (match Dense.rollAxes 4 3 1 with | .ok (some [0, 3, 1, 2]) => true | _ => false) = true := by decide
example : (match Dense.rollAxes 4 1 4 with | .ok (some [0, 2, 3, 1]) => true | _ => false) = true := by decide
example : (match Dense.rollAxes 3 1 2 with | .ok none => true | _ => false) = true := by decide
example : ValidPerm [2, 0, 1] 3 := by unfold ValidPerm; decide
-- a column of a 3×3 matrix seen as a (3, 1) vector with strides (3, 1): its transpose (1, 3) keeps the stride 3
example : (match ({ shape := [3, 1], strides := [3, 1] } : AP).T [] with
  | .ok (.ok tap _) => tap.shape == [1, 3] && tap.strides == [1, 3] | _ => false) = true := by decide
-- every second element of a row, a (1, 2) vector with strides (6, 2): its transpose (2, 1) keeps the stride 2
example : (match ({ shape := [1, 2], strides := [6, 2] } : AP).T [1, 0] with
  | .ok (.ok tap _) => tap.shape == [2, 1] && tap.strides == [2, 1] | _ => false) = true := by decide
-- contiguous vectors keep the strides (1, 1) the library has always given them
example : (match ({ shape := [1, 4], strides := [4, 1] } : AP).T [] with
  | .ok (.ok tap _) => tap.shape == [4, 1] && tap.strides == [1, 1] | _ => false) = true := by decide
example : isVector [3, 1] = true ∧ isVector [1, 2] = true := by decide
-- physical transposition of such a vector: the long axis keeps the stride 3, the unit axis gets the default one
example : Dense.vectorKeepStrides [1, 3] [3, 1] [1, 3] = [3, 3] := by decide
example : (match unsafePermute [2, 0, 1] ([10, 20, 30] : List Int) with | .ok (.ok [30, 10, 20]) => true | _ => false) = true := by decide

end TM.C03
