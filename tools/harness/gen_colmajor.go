package main

import (
	"bufio"
	"bytes"
	"fmt"
	"strings"
)

func init() { generators["C16"] = genC16 }

var colLayouts = []string{"colmajor", "colconv", "colT", "colmajor", "contig", "lazyT", "sliced", "colsliced", "colstepped"}

// C16: the operation matrices of the other properties re-run with column-major operands
// (each operand and the reuse destination independently column-major, built both ways).
func genC16(g *gen) {
	// 1. the core generators (addressing, slicing, transposition, views, iterators, reshape):
	//    keep exactly the programs that build a column-major tensor
	for _, sub := range []struct {
		name string
		f    func(*gen)
		keep int // keep 1 of `keep` matching programs in the quick tier
	}{{"C01", genC01, 2}, {"C02", genC02, 6}, {"C03", genC03, 2}, {"C04", genC04, 1}, {"C05", genC05, 3}, {"C13", genC13, 2},
		{"C08", generators["C08"], 1}, {"C09", generators["C09"], 1}, {"C10", generators["C10"], 1}, {"C14", generators["C14"], 3}, {"C15", generators["C15"], 2},
		{"C17conv", generators["C17compat"], 1}} {
		if sub.f == nil {
			continue
		}
		if sub.name == "C10" {
			// the assembling generator draws its operand layouts from asmLayouts: column-major ones for this run
			saved := asmLayouts
			asmLayouts = []string{"colmajor", "colconv", "colT", "contig", "colmajor", "sliced"}
			defer func() { asmLayouts = saved }()
		}
		var buf bytes.Buffer
		w := bufio.NewWriter(&buf)
		sg := &gen{w: w, r: &rng{s: g.r.next()}, tier: g.tier, pfx: "x_"}
		sub.f(sg)
		w.Flush()
		k := 0
		for _, line := range strings.Split(buf.String(), "\n") {
			if !strings.Contains(line, " Fraw") && !strings.Contains(line, " Fconv") {
				continue
			}
			k++
			if !g.thorough() && k%sub.keep != 0 {
				continue
			}
			i := strings.Index(line, " ; ")
			if i < 0 {
				continue
			}
			g.n++
			fmt.Fprintf(g.w, "%s%d_%s%s\n", g.pfx, g.n, sub.name, line[i:])
		}
	}
	// 2. arithmetic, comparison, minmax, unary with column-major operands / destinations
	n := 2
	if g.thorough() {
		n = 40
	}
	pickL := func() string { return g.r.pick(colLayouts) }
	g.orderMismatchMatrix()
	// operands of different data orders (one row-major, one column-major, both contiguous), every mode: shapes with a unit
	// first or last extent at rank 3 and 4 included - the storage sequences agree only at rank <= 2
	for _, op := range []string{"add", "sub", "mul", "gt", "minb"} {
		for _, sh := range [][]int{{1, 2, 3}, {2, 3, 1}, {1, 3, 2, 1}, {2, 3}, {1, 4}, {2, 1, 3}, {1, 2, 3, 2}} {
			for _, lay := range [][2]string{{"contig", "colmajor"}, {"colmajor", "contig"}, {"colconv", "contig"}} {
				for _, mode := range []string{"safe", "unsafe", "reuse"} {
					m := mode
					if op == "gt" && mode == "reuse" {
						m = "reuse-same"
					}
					g.binProgram(op, g.r.pick([]string{"f64", "i32", "u16"}), "TT", g.r.pick([]string{"fn", "meth"}), sh, lay[0], lay[1], m, "contig")
				}
			}
		}
	}
	for _, op := range append(append(append([]string{}, arithOps...), cmpOps...), "minb", "maxb") {
		isCmp := false
		for _, c := range cmpOps {
			if c == op {
				isCmp = true
			}
		}
		modes := []string{"safe", "unsafe", "reuse", "incr", "reuse=a", "reuse=b"}
		if isCmp {
			modes = []string{"safe", "same", "unsafe", "reuse-bool", "reuse-same"}
		}
		if op == "minb" || op == "maxb" {
			modes = []string{"safe", "reuse"}
		}
		for _, mode := range modes {
			for _, kind := range []string{"TT", "TS", "ST"} {
				for k := 0; k < n; k++ {
					dts := numDtypes
					if isCmp || op == "minb" || op == "maxb" {
						dts = ordDtypes[:12]
					}
					la, lb := pickL(), pickL()
					if !strings.HasPrefix(la, "col") && !strings.HasPrefix(lb, "col") {
						la = "colmajor"
					}
					g.binProgram(op, g.r.pick(dts), kind, g.r.pick([]string{"fn", "meth"}), g.pickShape(), la, lb, mode, pickL())
				}
			}
		}
	}
	for _, op := range unaryOps {
		for _, mode := range []string{"safe", "unsafe", "reuse", "incr"} {
			for k := 0; k < n; k++ {
				dt := g.r.pick([]string{"f64", "f32", "i32", "c128", "u8", "i64"})
				var steps []string
				nv := 0
				steps = append(steps, "vset=2")
				sh := g.pickShape()
				a := g.operand(&steps, &nv, dt, sh, g.r.pick([]string{"colmajor", "colconv", "colT"}))
				opts := ""
				extra := []int{a}
				switch mode {
				case "unsafe":
					opts = " unsafe"
				case "reuse", "incr":
					d := g.operand(&steps, &nv, dt, sh, pickL())
					extra = append(extra, d)
					opts = fmt.Sprintf(" %s=$%d", mode, d)
				}
				params := ""
				if op == "clamp" {
					params = " #k2 #k5"
				}
				steps = append(steps, fmt.Sprintf("un %s $%d%s%s", op, a, params, opts), fmt.Sprintf("dump $%d", nv))
				for _, o := range extra {
					steps = append(steps, fmt.Sprintf("dump $%d", o))
				}
				g.emit(steps...)
			}
		}
	}
}

// orderMismatchMatrix: the destination's data order differs from the (equally ordered, contiguous) operands' — the
// one situation in which only the destination forces the iterator path.
func (g *gen) orderMismatchMatrix() {
	for _, op := range []string{"add", "sub", "mul", "div"} {
		for _, mode := range []string{"reuse", "incr"} {
			for _, kind := range []string{"TT", "TS", "ST"} {
				for _, lay := range [][2]string{{"contig", "colmajor"}, {"colmajor", "contig"}, {"contig", "colconv"}, {"colconv", "contig"}} {
					for _, sh := range [][]int{{2, 3}, {2, 3, 2}} {
						g.binProgram(op, g.r.pick([]string{"f64", "i32", "c64", "u16"}), kind, "fn", sh, lay[0], lay[0], mode, lay[1])
					}
				}
			}
		}
	}
}

// captureGen runs a generator into memory and returns its program lines.
func captureGen(g *gen, f func(*gen)) []string {
	var buf bytes.Buffer
	w := bufio.NewWriter(&buf)
	sg := &gen{w: w, r: &rng{s: g.r.next()}, tier: g.tier, pfx: "x_"}
	f(sg)
	w.Flush()
	var out []string
	for _, l := range strings.Split(buf.String(), "\n") {
		if strings.TrimSpace(l) != "" {
			out = append(out, l)
		}
	}
	return out
}

func init() {
	// C17: the per-type kernels are reached through the operation matrices of C06, C11, C12 and C08
	generators["C17"] = func(g *gen) {
		for _, f := range []func(*gen){genC06, genC11, genC12} {
			for i, line := range captureGen(g, f) {
				_ = i // every line: the kernel matrices name each generated kernel variant exactly once
				j := strings.Index(line, " ; ")
				if j < 0 {
					continue
				}
				g.n++
				fmt.Fprintf(g.w, "%s%d%s\n", g.pfx, g.n, line[j:])
			}
		}
		if f, ok := generators["C17compat"]; ok {
			for _, line := range captureGen(g, f) {
				j := strings.Index(line, " ; ")
				if j < 0 {
					continue
				}
				g.n++
				fmt.Fprintf(g.w, "%s%d%s\n", g.pfx, g.n, line[j:])
			}
		}
		// masking predicates are generated per element type as well: every program of the C15 generator that runs one
		if f, ok := generators["C15"]; ok {
			for _, line := range captureGen(g, f) {
				j := strings.Index(line, " ; ")
				if j < 0 || !strings.Contains(line, "mpred ") {
					continue
				}
				g.n++
				fmt.Fprintf(g.w, "%s%d%s\n", g.pfx, g.n, line[j:])
			}
		}
		if f, ok := generators["C08"]; ok {
			for i, line := range captureGen(g, f) {
				_ = i
				j := strings.Index(line, " ; ")
				if j < 0 {
					continue
				}
				g.n++
				fmt.Fprintf(g.w, "%s%d%s\n", g.pfx, g.n, line[j:])
			}
		}
	}
}
