// gol — Go → Lean (shallow embedding) for the hand-written index arithmetic of gorgonia/tensor.
//
// usage: gol -repo /repo -out <dir>/Core.lean
//
// For every function named in `targets` the Go body is translated statement by statement into Lean
// `do`-notation over the monad `TM.Gen.GoM` (see lean/TensorModel/GoLib.lean for what the Go
// primitives mean). Loops become structurally recursive auxiliary functions over the list of
// iteration values; general `for` loops recurse on a fuel counter. Anything outside the supported
// subset makes the *whole function* unsupported: it is not emitted, its name and the reason are listed
// in the header comment and in `<out>.summary.json`, and the Lean theorems that mention it no longer
// compile — the translator never guesses.
//
// The output is rewritten only when its content changes. Standard library only.
package main

import (
	"bytes"
	"flag"
	"fmt"
	"go/ast"
	"go/parser"
	"go/printer"
	"go/token"
	"os"
	"path/filepath"
	"sort"
	"strings"
)

// ---------------------------------------------------------------------------------------------
// what is translated: file -> function names ("Recv.Name" for methods)

var targets = []struct {
	file  string
	names []string
}{
	{"utils.go", []string{"MinInt", "MaxInt", "SumInts", "ProdInts", "IsMonotonicInts", "Ltoi", "Itol", "CheckSlice", "SliceDetails"}},
	{"mathutils_go.go", []string{"divmod"}},
	{"shape.go", []string{"Shape.TotalSize", "Shape.CalcStrides", "Shape.CalcStridesColMajor", "Shape.Eq", "Shape.Clone",
		"Shape.IsScalar", "Shape.IsScalarEquiv", "Shape.IsVector", "Shape.IsColVec", "Shape.IsRowVec", "Shape.IsVectorLike",
		"Shape.IsMatrix", "Shape.Dims", "Shape.DimSize", "Shape.S", "Shape.Repeat", "Shape.Concat"}},
	{"flags.go", []string{"MakeDataOrder", "DataOrder.IsColMajor", "DataOrder.IsRowMajor", "DataOrder.IsContiguous",
		"DataOrder.IsNotContiguous", "DataOrder.IsTransposed", "DataOrder.toggleColMajor", "DataOrder.clearTransposed",
		"DataOrder.HasSameOrder"}},
	{"ap.go", []string{"MakeAP", "AP.SetShape", "AP.Dims", "AP.Size", "AP.IsVector", "AP.IsVectorLike", "AP.IsColVec", "AP.IsRowVec",
		"AP.IsScalar", "AP.IsScalarEquiv", "AP.IsMatrix", "AP.lock", "AP.unlock", "AP.calcStrides", "AP.setDataOrder", "AP.S"}},
}

// fields of the struct types the translator knows (Go field -> Lean field, Lean type); the Lean structures are
// in GoLib.lean
var structs = map[string][]struct{ goName, lean, ty string }{
	"GoAP": {{"shape", "shape", "List Int"}, {"strides", "strides", "List Int"}, {"fin", "fin", "Bool"}, {"o", "o", "GoOrder"}, {"Δ", "tri", "GoTri"}},
}

// ---------------------------------------------------------------------------------------------

type unsupported struct{ why string }

func fail(format string, a ...interface{}) { panic(unsupported{fmt.Sprintf(format, a...)}) }

var nilCompares int

// names of the pointer-receiver methods that assign a field of their receiver (filled by main)
var mutatingMethods = map[string]bool{}

var reserved = map[string]bool{"at": true, "end": true, "from": true, "fun": true, "open": true, "in": true, "then": true,
	"else": true, "do": true, "let": true, "have": true, "show": true, "by": true, "with": true, "match": true, "if": true,
	"instance": true, "structure": true, "def": true, "theorem": true, "section": true, "namespace": true, "variable": true,
	"local": true, "mut": true, "type": true, "where": true, "for": true, "return": true, "to": true, "using": true,
	"rest__": true, "x__": true, "fuel__": true, "Type": true, "Prop": true, "Sort": true, "len": true, "prefix": true,
	"infix": true, "notation": true, "macro": true, "syntax": true, "import": true, "export": true, "private": true,
	"protected": true, "unsafe": true, "partial": true, "mutual": true, "class": true, "deriving": true, "extends": true,
	"axiom": true, "example": true, "abbrev": true, "inductive": true, "universe": true, "calc": true, "suffices": true,
	"obtain": true, "exact": true, "nomatch": true, "nofun": true, "break": true, "continue": true, "try": true, "catch": true,
	"finally": true, "unless": true, "repeat": true, "while": true, "step": false}

func mangle(s string) string {
	if s == "Δ" {
		return "tri"
	}
	if reserved[s] {
		return s + "_"
	}
	return s
}

// Go type expression -> Lean type
func leanType(fset *token.FileSet, x ast.Expr) string {
	switch t := x.(type) {
	case *ast.Ident:
		switch t.Name {
		case "int":
			return "Int"
		case "bool":
			return "Bool"
		case "Shape":
			return "List Int"
		case "error":
			return "GoErr"
		case "Slice":
			return "GoSlice"
		case "string":
			return "String"
		case "DataOrder":
			return "GoOrder"
		case "Triangle":
			return "GoTri"
		case "AP":
			return "GoAP"
		}
	case *ast.StarExpr:
		if id, ok := t.X.(*ast.Ident); ok && id.Name == "AP" {
			return "GoAP"
		}
	case *ast.ArrayType:
		if t.Len == nil {
			return "List " + paren(leanType(fset, t.Elt))
		}
	case *ast.Ellipsis:
		return "List " + paren(leanType(fset, t.Elt))
	}
	fail("type %s", src(fset, x))
	return ""
}

func tryLeanType(fset *token.FileSet, x ast.Expr) (ty string) {
	defer func() {
		if r := recover(); r != nil {
			ty = ""
		}
	}()
	return leanType(fset, x)
}

func paren(s string) string {
	if strings.Contains(s, " ") {
		return "(" + s + ")"
	}
	return s
}

func zero(ty string) string {
	switch {
	case ty == "Int" || ty == "GoOrder" || ty == "GoTri":
		return "0"
	case ty == "GoAP":
		return "({} : GoAP)"
	case ty == "Bool":
		return "false"
	case strings.HasPrefix(ty, "List "):
		return "[]"
	case ty == "GoErr" || ty == "GoSlice":
		return "none"
	case ty == "String":
		return "\"\""
	}
	fail("zero value of %s", ty)
	return ""
}

func src(fset *token.FileSet, n ast.Node) string {
	var b bytes.Buffer
	printer.Fprint(&b, fset, n)
	return strings.Join(strings.Fields(b.String()), " ")
}

func tupleType(tys []string) string {
	switch len(tys) {
	case 0:
		return "Unit"
	case 1:
		return tys[0]
	}
	return strings.Join(tys, " × ")
}

func tupleVal(vs []string) string {
	switch len(vs) {
	case 0:
		return "()"
	case 1:
		return vs[0]
	}
	return "(" + strings.Join(vs, ", ") + ")"
}

// k-th component (0-based) of an n-tuple value `v`
func proj(v string, k, n int) string {
	if n == 1 {
		return v
	}
	s := v
	for i := 0; i < k; i++ {
		s += ".2"
	}
	if k < n-1 {
		s += ".1"
	}
	return s
}

// ---------------------------------------------------------------------------------------------

type sig struct {
	lean     string   // Lean name
	params   []string // Lean types
	results  []string // (for a mutating pointer receiver the updated receiver comes first)
	variadic bool
	mutRecv  bool
}

// integer constants of the translated files (`const ( A T = 1 << iota; B; C )` blocks)
var consts = map[string]struct {
	val int
	ty  string
}{}

type variable struct {
	lean string
	ty   string
}

type loopCtx struct {
	fn       string   // loop function name
	callArgs string   // free-variable arguments of the recursive call
	state    []string // Lean names of the state variables
	fuel     bool
	post     []string // lines of the post statement (fuel loops), unindented
}

type ftr struct {
	fset    *token.FileSet
	sigs    map[string]*sig // Go callee key ("F" / "Recv.M") -> signature
	name    string          // Lean name of the function being translated
	results []variable      // result variables (named or synthesised)
	named   bool
	scopes  []map[string]variable
	used    map[string]int
	ntmp    int
	nloop   int
	aux     []string // auxiliary (loop) definitions, in emission order
	loop    *loopCtx
	calls   map[string]bool
	idxAsg  map[string]bool // Go variables that are index-assigned somewhere in the function
	mutRecv bool
}

func (t *ftr) push() { t.scopes = append(t.scopes, map[string]variable{}) }
func (t *ftr) pop()  { t.scopes = t.scopes[:len(t.scopes)-1] }

func (t *ftr) declare(goName, ty string) string {
	base := mangle(goName)
	t.used[base]++
	lean := base
	if t.used[base] > 1 {
		lean = fmt.Sprintf("%s_%d", base, t.used[base])
	}
	t.scopes[len(t.scopes)-1][goName] = variable{lean, ty}
	return lean
}

func (t *ftr) lookup(goName string) (variable, bool) {
	for i := len(t.scopes) - 1; i >= 0; i-- {
		if v, ok := t.scopes[i][goName]; ok {
			return v, true
		}
	}
	return variable{}, false
}

// all variables visible now, outermost first, in declaration-name order per scope (deterministic)
func (t *ftr) visible() []struct {
	goName string
	v      variable
} {
	var out []struct {
		goName string
		v      variable
	}
	seen := map[string]bool{}
	for i := len(t.scopes) - 1; i >= 0; i-- {
		var names []string
		for n := range t.scopes[i] {
			names = append(names, n)
		}
		sort.Strings(names)
		for _, n := range names {
			if !seen[n] {
				seen[n] = true
				out = append(out, struct {
					goName string
					v      variable
				}{n, t.scopes[i][n]})
			}
		}
	}
	sort.Slice(out, func(a, b int) bool { return out[a].v.lean < out[b].v.lean })
	return out
}

func (t *ftr) tmp() string { t.ntmp++; return fmt.Sprintf("t%d__", t.ntmp) }

// ---------------------------------------------------------------------------------------------
// expressions: returns prelude lines (monadic bindings), a pure Lean term and its Lean type

func (t *ftr) receiverKey(x ast.Expr) string {
	switch t.typeOf(x) {
	case "List Int":
		return "Shape"
	case "GoSlice":
		return "Slice"
	case "GoOrder":
		return "DataOrder"
	case "GoAP":
		return "AP"
	}
	return ""
}

func (t *ftr) typeOf(x ast.Expr) string {
	_, _, ty := t.expr(x, "")
	return ty
}

func isNil(x ast.Expr) bool { id, ok := x.(*ast.Ident); return ok && id.Name == "nil" }

func (t *ftr) errString(args []ast.Expr) string {
	if len(args) == 0 {
		return "\"error\""
	}
	switch a := args[0].(type) {
	case *ast.BasicLit:
		if a.Kind == token.STRING {
			return a.Value
		}
	case *ast.Ident:
		return "\"" + a.Name + "\""
	case *ast.CallExpr: // errors.Wrapf(errors.Errorf(...), ...)
		return t.errString(a.Args)
	}
	return "\"error\""
}

// want: expected Lean type ("" = unknown), used for `nil` and untyped contexts
func (t *ftr) expr(x ast.Expr, want string) (pre []string, val string, ty string) {
	switch e := x.(type) {
	case *ast.ParenExpr:
		return t.expr(e.X, want)
	case *ast.BasicLit:
		if e.Kind == token.INT {
			return nil, e.Value, "Int"
		}
		if e.Kind == token.STRING {
			return nil, e.Value, "String"
		}
	case *ast.Ident:
		switch e.Name {
		case "nil":
			if want == "" {
				fail("untyped nil")
			}
			return nil, zero(want), want
		case "true", "false":
			return nil, e.Name, "Bool"
		case "AllAxes":
			return nil, "(-1)", "Int"
		}
		if v, ok := t.lookup(e.Name); ok {
			return nil, v.lean, v.ty
		}
		if c, ok := consts[e.Name]; ok {
			return nil, fmt.Sprintf("(%d : %s)", c.val, c.ty), c.ty
		}
		fail("unknown identifier %s", e.Name)
	case *ast.UnaryExpr:
		p, v, ty := t.expr(e.X, want)
		switch e.Op {
		case token.SUB:
			return p, "(-" + v + ")", "Int"
		case token.NOT:
			return p, "(!" + v + ")", "Bool"
		case token.ADD:
			return p, v, ty
		}
	case *ast.BinaryExpr:
		return t.binary(e)
	case *ast.IndexExpr:
		px, vx, tx := t.expr(e.X, "")
		pi, vi, _ := t.expr(e.Index, "Int")
		if !strings.HasPrefix(tx, "List ") {
			fail("index of %s", tx)
		}
		elem := strings.TrimPrefix(tx, "List ")
		elem = strings.TrimSuffix(strings.TrimPrefix(elem, "("), ")")
		tn := t.tmp()
		pre = append(append(px, pi...), fmt.Sprintf("let %s ← gidx %s %s", tn, vx, vi))
		return pre, tn, elem
	case *ast.SliceExpr:
		if e.Slice3 {
			fail("3-index slice")
		}
		px, vx, tx := t.expr(e.X, "")
		if !strings.HasPrefix(tx, "List ") {
			fail("slice of %s", tx)
		}
		lo, hi := "0", "(len "+vx+")"
		pre = px
		if e.Low != nil {
			p, v, _ := t.expr(e.Low, "Int")
			pre, lo = append(pre, p...), v
		}
		if e.High != nil {
			p, v, _ := t.expr(e.High, "Int")
			pre, hi = append(pre, p...), v
		}
		tn := t.tmp()
		pre = append(pre, fmt.Sprintf("let %s ← gslice %s %s %s", tn, vx, lo, hi))
		return pre, tn, tx
	case *ast.SelectorExpr:
		px, vx, tx := t.expr(e.X, "")
		for _, f := range structs[tx] {
			if f.goName == e.Sel.Name {
				return px, vx + "." + f.lean, f.ty
			}
		}
		fail("field %s of %s", e.Sel.Name, tx)
	case *ast.CompositeLit:
		ty := leanType(t.fset, e.Type)
		if fields, ok := structs[ty]; ok {
			var parts []string
			for _, el := range e.Elts {
				kv, ok := el.(*ast.KeyValueExpr)
				if !ok {
					fail("positional struct literal")
				}
				k := kv.Key.(*ast.Ident).Name
				found := false
				for _, f := range fields {
					if f.goName == k {
						p, v, _ := t.expr(kv.Value, f.ty)
						pre = append(pre, p...)
						parts = append(parts, f.lean+" := "+v)
						found = true
					}
				}
				if !found {
					fail("field %s", k)
				}
			}
			return pre, "({ " + strings.Join(parts, ", ") + " } : " + ty + ")", ty
		}
		if !strings.HasPrefix(ty, "List ") {
			fail("composite literal of %s", ty)
		}
		elem := strings.TrimPrefix(ty, "List ")
		var vs []string
		for _, el := range e.Elts {
			if _, ok := el.(*ast.KeyValueExpr); ok {
				fail("keyed composite literal")
			}
			p, v, _ := t.expr(el, elem)
			pre = append(pre, p...)
			vs = append(vs, v)
		}
		return pre, "[" + strings.Join(vs, ", ") + "]", ty
	case *ast.CallExpr:
		return t.call(e, want)
	}
	fail("expression %s", src(t.fset, x))
	return
}

func (t *ftr) binary(e *ast.BinaryExpr) (pre []string, val string, ty string) {
	// comparisons with nil
	if e.Op == token.EQL || e.Op == token.NEQ {
		var other ast.Expr
		if isNil(e.Y) {
			other = e.X
		} else if isNil(e.X) {
			other = e.Y
		}
		if other != nil {
			p, v, ty := t.expr(other, "")
			if strings.HasPrefix(ty, "List ") {
				// nil and empty slices are identified (GoLib.lean); recorded in the summary
				nilCompares++
				if e.Op == token.EQL {
					return p, "(" + v + ".isEmpty)", "Bool"
				}
				return p, "(!" + v + ".isEmpty)", "Bool"
			}
			if ty != "GoErr" && ty != "GoSlice" {
				fail("comparison of %s with nil", ty)
			}
			if e.Op == token.EQL {
				return p, "(" + v + ".isNone)", "Bool"
			}
			return p, "(" + v + ".isSome)", "Bool"
		}
	}
	if e.Op == token.LAND || e.Op == token.LOR {
		pl, vl, _ := t.expr(e.X, "Bool")
		pr, vr, _ := t.expr(e.Y, "Bool")
		if len(pr) == 0 {
			op := "&&"
			if e.Op == token.LOR {
				op = "||"
			}
			return pl, "(" + vl + " " + op + " " + vr + ")", "Bool"
		}
		// the right operand has run-time checks: evaluate it only when Go does
		tn := t.tmp()
		pre = append(pl, fmt.Sprintf("let mut %s : Bool := %s", tn, vl))
		cond := tn
		if e.Op == token.LOR {
			cond = "!" + tn
		}
		pre = append(pre, "if "+cond+" then")
		for _, l := range pr {
			pre = append(pre, "  "+l)
		}
		pre = append(pre, "  "+tn+" := "+vr)
		return pre, tn, "Bool"
	}
	pl, vl, tl := t.expr(e.X, "Int")
	pr, vr, _ := t.expr(e.Y, tl)
	pre = append(pl, pr...)
	switch e.Op {
	case token.AND, token.OR, token.XOR, token.AND_NOT:
		if tl != "GoOrder" {
			fail("bit operation on %s", tl)
		}
		fn := map[token.Token]string{token.AND: "gand", token.OR: "gor", token.XOR: "gxor", token.AND_NOT: "gandnot"}[e.Op]
		return pre, "(" + fn + " " + vl + " " + vr + ")", tl
	case token.ADD, token.SUB, token.MUL:
		if tl != "Int" {
			fail("arithmetic on %s", tl)
		}
		return pre, "(" + vl + " " + e.Op.String() + " " + vr + ")", "Int"
	case token.QUO, token.REM:
		fn := "gdiv"
		if e.Op == token.REM {
			fn = "gmod"
		}
		tn := t.tmp()
		pre = append(pre, fmt.Sprintf("let %s ← %s %s %s", tn, fn, vl, vr))
		return pre, tn, "Int"
	case token.LSS, token.LEQ, token.GTR, token.GEQ:
		if tl != "Int" {
			fail("ordering of %s", tl)
		}
		op := map[token.Token]string{token.LSS: "<", token.LEQ: "≤", token.GTR: ">", token.GEQ: "≥"}[e.Op]
		return pre, "(decide (" + vl + " " + op + " " + vr + "))", "Bool"
	case token.EQL, token.NEQ:
		if tl != "Int" && tl != "Bool" && tl != "GoOrder" && tl != "GoTri" {
			fail("equality of %s", tl)
		}
		op := "=="
		if e.Op == token.NEQ {
			op = "!="
		}
		return pre, "(" + vl + " " + op + " " + vr + ")", "Bool"
	}
	fail("operator %s", e.Op)
	return
}

func (t *ftr) args(es []ast.Expr, tys []string, variadic bool) (pre []string, vals []string) {
	for i, a := range es {
		want := ""
		if i < len(tys) {
			want = tys[i]
		}
		p, v, _ := t.expr(a, want)
		pre = append(pre, p...)
		vals = append(vals, paren(v))
	}
	return
}

// arguments of a call of a translated function; `skip` leading parameters belong to the receiver. The trailing
// arguments of a variadic callee are collected into a list unless the call spreads a slice (`f(xs...)`).
func (t *ftr) callArgs(e *ast.CallExpr, s *sig, skip int) (pre []string, vals []string) {
	params := s.params[skip:]
	if !s.variadic || e.Ellipsis.IsValid() {
		return t.args(e.Args, params, false)
	}
	nfixed := len(params) - 1
	pre, vals = t.args(e.Args[:nfixed], params[:nfixed], false)
	elem := strings.TrimSuffix(strings.TrimPrefix(strings.TrimPrefix(params[nfixed], "List "), "("), ")")
	var rest []string
	for _, a := range e.Args[nfixed:] {
		p, v, _ := t.expr(a, elem)
		pre = append(pre, p...)
		rest = append(rest, v)
	}
	return pre, append(vals, "["+strings.Join(rest, ", ")+"]")
}

func (t *ftr) call(e *ast.CallExpr, want string) (pre []string, val string, ty string) {
	monadic := func(fn string, argv []string, rty string) ([]string, string, string) {
		tn := t.tmp()
		return append(pre, fmt.Sprintf("let %s ← %s %s", tn, fn, strings.Join(argv, " "))), tn, rty
	}
	switch f := e.Fun.(type) {
	case *ast.Ident:
		switch f.Name {
		case "len":
			p, v, ty := t.expr(e.Args[0], "")
			if !strings.HasPrefix(ty, "List ") {
				fail("len of %s", ty)
			}
			return p, "(len " + v + ")", "Int"
		case "int":
			return t.expr(e.Args[0], "Int")
		case "Shape":
			return t.expr(e.Args[0], "List Int")
		case "BorrowInts":
			p, v, _ := t.expr(e.Args[0], "Int")
			pre = p
			return monadic("gmake", []string{paren(v)}, "List Int")
		case "make":
			if len(e.Args) != 2 || leanType(t.fset, e.Args[0]) != "List Int" {
				fail("make %s", src(t.fset, e))
			}
			p, v, _ := t.expr(e.Args[1], "Int")
			pre = p
			return monadic("gmake", []string{paren(v)}, "List Int")
		case "append":
			p0, v0, ty0 := t.expr(e.Args[0], want)
			if !strings.HasPrefix(ty0, "List ") {
				fail("append to %s", ty0)
			}
			elem := strings.TrimPrefix(ty0, "List ")
			pre = p0
			if e.Ellipsis.IsValid() {
				if len(e.Args) != 2 {
					fail("append with spread")
				}
				p1, v1, _ := t.expr(e.Args[1], ty0)
				return append(pre, p1...), "(" + v0 + " ++ " + v1 + ")", ty0
			}
			var vs []string
			for _, a := range e.Args[1:] {
				p, v, _ := t.expr(a, elem)
				pre = append(pre, p...)
				vs = append(vs, v)
			}
			return pre, "(" + v0 + " ++ [" + strings.Join(vs, ", ") + "])", ty0
		case "divmod":
			p, vs := t.args(e.Args, []string{"Int", "Int"}, false)
			pre = p
			return monadic("divmod", vs, "Int × Int")
		case "ScalarShape":
			return nil, "([] : List Int)", "List Int"
		}
		if _, isVar := t.lookup(f.Name); isVar {
			fail("call of a function value")
		}
		if s, ok := t.sigs[f.Name]; ok {
			t.calls[f.Name] = true
			p, vs := t.callArgs(e, s, 0)
			pre = p
			return monadic(s.lean, vs, tupleType(s.results))
		}
		fail("call of %s", f.Name)
	case *ast.ArrayType: // []int(s)
		return t.expr(e.Args[0], leanType(t.fset, f))
	case *ast.SelectorExpr:
		if pkg, ok := f.X.(*ast.Ident); ok {
			if _, isVar := t.lookup(pkg.Name); !isVar {
				if (pkg.Name == "errors" || pkg.Name == "fmt") && (f.Sel.Name == "Errorf" || f.Sel.Name == "New" || f.Sel.Name == "Wrapf" || f.Sel.Name == "Wrap") {
					// the arguments are evaluated for their run-time checks, the value is the message name
					var args []ast.Expr
					for i, a := range e.Args {
						if i == 0 {
							if c, ok := a.(*ast.CallExpr); ok { // Wrapf(inner error, ...)
								args = append(args, c.Args[1:]...)
							}
							continue
						}
						args = append(args, a)
					}
					for _, a := range args {
						if _, ok := a.(*ast.BasicLit); ok {
							continue
						}
						p, _, _ := t.expr(a, "")
						pre = append(pre, p...)
					}
					return pre, "(some " + t.errString(e.Args) + ")", "GoErr"
				}
				fail("call of %s.%s", pkg.Name, f.Sel.Name)
			}
		}
		key := t.receiverKey(f.X)
		if key == "" {
			fail("method call on %s", src(t.fset, f.X))
		}
		name := key + "." + f.Sel.Name
		if key == "Slice" {
			p, v, _ := t.expr(f.X, "")
			pre = p
			switch f.Sel.Name {
			case "Start", "End", "Step":
				return monadic("Slice_"+f.Sel.Name, []string{paren(v)}, "Int")
			}
			fail("method %s", name)
		}
		s, ok := t.sigs[name]
		if !ok {
			fail("call of %s", name)
		}
		t.calls[name] = true
		if s.mutRecv {
			fail("call of the receiver-modifying method %s in an expression", name)
		}
		p0, v0, _ := t.expr(f.X, "")
		p, vs := t.callArgs(e, s, 1)
		pre = append(p0, p...)
		return monadic(s.lean, append([]string{paren(v0)}, vs...), tupleType(s.results))
	}
	fail("call %s", src(t.fset, e))
	return
}

// ---------------------------------------------------------------------------------------------
// statements

func ind(lines []string) []string {
	out := make([]string, len(lines))
	for i, l := range lines {
		out[i] = "  " + l
	}
	return out
}

func (t *ftr) resultVals() string {
	var vs []string
	for _, r := range t.results {
		vs = append(vs, r.lean)
	}
	return tupleVal(vs)
}

func (t *ftr) emitReturn(val string) string {
	if t.loop != nil {
		return "return (Ctl.ret " + val + ")"
	}
	return "return " + val
}

func (t *ftr) stateVals(l *loopCtx) string { return tupleVal(l.state) }

func (t *ftr) recurse(l *loopCtx) string {
	it := "rest__"
	if l.fuel {
		it = "fuel__"
	}
	s := l.fn + " " + l.callArgs + " " + it
	for _, v := range l.state {
		s += " " + v
	}
	return strings.Join(strings.Fields(s), " ")
}

func (t *ftr) block(b *ast.BlockStmt) []string {
	t.push()
	defer t.pop()
	var out []string
	for _, s := range b.List {
		out = append(out, t.stmt(s)...)
	}
	if len(out) == 0 {
		out = []string{"pure ()"}
	}
	return out
}

func (t *ftr) assignTo(lhs ast.Expr, val string, define bool, ty string) []string {
	switch l := lhs.(type) {
	case *ast.Ident:
		if l.Name == "_" {
			return nil
		}
		if define {
			if _, ok := t.scopes[len(t.scopes)-1][l.Name]; !ok {
				n := t.declare(l.Name, ty)
				return []string{fmt.Sprintf("let mut %s : %s := %s", n, ty, val)}
			}
		}
		v, ok := t.lookup(l.Name)
		if !ok {
			fail("assignment to unknown %s", l.Name)
		}
		return []string{v.lean + " := " + val}
	case *ast.SelectorExpr:
		id, ok := l.X.(*ast.Ident)
		if !ok {
			fail("field assignment to %s", src(t.fset, l.X))
		}
		v, ok := t.lookup(id.Name)
		if !ok {
			fail("field assignment to unknown %s", id.Name)
		}
		for _, f := range structs[v.ty] {
			if f.goName == l.Sel.Name {
				return []string{fmt.Sprintf("%s := { %s with %s := %s }", v.lean, v.lean, f.lean, val)}
			}
		}
		fail("field %s of %s", l.Sel.Name, v.ty)
	case *ast.IndexExpr:
		id, ok := l.X.(*ast.Ident)
		if !ok {
			fail("indexed assignment to %s", src(t.fset, l.X))
		}
		v, ok := t.lookup(id.Name)
		if !ok || !strings.HasPrefix(v.ty, "List ") {
			fail("indexed assignment to %s", id.Name)
		}
		pi, vi, _ := t.expr(l.Index, "Int")
		return append(pi, fmt.Sprintf("%s ← gset %s %s %s", v.lean, v.lean, paren(vi), paren(val)))
	}
	fail("assignment target %s", src(t.fset, lhs))
	return nil
}

func (t *ftr) lhsType(lhs ast.Expr) string {
	switch l := lhs.(type) {
	case *ast.Ident:
		if v, ok := t.lookup(l.Name); ok {
			return v.ty
		}
		return ""
	case *ast.IndexExpr:
		ty := t.typeOf(l.X)
		return strings.TrimSuffix(strings.TrimPrefix(strings.TrimPrefix(ty, "List "), "("), ")")
	case *ast.SelectorExpr:
		return t.typeOf(l)
	}
	return ""
}

func (t *ftr) assign(s *ast.AssignStmt) []string {
	define := s.Tok == token.DEFINE
	if s.Tok != token.ASSIGN && s.Tok != token.DEFINE {
		// op-assignment
		if len(s.Lhs) != 1 {
			fail("op-assignment")
		}
		op := map[token.Token]token.Token{token.ADD_ASSIGN: token.ADD, token.SUB_ASSIGN: token.SUB, token.MUL_ASSIGN: token.MUL,
			token.QUO_ASSIGN: token.QUO, token.REM_ASSIGN: token.REM, token.OR_ASSIGN: token.OR, token.AND_ASSIGN: token.AND,
			token.XOR_ASSIGN: token.XOR, token.AND_NOT_ASSIGN: token.AND_NOT}[s.Tok]
		if op == token.ILLEGAL {
			fail("operator %s", s.Tok)
		}
		p, v, _ := t.binary(&ast.BinaryExpr{X: s.Lhs[0], Op: op, Y: s.Rhs[0]})
		return append(p, t.assignTo(s.Lhs[0], v, false, "Int")...)
	}
	if len(s.Rhs) == 1 && len(s.Lhs) > 1 {
		// multi-value call
		p, v, ty := t.expr(s.Rhs[0], "")
		tys := strings.Split(ty, " × ")
		if len(tys) != len(s.Lhs) {
			fail("multi-value assignment %s", src(t.fset, s))
		}
		out := p
		for k, l := range s.Lhs {
			out = append(out, t.assignTo(l, proj(v, k, len(tys)), define, tys[k])...)
		}
		return out
	}
	if len(s.Rhs) != len(s.Lhs) {
		fail("assignment %s", src(t.fset, s))
	}
	// evaluate all right-hand sides first (Go semantics for tuple assignment)
	var out, vals, tys []string
	for k, r := range s.Rhs {
		p, v, ty := t.expr(r, t.lhsType(s.Lhs[k]))
		out = append(out, p...)
		if len(s.Rhs) > 1 {
			tn := t.tmp()
			out = append(out, fmt.Sprintf("let %s := %s", tn, v))
			v = tn
		}
		vals, tys = append(vals, v), append(tys, ty)
	}
	for k, l := range s.Lhs {
		out = append(out, t.assignTo(l, vals[k], define, tys[k])...)
	}
	return out
}

func (t *ftr) ifStmt(s *ast.IfStmt) []string {
	t.push()
	defer t.pop()
	var out []string
	if s.Init != nil {
		out = append(out, t.stmt(s.Init)...)
	}
	p, c, _ := t.expr(s.Cond, "Bool")
	out = append(out, p...)
	out = append(out, "if "+c+" then")
	out = append(out, ind(t.block(s.Body))...)
	if s.Else != nil {
		out = append(out, "else")
		switch el := s.Else.(type) {
		case *ast.BlockStmt:
			out = append(out, ind(t.block(el))...)
		case *ast.IfStmt:
			out = append(out, ind(t.ifStmt(el))...)
		}
	}
	return out
}

func (t *ftr) switchStmt(s *ast.SwitchStmt) []string {
	t.push()
	defer t.pop()
	var out []string
	if s.Init != nil {
		out = append(out, t.stmt(s.Init)...)
	}
	tag := ""
	if s.Tag != nil {
		p, v, ty := t.expr(s.Tag, "Int")
		if ty != "Int" {
			fail("switch on %s", ty)
		}
		out = append(out, p...)
		tag = v
	}
	// Go evaluates case expressions top to bottom until one matches: nested if / else
	var dflt *ast.CaseClause
	var clauses []*ast.CaseClause
	for _, c := range s.Body.List {
		cc := c.(*ast.CaseClause)
		for _, st := range cc.Body {
			ast.Inspect(st, func(n ast.Node) bool {
				if b, ok := n.(*ast.BranchStmt); ok && (b.Tok == token.FALLTHROUGH || b.Tok == token.BREAK) {
					if _, inLoop := n.(*ast.ForStmt); !inLoop {
						fail("break / fallthrough in switch")
					}
				}
				return true
			})
		}
		if cc.List == nil {
			dflt = cc
		} else {
			clauses = append(clauses, cc)
		}
	}
	var build func(k int) []string
	build = func(k int) []string {
		if k == len(clauses) {
			if dflt == nil {
				return []string{"pure ()"}
			}
			return t.block(&ast.BlockStmt{List: dflt.Body})
		}
		cc := clauses[k]
		var pre []string
		var conds []string
		for _, v := range cc.List {
			if tag == "" {
				p, c, _ := t.expr(v, "Bool")
				if len(p) > 0 && len(conds) > 0 {
					fail("case list with run-time checks")
				}
				pre = append(pre, p...)
				conds = append(conds, c)
			} else {
				p, c, _ := t.expr(v, "Int")
				if len(p) > 0 {
					fail("case value with run-time checks")
				}
				conds = append(conds, "("+tag+" == "+c+")")
			}
		}
		out := append(pre, "if "+strings.Join(conds, " || ")+" then")
		out = append(out, ind(t.block(&ast.BlockStmt{List: cc.Body}))...)
		out = append(out, "else")
		out = append(out, ind(build(k+1))...)
		return out
	}
	return append(out, build(0)...)
}

// names assigned (as variables or through an index) anywhere inside n
func assigned(n ast.Node) map[string]bool { return assignedIn(n, false) }

// inside a loop body a `:=` always declares a new variable (the body is a new scope): it never assigns loop state
func assignedIn(n ast.Node, ignoreDefine bool) map[string]bool {
	out := map[string]bool{}
	ast.Inspect(n, func(x ast.Node) bool {
		switch s := x.(type) {
		case *ast.AssignStmt:
			for _, l := range s.Lhs {
				if _, isId := l.(*ast.Ident); isId && ignoreDefine && s.Tok == token.DEFINE {
					continue
				}
				switch l := l.(type) {
				case *ast.Ident:
					out[l.Name] = true
				case *ast.IndexExpr:
					if id, ok := l.X.(*ast.Ident); ok {
						out[id.Name] = true
					}
				case *ast.SelectorExpr:
					if id, ok := l.X.(*ast.Ident); ok {
						out[id.Name] = true
					}
				}
			}
		case *ast.ExprStmt:
			// a call of a pointer-receiver method that modifies its receiver assigns the receiver
			if c, ok := s.X.(*ast.CallExpr); ok {
				if se, ok := c.Fun.(*ast.SelectorExpr); ok {
					if id, ok := se.X.(*ast.Ident); ok && mutatingMethods[se.Sel.Name] {
						out[id.Name] = true
					}
				}
			}
		case *ast.IncDecStmt:
			if id, ok := s.X.(*ast.Ident); ok {
				out[id.Name] = true
			}
		case *ast.RangeStmt:
			for _, e := range []ast.Expr{s.Key, s.Value} {
				if id, ok := e.(*ast.Ident); ok && s.Tok == token.ASSIGN {
					out[id.Name] = true
				}
			}
		}
		return true
	})
	return out
}

func mentions(n ast.Node) map[string]bool {
	out := map[string]bool{}
	ast.Inspect(n, func(x ast.Node) bool {
		if id, ok := x.(*ast.Ident); ok {
			out[id.Name] = true
		}
		return true
	})
	return out
}

// translate a loop: `iter` is the Lean term of the iteration list (or the fuel), `elemTy` its element
// type, `bind` declares the per-iteration variables from `x__` (list loops).
func (t *ftr) loopStmt(body *ast.BlockStmt, whole ast.Node, iter, elemTy string, bind func() []string, fuel bool,
	cond ast.Expr, post ast.Stmt) []string {
	t.nloop++
	fn := fmt.Sprintf("%s_loop%d", t.name, t.nloop)
	asg := assignedIn(body, true)
	if fs, ok := whole.(*ast.ForStmt); ok && fuel {
		// the counter declared in the init statement of a general loop is loop state
		for n := range assigned(fs.Post) {
			asg[n] = true
		}
	}
	men := mentions(whole)
	if t.named { // a bare `return` reads every named result
		ast.Inspect(whole, func(n ast.Node) bool {
			if r, ok := n.(*ast.ReturnStmt); ok && len(r.Results) == 0 {
				for _, x := range t.visible() {
					for _, rv := range t.results {
						if x.v.lean == rv.lean {
							men[x.goName] = true
						}
					}
				}
			}
			return true
		})
	}
	var free, state []struct {
		goName string
		v      variable
	}
	for _, x := range t.visible() {
		if asg[x.goName] {
			state = append(state, x)
		} else if men[x.goName] {
			free = append(free, x)
		}
	}
	var params, callArgs, stateNames, stateTys []string
	for _, x := range free {
		params = append(params, fmt.Sprintf("(%s : %s)", x.v.lean, x.v.ty))
		callArgs = append(callArgs, x.v.lean)
	}
	for _, x := range state {
		stateNames = append(stateNames, x.v.lean)
		stateTys = append(stateTys, x.v.ty)
	}
	var resTys []string
	for _, r := range t.results {
		resTys = append(resTys, r.ty)
	}
	ctlTy := fmt.Sprintf("Ctl %s %s", paren(tupleType(resTys)), paren(tupleType(stateTys)))
	outer := t.loop
	l := &loopCtx{fn: fn, callArgs: strings.Join(callArgs, " "), state: stateNames, fuel: fuel}
	t.loop = l
	t.push()
	var bodyLines []string
	for _, v := range stateNames {
		bodyLines = append(bodyLines, fmt.Sprintf("let mut %s := %s", v, v))
	}
	if fuel {
		p, c, _ := t.expr(cond, "Bool")
		bodyLines = append(bodyLines, p...)
		bodyLines = append(bodyLines, "if !"+c+" then", "  return (Ctl.next "+t.stateVals(l)+")")
		if post != nil {
			l.post = t.stmt(post)
		}
	} else {
		bodyLines = append(bodyLines, bind()...)
	}
	bodyLines = append(bodyLines, t.block(body)...)
	bodyLines = append(bodyLines, l.post...)
	bodyLines = append(bodyLines, t.recurse(l))
	t.pop()
	t.loop = outer

	var d []string
	typeArgs := elemTy
	if fuel {
		typeArgs = "Nat"
	} else {
		typeArgs = "List " + paren(elemTy)
	}
	head := fmt.Sprintf("def %s %s : %s", fn, strings.Join(params, " "), typeArgs)
	for _, ty := range stateTys {
		head += " → " + paren(ty)
	}
	head += " → GoM (" + ctlTy + ")"
	d = append(d, strings.Join(strings.Fields(head), " "))
	pat := func(first string) string {
		s := "  | " + first
		for _, v := range stateNames {
			s += ", " + v
		}
		return s
	}
	if fuel {
		pats := "  | 0"
		for range stateNames {
			pats += ", _"
		}
		d = append(d, pats+" => throw Fault.fuel")
		d = append(d, pat("fuel__ + 1")+" => do")
	} else {
		d = append(d, pat("[]")+" => pure (Ctl.next "+tupleVal(stateNames)+")")
		d = append(d, pat("x__ :: rest__")+" => do")
	}
	d = append(d, ind(ind(bodyLines))...)
	t.aux = append(t.aux, strings.Join(d, "\n"))

	// the call
	call := fn + " " + strings.Join(callArgs, " ") + " " + paren(iter)
	for _, v := range stateNames {
		call += " " + v
	}
	out := []string{"match (← " + strings.Join(strings.Fields(call), " ") + ") with"}
	out = append(out, "| Ctl.ret r__ => "+t.emitReturn("r__"))
	if len(stateNames) == 0 {
		out = append(out, "| Ctl.next _ => pure ()")
	} else {
		out = append(out, "| Ctl.next s__ =>")
		for k, v := range stateNames {
			out = append(out, "  "+v+" := "+proj("s__", k, len(stateNames)))
		}
	}
	return out
}

func (t *ftr) rangeStmt(s *ast.RangeStmt) []string {
	if s.Tok != token.DEFINE {
		fail("range with =")
	}
	px, vx, tx := t.expr(s.X, "")
	if !strings.HasPrefix(tx, "List ") {
		fail("range over %s", tx)
	}
	elem := strings.TrimSuffix(strings.TrimPrefix(strings.TrimPrefix(tx, "List "), "("), ")")
	key, val := "", ""
	if id, ok := s.Key.(*ast.Ident); ok && id.Name != "_" {
		key = id.Name
	}
	if s.Value != nil {
		if id, ok := s.Value.(*ast.Ident); ok && id.Name != "_" {
			val = id.Name
		}
	}
	asg := assigned(s.Body)
	if id, ok := s.X.(*ast.Ident); ok && asg[id.Name] && val != "" {
		fail("range over a slice that the body modifies")
	}
	if key != "" && asg[key] || val != "" && asg[val] {
		fail("range variable assigned in the body")
	}
	var iter, elemTy string
	var bind func() []string
	switch {
	case key != "" && val != "":
		iter, elemTy = "enum "+vx, "Int × "+elem
		bind = func() []string {
			return []string{fmt.Sprintf("let %s : Int := x__.1", t.declare(key, "Int")), fmt.Sprintf("let %s : %s := x__.2", t.declare(val, elem), elem)}
		}
	case val != "":
		iter, elemTy = vx, elem
		bind = func() []string { return []string{fmt.Sprintf("let %s : %s := x__", t.declare(val, elem), elem)} }
	case key != "":
		iter, elemTy = "rangeUp 0 (len "+vx+")", "Int"
		bind = func() []string { return []string{fmt.Sprintf("let %s : Int := x__", t.declare(key, "Int"))} }
	default:
		iter, elemTy = "rangeUp 0 (len "+vx+")", "Int"
		bind = func() []string { return nil }
	}
	return append(px, t.loopStmt(s.Body, s, iter, elemTy, bind, false, nil, nil)...)
}

func (t *ftr) forStmt(s *ast.ForStmt) []string {
	// counted loop `for i := a; i <|<=|>|>= b; i++|i--`
	init, ok := s.Init.(*ast.AssignStmt)
	if !ok || init.Tok != token.DEFINE || len(init.Lhs) != 1 || len(init.Rhs) != 1 || s.Cond == nil || s.Post == nil {
		fail("for statement %s", src(t.fset, s.Cond))
	}
	iv, ok := init.Lhs[0].(*ast.Ident)
	cond, ok2 := s.Cond.(*ast.BinaryExpr)
	post, ok3 := s.Post.(*ast.IncDecStmt)
	if !ok || !ok2 || !ok3 {
		fail("for statement")
	}
	ci, okc := cond.X.(*ast.Ident)
	pi, okp := post.X.(*ast.Ident)
	if !okc || !okp || ci.Name != iv.Name || pi.Name != iv.Name {
		fail("for statement: loop variable")
	}
	up := post.Tok == token.INC
	asg := assigned(s.Body)
	simple := !asg[iv.Name]
	for n := range mentions(cond.Y) {
		if asg[n] {
			simple = false
		}
	}
	pa, va, _ := t.expr(init.Rhs[0], "Int")
	if simple {
		pb, vb, _ := t.expr(cond.Y, "Int")
		var iter string
		switch {
		case up && cond.Op == token.LSS:
			iter = fmt.Sprintf("rangeUp %s %s", paren(va), paren(vb))
		case up && cond.Op == token.LEQ:
			iter = fmt.Sprintf("rangeUp %s (%s + 1)", paren(va), vb)
		case !up && cond.Op == token.GEQ:
			iter = fmt.Sprintf("rangeDown %s %s", paren(va), paren(vb))
		case !up && cond.Op == token.GTR:
			iter = fmt.Sprintf("rangeDown %s (%s + 1)", paren(va), vb)
		default:
			fail("for statement: direction")
		}
		bind := func() []string { return []string{fmt.Sprintf("let %s : Int := x__", t.declare(iv.Name, "Int"))} }
		return append(append(pa, pb...), t.loopStmt(s.Body, s, iter, "Int", bind, false, nil, nil)...)
	}
	// general loop: the loop variable becomes state, recursion on fuel = distance to the bound + 2
	t.push()
	defer t.pop()
	n := t.declare(iv.Name, "Int")
	out := append(pa, fmt.Sprintf("let mut %s : Int := %s", n, va))
	pb, vb, _ := t.expr(cond.Y, "Int")
	if len(pb) > 0 {
		fail("for statement: bound with run-time checks")
	}
	var fuel string
	switch {
	case up && (cond.Op == token.LSS || cond.Op == token.LEQ):
		fuel = fmt.Sprintf("(%s - %s).toNat + 2", vb, n)
	case !up && (cond.Op == token.GEQ || cond.Op == token.GTR):
		fuel = fmt.Sprintf("(%s - %s).toNat + 2", n, vb)
	default:
		fail("for statement: direction")
	}
	return append(out, t.loopStmt(s.Body, s, fuel, "", nil, true, s.Cond, s.Post)...)
}

func (t *ftr) stmt(x ast.Stmt) []string {
	switch s := x.(type) {
	case *ast.AssignStmt:
		return t.assign(s)
	case *ast.DeclStmt:
		gd, ok := s.Decl.(*ast.GenDecl)
		if !ok || gd.Tok != token.VAR {
			fail("declaration")
		}
		var out []string
		for _, sp := range gd.Specs {
			vs := sp.(*ast.ValueSpec)
			for k, n := range vs.Names {
				var ty, val string
				var pre []string
				if vs.Type != nil {
					ty = leanType(t.fset, vs.Type)
					val = zero(ty)
				}
				if k < len(vs.Values) {
					pre, val, ty = t.expr(vs.Values[k], ty)
				}
				out = append(out, pre...)
				out = append(out, fmt.Sprintf("let mut %s : %s := %s", t.declare(n.Name, ty), ty, val))
			}
		}
		return out
	case *ast.IncDecStmt:
		op := token.ADD
		if s.Tok == token.DEC {
			op = token.SUB
		}
		p, v, _ := t.binary(&ast.BinaryExpr{X: s.X, Op: op, Y: &ast.BasicLit{Kind: token.INT, Value: "1"}})
		return append(p, t.assignTo(s.X, v, false, "Int")...)
	case *ast.IfStmt:
		return t.ifStmt(s)
	case *ast.SwitchStmt:
		return t.switchStmt(s)
	case *ast.BlockStmt:
		return t.block(s)
	case *ast.RangeStmt:
		return t.rangeStmt(s)
	case *ast.ForStmt:
		return t.forStmt(s)
	case *ast.ReturnStmt:
		if len(s.Results) == 0 {
			return []string{t.emitReturn(t.resultVals())}
		}
		var pre, vals []string
		off := 0
		if t.mutRecv {
			off = 1
			vals = append(vals, t.results[0].lean)
		}
		if len(s.Results) == 1 && len(t.results)-off > 1 {
			if off == 1 {
				fail("multi-value return in a receiver-modifying method")
			}
			p, v, _ := t.expr(s.Results[0], "")
			return append(p, t.emitReturn(v))
		}
		for k, r := range s.Results {
			p, v, _ := t.expr(r, t.results[k+off].ty)
			pre = append(pre, p...)
			vals = append(vals, v)
		}
		return append(pre, t.emitReturn(tupleVal(vals)))
	case *ast.BranchStmt:
		if t.loop == nil || s.Label != nil {
			fail("branch statement")
		}
		switch s.Tok {
		case token.CONTINUE:
			return append(append([]string{}, t.loop.post...), "return (← "+t.recurse(t.loop)+")")
		case token.BREAK:
			return []string{"return (Ctl.next " + t.stateVals(t.loop) + ")"}
		}
	case *ast.ExprStmt:
		if c, ok := s.X.(*ast.CallExpr); ok {
			if se, ok := c.Fun.(*ast.SelectorExpr); ok {
				if id, ok := se.X.(*ast.Ident); ok {
					if v, isVar := t.lookup(id.Name); isVar {
						key := t.receiverKey(se.X) + "." + se.Sel.Name
						if sg, ok := t.sigs[key]; ok && sg.mutRecv && len(sg.results) == 1 {
							t.calls[key] = true
							p, vs := t.callArgs(c, sg, 1)
							return append(p, fmt.Sprintf("%s ← %s %s", v.lean, sg.lean, strings.Join(append([]string{v.lean}, vs...), " ")))
						}
					}
				}
			}
			if id, ok := c.Fun.(*ast.Ident); ok {
				switch id.Name {
				case "panic":
					msg := "\"panic\""
					if l, ok := c.Args[0].(*ast.BasicLit); ok && l.Kind == token.STRING {
						msg = l.Value
					}
					return []string{"gpanic " + msg}
				case "ReturnInts":
					return nil
				case "copy":
					dst, ok := c.Args[0].(*ast.Ident)
					if !ok {
						fail("copy into %s", src(t.fset, c.Args[0]))
					}
					v, ok := t.lookup(dst.Name)
					if !ok {
						fail("copy into unknown %s", dst.Name)
					}
					p, sv, _ := t.expr(c.Args[1], v.ty)
					return append(p, fmt.Sprintf("%s := gcopy %s %s", v.lean, v.lean, paren(sv)))
				}
			}
		}
	case *ast.EmptyStmt:
		return nil
	}
	fail("statement %s", src(t.fset, x))
	return nil
}

// value semantics of lists = Go's reference semantics only if no index-assigned slice is aliased
func checkAliasing(fset *token.FileSet, fd *ast.FuncDecl) {
	idx := map[string]bool{}
	ast.Inspect(fd.Body, func(n ast.Node) bool {
		if a, ok := n.(*ast.AssignStmt); ok {
			for _, l := range a.Lhs {
				if ix, ok := l.(*ast.IndexExpr); ok {
					if id, ok := ix.X.(*ast.Ident); ok {
						idx[id.Name] = true
					}
				}
			}
		}
		if c, ok := n.(*ast.CallExpr); ok {
			if id, ok := c.Fun.(*ast.Ident); ok && id.Name == "copy" {
				if d, ok := c.Args[0].(*ast.Ident); ok {
					idx[d.Name] = true
				}
			}
		}
		return true
	})
	params := map[string]bool{}
	for _, fl := range []*ast.FieldList{fd.Recv, fd.Type.Params} {
		if fl == nil {
			continue
		}
		for _, f := range fl.List {
			for _, n := range f.Names {
				params[n.Name] = true
			}
		}
	}
	// a parameter that is index-assigned must have been re-bound to a fresh slice first; conservatively:
	// it must be assigned as a whole somewhere before (checked syntactically: any whole assignment)
	whole := map[string]bool{}
	bad := ""
	base := func(x ast.Expr) string { // variable a slice-valued expression aliases, "" if fresh
		for {
			switch e := x.(type) {
			case *ast.ParenExpr:
				x = e.X
			case *ast.SliceExpr:
				x = e.X
			case *ast.Ident:
				return e.Name
			case *ast.CallExpr:
				if id, ok := e.Fun.(*ast.Ident); ok && (id.Name == "Shape" || id.Name == "append") && len(e.Args) > 0 {
					x = e.Args[0]
					continue
				}
				if _, ok := e.Fun.(*ast.ArrayType); ok {
					x = e.Args[0]
					continue
				}
				return ""
			default:
				return ""
			}
		}
	}
	ast.Inspect(fd.Body, func(n ast.Node) bool {
		if a, ok := n.(*ast.AssignStmt); ok && len(a.Lhs) == len(a.Rhs) {
			for k, l := range a.Lhs {
				if id, ok := l.(*ast.Ident); ok {
					whole[id.Name] = true
					b := base(a.Rhs[k])
					if b != "" && b != id.Name && (idx[b] || idx[id.Name]) {
						if _, isSlice := a.Rhs[k].(*ast.BasicLit); !isSlice {
							bad = fmt.Sprintf("%s aliases %s and one of them is index-assigned", id.Name, b)
						}
					}
				}
			}
		}
		return true
	})
	for p := range params {
		if idx[p] && !whole[p] {
			bad = fmt.Sprintf("parameter %s is modified in place", p)
		}
	}
	if bad != "" {
		fail("aliasing: %s", bad)
	}
}

// ---------------------------------------------------------------------------------------------

type fnInfo struct {
	mutRecv bool
	key  string
	fd   *ast.FuncDecl
	file string
	sig  *sig
	text string
	deps []string
	err  string
}

func keyOf(fd *ast.FuncDecl) string {
	if fd.Recv != nil && len(fd.Recv.List) == 1 {
		if id, ok := fd.Recv.List[0].Type.(*ast.Ident); ok {
			return id.Name + "." + fd.Name.Name
		}
		if st, ok := fd.Recv.List[0].Type.(*ast.StarExpr); ok {
			if id, ok := st.X.(*ast.Ident); ok {
				return id.Name + "." + fd.Name.Name
			}
		}
	}
	return fd.Name.Name
}

func (fi *fnInfo) signature(fset *token.FileSet) (err string) {
	defer func() {
		if r := recover(); r != nil {
			if u, ok := r.(unsupported); ok {
				err = u.why
				return
			}
			panic(r)
		}
	}()
	s := &sig{lean: strings.Replace(fi.key, ".", "_", 1)}
	if fi.key == "divmod" {
		// `divmod` itself is the primitive the other functions call (GoLib.lean: one meaning for both builds); the body of
		// the pure-Go build's version is translated under a name of its own and proved to be that meaning
		s.lean = "divmod_go"
	}
	for _, fl := range []*ast.FieldList{fi.fd.Recv, fi.fd.Type.Params} {
		if fl == nil {
			continue
		}
		for _, f := range fl.List {
			ty := leanType(fset, f.Type)
			n := len(f.Names)
			if n == 0 {
				n = 1
			}
			for i := 0; i < n; i++ {
				s.params = append(s.params, ty)
			}
		}
	}
	if ps := fi.fd.Type.Params.List; len(ps) > 0 {
		if _, ok := ps[len(ps)-1].Type.(*ast.Ellipsis); ok {
			s.variadic = true
		}
	}
	if fi.mutRecv {
		s.mutRecv = true
		s.results = append(s.results, s.params[0])
	}
	if fi.fd.Type.Results != nil {
		for _, f := range fi.fd.Type.Results.List {
			ty := leanType(fset, f.Type)
			n := len(f.Names)
			if n == 0 {
				n = 1
			}
			for i := 0; i < n; i++ {
				s.results = append(s.results, ty)
			}
		}
	}
	fi.sig = s
	return ""
}

func (fi *fnInfo) translate(fset *token.FileSet, sigs map[string]*sig) (err string) {
	defer func() {
		if r := recover(); r != nil {
			if u, ok := r.(unsupported); ok {
				err = u.why
				return
			}
			panic(r)
		}
	}()
	fd := fi.fd
	checkAliasing(fset, fd)
	t := &ftr{fset: fset, sigs: sigs, name: fi.sig.lean, used: map[string]int{}, calls: map[string]bool{}, mutRecv: fi.mutRecv}
	t.push()
	asg := assigned(fd.Body)
	var params, pre []string
	for _, fl := range []*ast.FieldList{fd.Recv, fd.Type.Params} {
		if fl == nil {
			continue
		}
		for _, f := range fl.List {
			ty := leanType(fset, f.Type)
			if len(f.Names) == 0 {
				params = append(params, fmt.Sprintf("(_ : %s)", ty))
			}
			for _, n := range f.Names {
				ln := t.declare(n.Name, ty)
				params = append(params, fmt.Sprintf("(%s : %s)", ln, ty))
				if asg[n.Name] || (fi.mutRecv && fl == fd.Recv) {
					pre = append(pre, fmt.Sprintf("let mut %s := %s", ln, ln))
				}
				if fi.mutRecv && fl == fd.Recv {
					// the updated receiver is the first result of the translated function
					t.results = append(t.results, variable{ln, ty})
					t.named = true
				}
			}
		}
	}
	if fd.Type.Results != nil {
		for _, f := range fd.Type.Results.List {
			ty := leanType(fset, f.Type)
			if len(f.Names) == 0 {
				t.results = append(t.results, variable{"", ty})
			}
			for _, n := range f.Names {
				t.named = true
				ln := t.declare(n.Name, ty)
				t.results = append(t.results, variable{ln, ty})
				pre = append(pre, fmt.Sprintf("let mut %s : %s := %s", ln, ty, zero(ty)))
			}
		}
	}
	body := t.block(fd.Body)
	if len(t.results) == 0 {
		body = append(body, "return ()")
	} else if fi.mutRecv && len(t.results) == 1 {
		body = append(body, "return "+t.results[0].lean)
	}
	var b strings.Builder
	for _, a := range t.aux {
		b.WriteString(a + "\n\n")
	}
	fmt.Fprintf(&b, "/-- `%s` of `%s` -/\n", fi.key, fi.file)
	fmt.Fprintf(&b, "def %s %s : GoM %s := do\n", fi.sig.lean, strings.Join(params, " "), paren(tupleType(fi.sig.results)))
	for _, l := range append(pre, body...) {
		b.WriteString("  " + l + "\n")
	}
	fi.text = b.String()
	for c := range t.calls {
		fi.deps = append(fi.deps, c)
	}
	sort.Strings(fi.deps)
	return ""
}

func main() {
	repo := flag.String("repo", "/repo", "repository root")
	out := flag.String("out", "", "output Lean file")
	flag.Parse()
	if *out == "" {
		fmt.Fprintln(os.Stderr, "gol: -out is required")
		os.Exit(2)
	}
	fset := token.NewFileSet()
	var fns []*fnInfo
	byKey := map[string]*fnInfo{}
	for _, tg := range targets {
		f, err := parser.ParseFile(fset, filepath.Join(*repo, tg.file), nil, 0)
		if err != nil {
			fmt.Fprintln(os.Stderr, "gol:", err)
			os.Exit(2)
		}
		found := map[string]*ast.FuncDecl{}
		for _, d := range f.Decls {
			if fd, ok := d.(*ast.FuncDecl); ok && fd.Body != nil {
				found[keyOf(fd)] = fd
			}
			// `const ( A T = 1 << iota; B; C )`
			if gd, ok := d.(*ast.GenDecl); ok && gd.Tok == token.CONST && len(gd.Specs) > 0 {
				first := gd.Specs[0].(*ast.ValueSpec)
				if len(first.Values) == 1 && src(fset, first.Values[0]) == "1 << iota" && first.Type != nil {
					ty := tryLeanType(fset, first.Type)
					if ty == "" {
						continue
					}
					for k, sp := range gd.Specs {
						vs := sp.(*ast.ValueSpec)
						if k > 0 && (len(vs.Values) > 0 || vs.Type != nil) {
							break
						}
						for _, n := range vs.Names {
							consts[n.Name] = struct {
								val int
								ty  string
							}{1 << uint(k), ty}
						}
					}
				}
			}
		}
		for _, n := range tg.names {
			fi := &fnInfo{key: n, file: tg.file, fd: found[n]}
			if fi.fd == nil {
				fi.err = "function not found in " + tg.file
			}
			fns = append(fns, fi)
			byKey[n] = fi
		}
	}
	// receiver-modifying pointer methods (fixpoint over direct field assignments and calls on the receiver)
	for changed := true; changed; {
		changed = false
		for _, fi := range fns {
			if fi.fd == nil || fi.fd.Recv == nil || fi.mutRecv {
				continue
			}
			if _, ptr := fi.fd.Recv.List[0].Type.(*ast.StarExpr); !ptr || len(fi.fd.Recv.List[0].Names) == 0 {
				continue
			}
			recv := fi.fd.Recv.List[0].Names[0].Name
			if assigned(fi.fd.Body)[recv] {
				fi.mutRecv = true
				mutatingMethods[fi.fd.Name.Name] = true
				changed = true
			}
		}
	}
	sigs := map[string]*sig{}
	for _, fi := range fns {
		if fi.err == "" {
			fi.err = fi.signature(fset)
		}
		if fi.err == "" {
			sigs[fi.key] = fi.sig
		}
	}
	// translate until no function depends on an unsupported one
	for changed := true; changed; {
		changed = false
		for _, fi := range fns {
			if fi.err != "" || fi.text != "" {
				continue
			}
			fi.deps = nil
			if e := fi.translate(fset, sigs); e != "" {
				fi.err = e
				delete(sigs, fi.key)
				changed = true
				for _, g := range fns { // re-translate everything that may have used it
					g.text = ""
				}
				break
			}
		}
		if !changed {
			for _, fi := range fns {
				if fi.err == "" && fi.text == "" {
					changed = true
				}
			}
		}
	}
	// dependency order
	var order []*fnInfo
	done := map[string]bool{}
	var visit func(fi *fnInfo, stack map[string]bool)
	visit = func(fi *fnInfo, stack map[string]bool) {
		if done[fi.key] || fi.err != "" {
			return
		}
		if stack[fi.key] {
			fi.err = "recursive call"
			return
		}
		stack[fi.key] = true
		for _, d := range fi.deps {
			if g := byKey[d]; g != nil {
				visit(g, stack)
			}
		}
		delete(stack, fi.key)
		done[fi.key] = true
		order = append(order, fi)
	}
	for _, fi := range fns {
		visit(fi, map[string]bool{})
	}
	var b strings.Builder
	b.WriteString("-- GENERATED by tools/gol from the Go sources of /repo. DO NOT EDIT.\n")
	b.WriteString("import TensorModel.GoLib\n")
	b.WriteString("set_option linter.unusedVariables false\n")
	b.WriteString("namespace TM.Gen\n\n")
	var skipped []string
	for _, fi := range fns {
		if fi.err != "" {
			skipped = append(skipped, fmt.Sprintf("%s (%s): %s", fi.key, fi.file, fi.err))
		}
	}
	if len(skipped) > 0 {
		b.WriteString("/- not translated (outside the supported subset):\n")
		for _, s := range skipped {
			b.WriteString("   " + s + "\n")
		}
		b.WriteString("-/\n\n")
	}
	var cnames []string
	for n := range consts {
		cnames = append(cnames, n)
	}
	sort.Strings(cnames)
	for _, n := range cnames {
		fmt.Fprintf(&b, "/-- constant `%s` of the Go source -/\ndef c_%s : %s := %d\n\n", n, n, consts[n].ty, consts[n].val)
	}
	var names []string
	for _, fi := range order {
		b.WriteString(fi.text + "\n")
		names = append(names, "\""+fi.sig.lean+"\"")
	}
	fmt.Fprintf(&b, "/-- the functions translated in this run -/\ndef translated : List String := [%s]\n\n", strings.Join(names, ", "))
	b.WriteString("end TM.Gen\n")
	content := b.String()
	old, _ := os.ReadFile(*out)
	if string(old) != content {
		os.MkdirAll(filepath.Dir(*out), 0o755)
		if err := os.WriteFile(*out, []byte(content), 0o644); err != nil {
			fmt.Fprintln(os.Stderr, "gol:", err)
			os.Exit(2)
		}
	}
	var sj strings.Builder
	fmt.Fprintf(&sj, "{\n  \"translated\": %d,\n  \"skipped\": [", len(order))
	for i, s := range skipped {
		if i > 0 {
			sj.WriteString(", ")
		}
		sj.WriteString(fmt.Sprintf("%q", s))
	}
	sj.WriteString("]\n}\n")
	os.WriteFile(strings.TrimSuffix(*out, ".lean")+".summary.json", []byte(sj.String()), 0o644)
	fmt.Printf("gol: %d functions translated, %d skipped\n", len(order), len(skipped))
	for _, s := range skipped {
		fmt.Println("  skipped:", s)
	}
}
