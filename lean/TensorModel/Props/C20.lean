import TensorModel.Run
/-! C20 — property theorems. -/
namespace TM.C20
end TM.C20
