#!/bin/bash
# Builds the framework from files on disk only (offline): Lean project (model, driver, all property
# theorems) and warms the Go build cache for the harness.
set -e
cd "$(dirname "$0")"
export GOFLAGS=-mod=mod GOPROXY=off GOSUMDB=off GOTOOLCHAIN=local
mkdir -p .work evidence replays
python3 tools/asmx/asmx.py /repo/divmod_amd64.s lean/TensorModel/Generated/DivmodAsm.lean
(cd tools/gol && go run . -repo /repo -out ../../lean/TensorModel/Generated/Core.lean)
(cd tools/gluex && go run . -repo /repo -out ../../lean/TensorModel/Generated/Glue.lean)
(cd tools/gox && go run . -repo /repo -out ../../lean/TensorModel/Generated)
(cd lean && lake build TensorModel tmdriver $(ls TensorModel/Props/*.lean | sed 's#TensorModel/Props/\(.*\)\.lean#TensorModel.Props.\1#'))
(cd tools/harness && cp /repo/go.sum . && go build -tags verif -o ../../.work/harness-setup . && rm -f ../../.work/harness-setup)
echo setup done
