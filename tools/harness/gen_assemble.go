package main

// Generator of property C10 (concatenation, stacking, repetition) and of the repeat / concat
// calculator steps of C13. Domain: 1–4 operands × shapes of rank 1–4 (vector-like shapes included)
// × every valid axis × operand layouts {contiguous, lazily transposed, sliced, step-sliced,
// materialised, contiguous row-slice} independently per operand × uniform and per-element repeat
// counts including zero × element sizes 1, 2, 4, 8, 16 bytes and string; plus a malformed stream
// (mismatching shapes and ranks, axes out of range on both sides, wrong number of counts, wrong
// reuse shape, rank-0 operands) and a few masked operands for Concat.
//
// Every program: [calculator step] ; operation ; dump of the result ; dump of every tensor that
// existed before the operation (operands and the parents of views).

import (
	"fmt"
	"strings"
)

var asmShapes = [][]int{
	{3}, {1}, {5},
	{2, 3}, {3, 2}, {1, 3}, {3, 1}, {1, 1}, {2, 2},
	{2, 3, 2}, {2, 1, 3}, {1, 2, 3}, {2, 3, 1}, {1, 1, 3},
	{2, 1, 3, 2}, {1, 1, 1, 3}, {2, 2, 1, 2}, {2, 3, 2, 2},
}

var asmLayouts = []string{"contig", "lazyT", "sliced", "stepped", "mat", "rowsl"}

// asmOperand builds an operand of the given layout class (the classes of gen_arith.go plus
// "rowsl": a contiguous view with an offset — rows 1… of a taller tensor).
func (g *gen) asmOperand(steps *[]string, nv *int, dt string, sh []int, layout string) int {
	if layout == "rowsl" && len(sh) >= 1 && sh[0] > 1 {
		big := append([]int{}, sh...)
		big[0] = sh[0] + 1
		*steps = append(*steps, fmt.Sprintf("new %s %s C", dt, ints(big)))
		p := *nv
		*nv++
		*steps = append(*steps, fmt.Sprintf("slice $%d 1:%d", p, sh[0]+1))
		v := *nv
		*nv++
		return v
	}
	if layout == "rowsl" {
		layout = "contig"
	}
	return g.operand(steps, nv, dt, sh, layout)
}

// finishAsmProgram appends the dumps and emits.
func (g *gen) finishAsmProgram(steps []string, nv int, nBefore int) {
	res := nv // variable of the operation's result
	steps = append(steps, fmt.Sprintf("dump $%d", res))
	for v := 0; v < nBefore; v++ {
		steps = append(steps, fmt.Sprintf("dump $%d", v))
	}
	g.emit(steps...)
}

func asmVarList(vs []int) string {
	s := make([]string, len(vs))
	for i, v := range vs {
		s[i] = fmt.Sprintf("$%d", v)
	}
	return strings.Join(s, " ")
}

func (g *gen) asmDtype(k int) string { return widthDtypes[k%len(widthDtypes)] }

// asmJoinProgram: concat / stack / hstack / vstack of operands of the given shapes.
func (g *gen) asmJoinProgram(kind, via string, axis int, dt string, shs [][]int, lays []string, withCalc bool) {
	var steps []string
	nv := 0
	ops := make([]int, len(shs))
	for i, sh := range shs {
		ops[i] = g.asmOperand(&steps, &nv, dt, sh, lays[i])
	}
	if withCalc && (kind == "concat") {
		steps = append(steps, fmt.Sprintf("calcConcat %d %s", axis, asmVarList(ops)))
	}
	switch kind {
	case "concat", "stack":
		steps = append(steps, fmt.Sprintf("%s %s %d %s", kind, via, axis, asmVarList(ops)))
	default:
		steps = append(steps, fmt.Sprintf("%s %s", kind, asmVarList(ops)))
	}
	g.finishAsmProgram(steps, nv, nv)
}

func (g *gen) asmRandLayouts(n int) []string {
	out := make([]string, n)
	for i := range out {
		out[i] = g.r.pick(asmLayouts)
	}
	return out
}

func asmRepsString(rs []int) string { return ints(rs) }

// asmRepeatProgram: repeat (fn/meth) or repeatreuse of one operand.
func (g *gen) asmRepeatProgram(via string, dt string, sh []int, layout string, axisTok string, reps []int, reuse string, reuseShape []int, reuseLayout string) {
	var steps []string
	nv := 0
	a := g.asmOperand(&steps, &nv, dt, sh, layout)
	steps = append(steps, fmt.Sprintf("calcRepeat $%d %s %s", a, axisTok, asmRepsString(reps)))
	if reuse == "" {
		steps = append(steps, fmt.Sprintf("repeat %s $%d %s %s", via, a, axisTok, asmRepsString(reps)))
	} else {
		r := g.asmOperand(&steps, &nv, dt, reuseShape, reuseLayout)
		steps = append(steps, fmt.Sprintf("repeatreuse $%d %s %s $%d", a, axisTok, asmRepsString(reps), r))
	}
	g.finishAsmProgram(steps, nv, nv)
}

// asmRepeatedShape is the shape NumPy's repeat gives (axis -1 = all).
func asmRepeatedShape(sh []int, axis int, reps []int) []int {
	if axis < 0 {
		n := size(sh)
		tot := 0
		if len(reps) == 1 {
			tot = n * reps[0]
		} else {
			for _, r := range reps {
				tot += r
			}
		}
		return []int{tot}
	}
	out := append([]int{}, sh...)
	tot := 0
	if len(reps) == 1 {
		tot = sh[axis] * reps[0]
	} else {
		for _, r := range reps {
			tot += r
		}
	}
	out[axis] = tot
	return out
}

func (g *gen) asmRandReps(n int) []int {
	switch g.r.intn(5) {
	case 0:
		return []int{g.r.intn(4)} // one count, broadcast (0..3)
	case 1:
		return []int{2}
	}
	out := make([]int, n)
	for i := range out {
		out[i] = g.r.intn(4) // per-element counts 0..3
	}
	if g.r.chance(1, 6) { // exactly one entry survives
		for i := range out {
			out[i] = 0
		}
		if n > 0 {
			out[g.r.intn(n)] = 1
		}
	}
	return out
}

func genC10(g *gen) {
	// gen.go seeds the splitmix state linearly in the seed (seed+1 = the same stream one draw later):
	// scramble it once so that different seeds give unrelated streams
	g.r.s = (g.r.next() ^ (g.r.s >> 7)) * 0x94d049bb133111eb
	rounds := 1
	if g.thorough() {
		rounds = 24
	}
	k := 0
	for round := 0; round < rounds; round++ {
		// ---- concat: every shape x every axis x 1..4 operands x fn/meth
		for _, base := range asmShapes {
			for axis := 0; axis < len(base); axis++ {
				for n := 1; n <= 4; n++ {
					for _, via := range []string{"fn", "meth"} {
						reps := 2
						if n == 1 {
							reps = 1
						}
						for rep := 0; rep < reps; rep++ {
							shs := make([][]int, n)
							for i := range shs {
								s := append([]int{}, base...)
								if i > 0 || g.r.chance(1, 2) {
									s[axis] = 1 + g.r.intn(3)
								}
								shs[i] = s
							}
							lays := g.asmRandLayouts(n)
							if rep == 0 && round == 0 && via == "meth" {
								for i := range lays {
									lays[i] = "contig"
								}
							}
							k++
							g.asmJoinProgram("concat", via, axis, g.asmDtype(k), shs, lays, true)
							if axis == 0 && rep == 0 {
								// the constant AllAxes names the outermost axis: the same operands, other layouts
								k++
								g.asmJoinProgram("concat", via, -1, g.asmDtype(k), shs, g.asmRandLayouts(n), true)
							}
						}
					}
				}
			}
		}
		// ---- stack: every shape x every axis 0..rank x 1..4 operands
		for _, base := range asmShapes {
			for axis := 0; axis <= len(base); axis++ {
				for n := 1; n <= 4; n++ {
					for _, via := range []string{"fn", "meth"} {
						shs := make([][]int, n)
						for i := range shs {
							shs[i] = base
						}
						lays := g.asmRandLayouts(n)
						switch (k + n) % 4 {
						case 0: // all contiguous: the block-copy path
							for i := range lays {
								lays[i] = g.r.pick([]string{"contig", "mat", "rowsl"})
							}
						case 1: // first operand contiguous, a later one needs an iterator
							lays[0] = "contig"
						}
						k++
						g.asmJoinProgram("stack", via, axis, g.asmDtype(k), shs, lays, false)
					}
				}
			}
		}
		// ---- hstack / vstack
		for _, base := range asmShapes {
			for _, kind := range []string{"hstack", "vstack"} {
				for n := 1; n <= 4; n++ {
					axis := 0
					if kind == "hstack" && len(base) > 1 {
						axis = 1
					}
					shs := make([][]int, n)
					for i := range shs {
						s := append([]int{}, base...)
						if i > 0 {
							s[axis] = 1 + g.r.intn(3)
						}
						shs[i] = s
					}
					k++
					g.asmJoinProgram(kind, "meth", 0, g.asmDtype(k), shs, g.asmRandLayouts(n), false)
				}
			}
		}
		// ---- repeat: every shape x every axis (and all) x count patterns x layouts
		for _, sh := range asmShapes {
			for axis := -1; axis < len(sh); axis++ {
				axisTok := "all"
				n := size(sh)
				if axis >= 0 {
					axisTok = fmt.Sprintf("%d", axis)
					n = sh[axis]
				}
				for _, lay := range asmLayouts {
					nrep := 2
					if lay == "contig" {
						nrep = 4
					}
					for rep := 0; rep < nrep; rep++ {
						k++
						g.asmRepeatProgram(g.r.pick([]string{"fn", "meth"}), g.asmDtype(k), sh, lay, axisTok, g.asmRandReps(n), "", nil, "")
					}
				}
				// repeatreuse: right shape (contiguous, sometimes another layout), wrong shape
				for rep := 0; rep < 2; rep++ {
					reps := g.asmRandReps(n)
					rs := asmRepeatedShape(sh, axis, reps)
					if size(rs) == 0 {
						reps = []int{2}
						rs = asmRepeatedShape(sh, axis, reps)
					}
					rl := "contig"
					if g.r.chance(1, 4) {
						rl = g.r.pick([]string{"lazyT", "sliced", "rowsl", "mat"})
					}
					src := g.r.pick([]string{"contig", "contig", "mat", "sliced", "lazyT"})
					if asmLayouts[0] == "colmajor" {
						// the column-major run (C16): destinations and sources of either data order, independently
						rl = g.r.pick([]string{"colmajor", "colmajor", "colconv", "contig"})
						src = g.r.pick([]string{"contig", "contig", "colmajor", "sliced", "lazyT"})
					} else if rep == 1 && g.r.chance(1, 3) {
						rl = "colmajor"
					}
					k++
					g.asmRepeatProgram("fn", g.asmDtype(k), sh, src, axisTok, reps, "reuse", rs, rl)
				}
				wrong := append([]int{}, asmRepeatedShape(sh, axis, []int{2})...)
				wrong[0]++
				k++
				g.asmRepeatProgram("fn", g.asmDtype(k), sh, "contig", axisTok, []int{2}, "reuse", wrong, "contig")
			}
		}
		// ---- malformed stream
		for _, base := range asmShapes {
			dt := g.asmDtype(k)
			k++
			r := len(base)
			// axes out of range (both sides) for concat / stack / repeat and the calculators
			for _, axis := range []int{r, r + 1, -1, -2} {
				g.asmJoinProgram("concat", g.r.pick([]string{"fn", "meth"}), axis, dt, [][]int{base, base}, g.asmRandLayouts(2), true)
				g.asmJoinProgram("concat", "fn", axis, dt, [][]int{base}, []string{"contig"}, true)
			}
			for _, axis := range []int{r + 1, r + 2, -1, -2} {
				g.asmJoinProgram("stack", g.r.pick([]string{"fn", "meth"}), axis, dt, [][]int{base, base}, g.asmRandLayouts(2), false)
				g.asmJoinProgram("stack", "fn", axis, dt, [][]int{base}, []string{"contig"}, false)
			}
			for _, axisTok := range []string{fmt.Sprintf("%d", r), fmt.Sprintf("%d", r+1), "-2", "-3"} {
				g.asmRepeatProgram(g.r.pick([]string{"fn", "meth"}), dt, base, g.r.pick(asmLayouts), axisTok, []int{2}, "", nil, "")
			}
			// wrong number of counts
			for axis := 0; axis < r; axis++ {
				cnt := make([]int, base[axis]+1)
				for i := range cnt {
					cnt[i] = 1 + g.r.intn(2)
				}
				g.asmRepeatProgram("fn", dt, base, "contig", fmt.Sprintf("%d", axis), cnt, "", nil, "")
				if base[axis] > 2 {
					g.asmRepeatProgram("meth", dt, base, "contig", fmt.Sprintf("%d", axis), cnt[:base[axis]-1], "", nil, "")
				}
			}
			// off-axis extent mismatch, rank mismatch
			for axis := 0; axis < r; axis++ {
				other := append([]int{}, base...)
				d := g.r.intn(r)
				other[d]++
				if d == axis && r > 1 {
					other[(d+1)%r]++
				}
				g.asmJoinProgram("concat", g.r.pick([]string{"fn", "meth"}), axis, dt, [][]int{base, other}, g.asmRandLayouts(2), true)
				g.asmJoinProgram("concat", "meth", axis, dt, [][]int{base, base, other}, g.asmRandLayouts(3), true)
				g.asmJoinProgram("stack", g.r.pick([]string{"fn", "meth"}), axis, dt, [][]int{base, other}, g.asmRandLayouts(2), false)
				g.asmJoinProgram("stack", "meth", axis, dt, [][]int{other, base, base}, []string{"contig", "contig", "contig"}, false)
			}
			higher := append([]int{1}, base...)
			g.asmJoinProgram("concat", "fn", 0, dt, [][]int{base, higher}, g.asmRandLayouts(2), true)
			g.asmJoinProgram("stack", "fn", 0, dt, [][]int{base, higher}, g.asmRandLayouts(2), false)
			g.asmJoinProgram("hstack", "meth", 0, dt, [][]int{base, higher}, g.asmRandLayouts(2), false)
			g.asmJoinProgram("vstack", "meth", 0, dt, [][]int{higher, base}, g.asmRandLayouts(2), false)
			// same size, permuted shape (stack must refuse)
			if r >= 2 && base[0] != base[r-1] {
				perm := append([]int{}, base...)
				perm[0], perm[r-1] = perm[r-1], perm[0]
				g.asmJoinProgram("stack", "fn", g.r.intn(r+1), dt, [][]int{base, perm}, g.asmRandLayouts(2), false)
			}
		}
		// rank-0 operands (outside the quantifier; correspondence only)
		for _, dt := range []string{"f64", "u8", "str"} {
			g.emit(fmt.Sprintf("new %s - C", dt), fmt.Sprintf("new %s - C", dt), "calcConcat 0 $0 $1", "concat fn 0 $0 $1", "stack fn 0 $0 $1", "dump $3", "hstack $0 $1", "vstack $0 $1", "stack meth 1 $0 $1", "dump $0")
			for _, ax := range []string{"0", "1", "all", "2"} {
				for _, reps := range []string{"3", "1", "0"} {
					g.emit(fmt.Sprintf("new %s - C", dt), fmt.Sprintf("calcRepeat $0 %s %s", ax, reps), fmt.Sprintf("repeat fn $0 %s %s", ax, reps), "dump $1", "dump $0")
				}
			}
			g.emit(fmt.Sprintf("new %s - C", dt), fmt.Sprintf("new %s 3 C", dt), "concat fn 0 $0 $1", "stack fn 0 $0 $1", "dump $3", "stack fn 0 $1 $0", "dump $4", "hstack $1 $0")
		}
		// vanilla vector repeated along axis 1 (library extension)
		for _, reps := range []string{"2", "1", "0", "3"} {
			k++
			dt := g.asmDtype(k)
			g.emit(fmt.Sprintf("new %s 3 C", dt), fmt.Sprintf("calcRepeat $0 1 %s", reps), fmt.Sprintf("repeat fn $0 1 %s", reps), "dump $1", "dump $0")
			g.emit(fmt.Sprintf("new %s 6 C", dt), "slice $0 0:6:2", fmt.Sprintf("repeat meth $1 1 %s", reps), "dump $2", "dump $0")
		}
		// the same tensor several times
		for _, sh := range [][]int{{3}, {2, 3}, {2, 3, 2}} {
			k++
			dt := g.asmDtype(k)
			for axis := 0; axis < len(sh); axis++ {
				g.emit(fmt.Sprintf("new %s %s C", dt, ints(sh)), fmt.Sprintf("concat fn %d $0 $0 $0", axis), "dump $1", fmt.Sprintf("stack meth %d $0 $0", axis), "dump $2", "dump $0")
				// … and on the view path: the tensor lazily transposed, a view with gaps, column-major
				if len(sh) == 2 {
					g.emit(fmt.Sprintf("new %s %s C", dt, ints([]int{sh[1], sh[0]})), "T $0 1,0", fmt.Sprintf("stack meth %d $0 $0", axis), "dump $1",
						fmt.Sprintf("stack fn %d $0 $0 $0", axis), "dump $2", fmt.Sprintf("concat meth %d $0 $0", axis), "dump $3", "dump $0")
					g.emit(fmt.Sprintf("new %s %s C", dt, ints([]int{sh[0] + 1, sh[1] + 1})), fmt.Sprintf("slice $0 1:%d,1:%d", sh[0]+1, sh[1]+1),
						fmt.Sprintf("stack meth %d $1 $1 $1", axis), "dump $2", fmt.Sprintf("concat fn %d $1 $1", axis), "dump $3", "dump $0")
					g.emit(fmt.Sprintf("new %s %s Fraw", dt, ints(sh)), fmt.Sprintf("stack fn %d $0 $0", axis), "dump $1", "dump $0")
				}
			}
		}
		// masked operands of Concat
		for _, sh := range [][]int{{3}, {2, 3}, {2, 2, 2}} {
			n := size(sh)
			bits := func(seed int) string {
				var sb strings.Builder
				for i := 0; i < n; i++ {
					if (i*7+seed)%3 == 0 {
						sb.WriteByte('1')
					} else {
						sb.WriteByte('0')
					}
				}
				return sb.String()
			}
			for axis := 0; axis < len(sh); axis++ {
				for which := 0; which < 3; which++ {
					k++
					dt := g.asmDtype(k)
					steps := []string{fmt.Sprintf("new %s %s C", dt, ints(sh)), fmt.Sprintf("new %s %s C", dt, ints(sh))}
					if which != 1 {
						steps = append(steps, "amask $0 "+bits(1))
					}
					if which != 0 {
						steps = append(steps, "amask $1 "+bits(2))
					}
					steps = append(steps, fmt.Sprintf("concat %s %d $0 $1", g.r.pick([]string{"fn", "meth"}), axis), "dump $2", "dump $0", "dump $1")
					g.emit(steps...)
				}
			}
		}
	}
}

func init() {
	generators["C10"] = genC10
}
