#!/bin/bash
# Self-test of the C17 source tie: mutate a scratch copy of internal/execution one small change
# at a time, regenerate the Lean tables into a scratch copy of the Lean project and check that
# `lake build TensorModel.Props.C17` FAILS for every semantic mutation and PASSES for the
# harmless rewrites.  Nothing under /verif/lean or /repo is written.
#
#   tools/gox/selftest.sh [-j N] [-k]        (-j parallel cases, default 4; -k keep /tmp dir)
set -u
export GOFLAGS=-mod=mod GOPROXY=off GOSUMDB=off GOTOOLCHAIN=local
HERE=$(cd "$(dirname "$0")" && pwd)
VERIF=$(cd "$HERE/../.." && pwd)
REPO=${REPO:-/repo}
WORK=/tmp/gox_selftest
JOBS=4; KEEP=0
while getopts "j:k" o; do case $o in j) JOBS=$OPTARG;; k) KEEP=1;; esac; done

rm -rf "$WORK"; mkdir -p "$WORK/base"
(cd "$HERE" && go build -o "$WORK/gox" .) || { echo "selftest: cannot build gox"; exit 2; }
cp -a "${LEANSRC:-$VERIF/lean}" "$WORK/base/lean"   # LEANSRC: alternative Lean project to test

run_case() {  # $1 = case name ; prints "name result seconds"
  local c=$1 d="$WORK/$1" t0=$SECONDS
  mkdir -p "$d/src/internal"
  cp -a "$REPO/internal/execution" "$d/src/internal/execution"
  if [ "$c" = baseline ]; then ln -s "$WORK/base/lean" "$d/lean"; else cp -a "$WORK/base/lean" "$d/lean"; fi
  python3 "$HERE/mutate.py" "$d/src" "$c" > "$d/log" 2>&1 || { echo "$c MUTATION-ERROR 0"; return; }
  "$WORK/gox" -repo "$d/src" -out "$d/lean/TensorModel/Generated" >> "$d/log" 2>&1 || { echo "$c GOX-ERROR 0"; return; }
  if (cd "$d/lean" && lake build TensorModel.Props.C17 >> "$d/log" 2>&1); then echo "$c PASS $((SECONDS-t0))"
  else echo "$c FAIL $((SECONDS-t0))"; fi
}
export -f run_case; export WORK HERE REPO

echo "selftest: baseline build (unmutated sources) ..."
base=$(run_case baseline)
echo "  $base"
case "$base" in *" PASS "*) ;; *) echo "selftest: baseline does not pass; see $WORK/baseline/log"; tail -20 "$WORK/baseline/log"; exit 2;; esac

CASES=$(python3 "$HERE/mutate.py" x --list | grep -v '^baseline$')
echo "selftest: $(echo "$CASES" | wc -l) cases, $JOBS in parallel ..."
echo "$CASES" | xargs -P "$JOBS" -I{} bash -c 'run_case {}' > "$WORK/results"

bad=0
printf "\n%-28s %-10s %-10s %-6s %s\n" CASE EXPECTED GOT SECS VERDICT
while read -r c; do
  line=$(grep "^$c " "$WORK/results"); got=$(echo "$line" | awk '{print $2}'); secs=$(echo "$line" | awk '{print $3}')
  case $c in harmless_*) exp=PASS;; *) exp=FAIL;; esac
  if [ "$got" = "$exp" ]; then v=ok; else v=WRONG; bad=$((bad+1)); fi
  printf "%-28s %-10s %-10s %-6s %s\n" "$c" "$exp" "${got:-?}" "${secs:-?}" "$v"
done <<< "$CASES"
echo
if [ $bad -eq 0 ]; then echo "selftest: all cases behaved as expected"; else echo "selftest: $bad case(s) WRONG (logs in $WORK, kept)"; KEEP=1; fi
[ $KEEP -eq 1 ] || rm -rf "$WORK"
exit $bad
