package main

import (
	"fmt"
	"strings"
)

func init() { generators["C18"] = genC18 }

// C18: sets of goroutine programs over shared read-only tensors (contiguous, lazily transposed,
// sliced) plus private tensors. Output lines use the set syntax of race.go.
func genC18(g *gen) {
	nsets := 60
	if g.thorough() {
		nsets = 1500
	}
	for k := 0; k < nsets; k++ {
		dt := g.r.pick([]string{"f64", "f32", "i32", "i64", "c128", "u8"})
		var prefix []string
		nv := 0
		prefix = append(prefix, "vset=2")
		// shared tensors: a matrix-like tensor in three layouts and a vector
		sh := [][]int{{3, 4}, {2, 3, 2}, {4, 3}, {5}, {2, 2}}[g.r.intn(5)]
		var shared []int
		for _, lay := range []string{"contig", "lazyT", "sliced"} {
			v := g.operand(&prefix, &nv, dt, sh, lay)
			shared = append(shared, v)
		}
		// … and tensors that own their data in another layout than the default one: the clone of a view with gaps, the
		// clone of a lazily transposed tensor (reductions, reshapes and transposes work on a compacted copy of these -
		// never on the shared tensor itself)
		for _, lay := range []string{"sliced", "lazyT"} {
			if g.r.chance(1, 2) {
				v := g.operand(&prefix, &nv, dt, sh, lay)
				prefix = append(prefix, fmt.Sprintf("clone $%d", v))
				shared = append(shared, nv)
				nv++
			}
		}
		// a shared scalar tensor (rank 0): goroutines use it as the scalar operand of operations on private one-element and
		// longer tensors, with and without a private reuse tensor - the kernels must never see its memory
		prefix = append(prefix, fmt.Sprintf("new %s - C", dt))
		sharedScalar := nv
		nv++
		// every shared tensor is formatted once before the goroutines start: the text "running alone"
		verbs := []string{"%v", "%+v", "%#v", "%.2f", "%d", "%s", "%-v"}
		for _, v := range shared {
			for _, vb := range verbs {
				prefix = append(prefix, fmt.Sprintf("fmt $%d %s", v, vb))
			}
		}
		isFloat := dt == "f64" || dt == "f32" || dt == "c128"
		ng := 2 + g.r.intn(3)
		if g.thorough() && g.r.chance(1, 4) {
			ng = 8 + g.r.intn(9)
		}
		var parts []string
		for gi := 0; gi < ng; gi++ {
			lv := nv // variables are numbered per goroutine after the shared prefix
			var steps []string
			// cold start: the first thing every goroutine does is a tensor-scalar operation on a private tensor of its
			// own element size - the first use of a lazily initialised per-size resource (scalar pools) then happens
			// concurrently in the first set a process runs
			cdt := []string{"u8", "i16", "f32", "f64", "c128"}[gi%5]
			steps = append(steps, fmt.Sprintf("new %s 2 C", cdt), fmt.Sprintf("bin add fn $%d #k3", lv), fmt.Sprintf("dump $%d", lv+1))
			lv += 2
			if k%3 == 0 && dt != "c128" {
				for _, one := range []string{"1", "1,1", "3"} {
					steps = append(steps, fmt.Sprintf("new %s %s C", dt, one), fmt.Sprintf("new %s %s C", dt, one),
						fmt.Sprintf("bin sub fn $%d $%d reuse=$%d", sharedScalar, lv, lv+1), fmt.Sprintf("dump $%d", lv+1),
						fmt.Sprintf("bin mul %s $%d $%d", []string{"fn", "meth"}[gi%2], lv, sharedScalar), fmt.Sprintf("dump $%d", lv+3),
						fmt.Sprintf("bin gt fn $%d $%d", sharedScalar, lv), fmt.Sprintf("dump $%d", lv+4), fmt.Sprintf("dump $%d", sharedScalar))
					lv += 5
				}
			}
			if len(sh) == 3 && isFloat {
				// every goroutine contracts the shared contiguous rank-3 tensor over its trailing axes (as left operand) and
				// reads it: the receiver of a contraction must not be reshaped in place, not even temporarily
				steps = append(steps, fmt.Sprintf("la tdot %s $%d $%d 1,2 1,2", []string{"fn", "meth"}[gi%2], shared[0], shared[0]), fmt.Sprintf("dump $%d", lv),
					fmt.Sprintf("atbox $%d 0 -1", shared[0]))
				lv++
			}
			if dt != "c128" && len(sh) >= 2 && gi < 3 {
				// arg reductions along the last axis of a shared tensor by several goroutines at once (the operand's
				// metadata must only be read)
				steps = append(steps, fmt.Sprintf("arg %s %s $%d %d vs=2", []string{"argmax", "argmin"}[gi%2], []string{"fn", "meth"}[gi%2], shared[gi%len(shared)], len(sh)-1), fmt.Sprintf("dump $%d", lv))
				lv++
			}
			// every goroutine opens with a burst of pool traffic at the same time as the others: private copies handed back
			// to the pool, views and new tensors (whose headers come from the pool) created and read in between
			if k%2 == 0 {
				for rep := 0; rep < 6; rep++ {
					sv0 := shared[(gi+rep)%len(shared)]
					steps = append(steps, fmt.Sprintf("clone $%d", sv0), fmt.Sprintf("ret $%d", lv), fmt.Sprintf("slice $%d %s", sv0, g.randSliceList(sh)),
						fmt.Sprintf("dump $%d", lv+1), fmt.Sprintf("new %s 2,2 C", dt), fmt.Sprintf("dump $%d", lv+2), fmt.Sprintf("ret $%d", lv+2))
					lv += 3
				}
			}
			nsteps := 3 + g.r.intn(6)
			for s := 0; s < nsteps; s++ {
				sv := shared[g.r.intn(len(shared))]
				switch g.r.intn(16) {
				case 14: // a private masked tensor: lazy and physical transposition (the mask moves with the data), counting, masked iteration
					bits := ""
					n := 1
					for _, d := range sh {
						n *= d
					}
					for i := 0; i < n; i++ {
						bits += []string{"0", "1"}[g.r.intn(2)]
					}
					mdt := dt
					if mdt == "c128" {
						mdt = "f64"
					}
					steps = append(steps, fmt.Sprintf("mnew %s %s C %s", mdt, ints(sh), bits))
					pv := lv
					lv++
					if len(sh) >= 2 {
						steps = append(steps, fmt.Sprintf("T $%d -", pv), fmt.Sprintf("transpose $%d", pv))
					}
					steps = append(steps, fmt.Sprintf("mdump $%d", pv), fmt.Sprintf("mq count $%d", pv), fmt.Sprintf("miter $%d Y", pv))
				case 15: // a private copy is reshaped, transposed and materialised
					steps = append(steps, fmt.Sprintf("clone $%d", sv))
					pv := lv
					lv++
					if len(sh) >= 2 {
						steps = append(steps, fmt.Sprintf("T $%d -", pv), fmt.Sprintf("transpose $%d", pv), fmt.Sprintf("dump $%d", pv))
					} else {
						steps = append(steps, fmt.Sprintf("dump $%d", pv))
					}
				case 10: // formatting of a shared tensor
					steps = append(steps, fmt.Sprintf("fmt $%d %s", sv, g.r.pick(verbs)))
				case 11: // reductions over a shared tensor
					if dt == "c128" {
						steps = append(steps, fmt.Sprintf("red sum fn $%d %s vs=2", sv, g.r.pick([]string{"-", "0"})), fmt.Sprintf("dump $%d", lv))
					} else {
						steps = append(steps, fmt.Sprintf("red %s fn $%d %s vs=2", g.r.pick([]string{"sum", "max", "min"}), sv, g.r.pick([]string{"-", "0"})), fmt.Sprintf("dump $%d", lv))
					}
					lv++
				case 12: // arg reductions
					if dt != "c128" {
						steps = append(steps, fmt.Sprintf("arg %s fn $%d %s vs=2", g.r.pick([]string{"argmax", "argmin"}), sv, g.r.pick([]string{"0", "all", fmt.Sprint(len(sh) - 1), fmt.Sprint(len(sh) - 1)})), fmt.Sprintf("dump $%d", lv))
						lv++
					}
				case 13: // products: the shared tensor with a private transposed copy of another shared one, or two shared vectors
					if isFloat {
						o := shared[g.r.intn(len(shared))]
						if len(sh) == 1 {
							steps = append(steps, fmt.Sprintf("la %s fn $%d $%d", g.r.pick([]string{"inner", "dot"}), sv, o), fmt.Sprintf("dump $%d", lv))
							lv++
						} else if len(sh) == 2 {
							steps = append(steps, fmt.Sprintf("clone $%d", o), fmt.Sprintf("T $%d 1,0", lv))
							c := lv
							lv++
							steps = append(steps, fmt.Sprintf("la %s fn $%d $%d", g.r.pick([]string{"mm", "dot"}), sv, c), fmt.Sprintf("dump $%d", lv))
							lv++
						} else if len(sh) == 3 {
							// contractions of two shared rank-3 tensors (same logical shape 2,3,2): over the trailing axes of the
							// left operand, over its leading axis, and the general Dot
							ax := g.r.pick([]string{"1,2 1,2", "2 0", "0 2", "0,1 0,1"})
							steps = append(steps, fmt.Sprintf("la tdot %s $%d $%d %s", g.r.pick([]string{"fn", "meth"}), sv, o, ax), fmt.Sprintf("dump $%d", lv))
							lv++
						}
					}
				case 0:
					steps = append(steps, fmt.Sprintf("dump $%d", sv))
					// pool traffic: a private copy is made, used, handed back to the pool; views and new tensors follow (their
					// headers come from the pool) and are read
					steps = append(steps, fmt.Sprintf("clone $%d", sv), fmt.Sprintf("dump $%d", lv), fmt.Sprintf("ret $%d", lv),
						fmt.Sprintf("slice $%d %s", sv, g.randSliceList(sh)), fmt.Sprintf("dump $%d", lv+1), fmt.Sprintf("new %s 2,2 C", dt), fmt.Sprintf("dump $%d", lv+2),
						fmt.Sprintf("ret $%d", lv+2), fmt.Sprintf("clone $%d", sv), fmt.Sprintf("dump $%d", lv+3))
					lv += 4
				case 1:
					steps = append(steps, fmt.Sprintf("atbox $%d 0 -1", sv))
				case 2:
					steps = append(steps, fmt.Sprintf("iter $%d Nd", sv))
				case 3:
					steps = append(steps, fmt.Sprintf("slice $%d %s", sv, g.randSliceList(sh)))
					lv++
				case 4:
					steps = append(steps, fmt.Sprintf("clone $%d", sv), fmt.Sprintf("dump $%d", lv))
					lv++
				case 5:
					steps = append(steps, fmt.Sprintf("mat $%d", sv), fmt.Sprintf("dump $%d", lv))
					lv++
				case 6: // safe arithmetic between two shared tensors (same logical shape)
					o := shared[g.r.intn(len(shared))]
					steps = append(steps, fmt.Sprintf("bin %s fn $%d $%d", g.r.pick([]string{"add", "mul", "sub"}), sv, o), fmt.Sprintf("dump $%d", lv))
					lv++
				case 7: // comparison with a scalar
					if dt != "c128" {
						steps = append(steps, fmt.Sprintf("bin %s fn $%d #k3", g.r.pick([]string{"gt", "lte"}), sv), fmt.Sprintf("dump $%d", lv))
						lv++
					}
				case 8: // unary
					steps = append(steps, fmt.Sprintf("un %s $%d", g.r.pick([]string{"neg", "square"}), sv), fmt.Sprintf("dump $%d", lv))
					lv++
				case 9: // private tensor, unsafe op on it with a shared operand as second operand
					steps = append(steps, fmt.Sprintf("new %s %s C", dt, ints(sh)))
					pv := lv
					lv++
					steps = append(steps, fmt.Sprintf("bin add fn $%d $%d unsafe", pv, sv), fmt.Sprintf("dump $%d", pv))
					lv++
				}
			}
			if len(steps) == 0 { // every goroutine does something
				steps = append(steps, fmt.Sprintf("dump $%d", shared[0]))
			}
			parts = append(parts, strings.Join(steps, " ; "))
		}
		g.n++
		fmt.Fprintf(g.w, "%s%d ; %s || %s\n", g.pfx, g.n, strings.Join(prefix, " ; "), strings.Join(parts, " || "))
	}
}
